#!/bin/sh
# usage: tools/run_all.sh quick|thorough [seed]   -- runs every registered check, prints one summary line per check
TIER=${1:-quick}
SEED=${2:-1}
cd "$(dirname "$0")/.."
for c in C01 C02 C03 C04 C05 C06 C07 C08 C09 C10 C11 C12 C13 C14 C15 C16 C17 C18 C19 C20; do
  S=$(date +%s)
  VERIF_SEED=$SEED ./check $c --tier $TIER > work/run_$c.log 2>&1
  RC=$?
  E=$(date +%s)
  echo "$c rc=$RC $((E-S))s $(tail -1 work/run_$c.log | cut -c1-160)"
done
