#!/usr/bin/env python3
"""Run once after a fresh restore: self-test the reference model and warm the build cache.
Everything is built from files on disk; nothing is fetched."""
import os
import random
import sys
import time

HERE = os.path.dirname(os.path.dirname(os.path.abspath(__file__)))
sys.path.insert(0, HERE)
sys.path.insert(0, os.path.join(HERE, 'lib'))
t = time.time()
from oracle import bls
bls.selftest(random.Random(1), heavy=True)
print('oracle self-test ok (%.1fs)' % (time.time() - t))
import build
import session
drivers = [f for f in sorted(os.listdir(os.path.join(HERE, 'drivers'))) if f.endswith('.cpp') and not f.startswith('_')]
ok = True
from oracle import a64, thumb
a64.selftest()
thumb.selftest()
print('interpreter self-tests ok')
for cfg in ('prod', 'san', 'p32', 'p64', 'prod-g', 'tsan', 'p64-O0', 'gcc-p64', 'p64-msan'):
    try:
        build.build_lib(cfg)
    except build.BuildError as e:
        ok = False
        print('setup: build of %s failed: %s' % (cfg, str(e)[-800:]))
try:
    build.build_driver('prod', 'opdrv.cpp')
    build.build_driver('san', 'opdrv.cpp')
except build.BuildError as e:
    ok = False
    print('setup: driver build failed: %s' % str(e)[-800:])
print('setup done in %.1fs' % (time.time() - t))
sys.exit(0 if ok else 1)
