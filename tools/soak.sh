#!/bin/sh
# usage: tools/soak.sh <tier> "<seeds>" <check> [<check>...]  -- runs the checks at several seeds on the unchanged tree; prints rc per run.
# Evidence written by these runs goes to a scratch VERIF_OUT (the committed evidence is left alone).
TIER=$1; SEEDS=$2; shift 2
cd "$(dirname "$0")/.."
OUT=$(mktemp -d /tmp/soak.XXXXXX); mkdir -p .build; ln -s "$(pwd)/.build" $OUT/.build
for s in $SEEDS; do for c in "$@"; do
  T0=$(date +%s)
  VERIF_SEED=$s VERIF_OUT=$OUT ./check $c --tier $TIER > $OUT/$c-$s.log 2>&1; RC=$?
  echo "$c seed=$s rc=$RC $(( $(date +%s) - T0 ))s $(tail -1 $OUT/$c-$s.log | cut -c1-150)"
  [ $RC -ne 0 ] && cp $OUT/$c-$s.log work/soakfail-$c-$s.log
done; done
rm -rf $OUT
