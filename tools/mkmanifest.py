#!/usr/bin/env python3
"""Regenerates /verif/MANIFEST.json from the table below (kept in one place so it is always valid)."""
import json
import os

HERE = os.path.dirname(os.path.dirname(os.path.abspath(__file__)))

CHECKS = {
    'C02': dict(
        technique='reference-model monitor over recorded operation events (Python integers), directed boundary operands, differential across builds, ASan/UBSan',
        text='Every public Fq/Fr operation is executed by the real library on raw limbs and each event is judged by an independent Python-integer model '
             '(value and limbs<p). Operands are solved for so that each compare-and-subtract arm (top word equal, result exactly p, carry/borrow chains, '
             'Montgomery pre-subtraction value on either side of p with equal top word, every Tonelli-Shanks order, scripted sampler rejections) is taken; '
             'the run fails if a named class is not reached. Held on N observed events, not a proof.',
        note='Trusted: Python big-int arithmetic, oracle/bls.py (self-tested), the text protocol of drivers/opdrv.cpp. Inputs not executed are not covered.',
        ref='DESIGN.md section 3 C02'),
}

NOT_YET = 'check not built yet in this round (planned, see DESIGN.md section 3)'


def main():
    props = [json.loads(l)['id'] for l in open(os.path.join(HERE, 'properties.jsonl'))]
    checks = []
    for pid in props:
        if pid not in CHECKS:
            continue
        c = CHECKS[pid]
        checks.append({
            'property_id': pid,
            'quick_cmd': './check %s --tier quick' % pid,
            'thorough_cmd': './check %s --tier thorough' % pid,
            'evidence_file': 'evidence/%s.json' % pid,
            'replay_cmd_template': './check %s --replay {path}' % pid,
            'engine': 'runtime-monitor',
            'level_claimed': {'category': 'exploration', 'text': c['text'], 'design_ref': c['ref']},
            'level_note': c['note'],
            'technique': c['technique'],
        })
    na = [{'property_id': p, 'reason': NA.get(p, NOT_YET)} for p in props if p not in CHECKS]
    m = {
        'version': 1,
        'setup_cmd': 'python3 tools/setup.py',
        'hooks': {
            'guard': 'JEDI_PAIRING_VERIF',
            'enable': 'every driver/library build made by lib/build.py passes -DJEDI_PAIRING_VERIF (config prod-nohook omits it)',
            'baseline_off_cmd': 'cd /repo/tests && make clean >/dev/null && make -j16 >/dev/null && ./test',
            'source_commits': HOOK_COMMITS,
            'add_only': True,
        },
        'engines': [{
            'name': 'runtime-monitor',
            'path': 'check',
            'serves_properties': [c['property_id'] for c in checks],
            'kind_free_text': 'workload drivers over the real library built from /repo (prod, ASan+UBSan, portable 64/32-bit, TSan) + Python reference model judging recorded events',
        }],
        'checks': checks,
        'not_applicable': na,
        'notes': 'Runtime monitoring and sanitizers only. Exit 0 held / 1 VIOLATION / 2 inconclusive (harness). known_findings.json lists recorded and fixed defects.',
    }
    with open(os.path.join(HERE, 'MANIFEST.json'), 'w') as f:
        json.dump(m, f, indent=1)
        f.write('\n')
    print('MANIFEST.json: %d checks, %d not_applicable' % (len(checks), len(na)))


NA = {}
HOOK_COMMITS = []

if __name__ == '__main__':
    main()
