#!/usr/bin/env python3
"""Regenerates /verif/MANIFEST.json from the table below (kept in one place so it is always valid)."""
import json
import os

HERE = os.path.dirname(os.path.dirname(os.path.abspath(__file__)))

CHECKS = {
    'C02': dict(
        technique='reference-model monitor over recorded operation events (Python integers), directed boundary operands, differential across builds, ASan/UBSan',
        text='Every public Fq/Fr operation is executed by the real library on raw limbs and each event is judged by an independent Python-integer model '
             '(value and limbs<p). Operands are solved for so that each compare-and-subtract arm (top word equal, result exactly p, carry/borrow chains, '
             'Montgomery pre-subtraction value on either side of p with equal top word, every Tonelli-Shanks order, scripted sampler rejections) is taken; '
             'the run fails if a named class is not reached. Held on N observed events, not a proof.',
        note='Trusted: Python big-int arithmetic, oracle/bls.py (self-tested), the text protocol of drivers/opdrv.cpp. Inputs not executed are not covered.',
        ref='DESIGN.md section 3 C02'),
    'C04': dict(
        technique='reference-model monitor (schoolbook tower over Python integers) over recorded Fq2/Fq6/Fq12 operation events, special-shape operands, all Frobenius indices, differential across builds, ASan/UBSan',
        text='Every public Fq2/Fq6/Fq12 operation is executed by the real library and judged against the defining polynomial arithmetic Fq[u]/(u^2+1), Fq2[v]/(v^3-(u+1)), '
             'Fq6[w]/(w^2-v) written from the definition (schoolbook, Frobenius by substituting the generic power w^(q^k)); unit-vector products at every coefficient '
             'position, subfield/sparse/zero shapes, Frobenius powers 0..13 and >2^31, sparse c1/c01/c014 shapes with zero members, map_to_cyclotomic against the generic power, '
             'cyclotomic squaring on subgroup members produced by the model itself. Held on N observed events.',
        note='Trusted: Python big-int arithmetic, oracle/bls.py (tower vs flattened representation cross-checked every run). Not executed inputs are not covered.',
        ref='DESIGN.md section 3 C04'),
    'C05': dict(
        technique='reference-model monitor (affine chord-and-tangent law) over recorded group-operation events, exceptional-case table x representative kinds, differential across builds, ASan/UBSan',
        text='add/add_mixed/double/negate/equal/from_affine/from_projective (C API entry points and C++ members) are driven with the exceptional table '
             '{O, P, -P, P in another representative, Q} x {z=1, z=-1, random z, z=0 with junk x,y} x {projective, affine second operand} on subgroup points, '
             'arbitrary curve points and points with a zero coordinate; each output is decoded (z=0 => identity) and compared as a point with the reference law. Held on N events.',
        note='Trusted: Python big-int arithmetic, oracle/bls.py curve code (self-tested: generators on curve, order r). Not executed inputs are not covered.',
        ref='DESIGN.md section 3 C05'),
    'C06': dict(
        technique='reference-model monitor over recorded (routine, scalar, base, result) events and over the recoding/decomposition outputs; boundary scalars 2^bits-i, k>=r, k>=2r; differential across builds, ASan/UBSan',
        text='Every scalar-multiplication entry point (C API multiply/multiply_affine, endomorphism and Frobenius methods, multiply_wnaf for windows 2-6 and widths 64/128/256/512, '
             'precomputed-table multiplication, double-and-add, cofactor-width overloads, explicit (c0,c1) and base-|x| digit entry points) is compared with [k]P computed by reference '
             'additions; WnafScalar::from_bigint digits must sum to k exactly with odd digits below 2^w inside a guarded buffer; PowersOfX::decompose must recombine to k or k-r. '
             'Scalars include the 33 values below every power-of-two width, multiples of r, lambda, multiples of |x|^i +-1. Held on N events.',
        note='Trusted: Python big-int arithmetic, oracle/bls.py curve code. decompose_lambda is static: observed only through results until hook H1 is added.',
        ref='DESIGN.md section 3 C06'),
    'C01': dict(
        technique='definition-level pairing oracle (Miller function over Fq12 + integer final exponent) and discrete-log bookkeeping over recorded (a,b,P,Q,e) events; differential across builds; ASan/UBSan',
        text='P=[a]G1 and Q=[b]G2 are produced by the library itself (four multiplication routes, real projective->affine conversion) or by the model, paired through the C API, '
             'the C++ template and the prepared form; every output must equal E0^(ab mod r) coefficient for coefficient, where E0 is the model\'s own definitional pairing of the '
             'published generators; points of unknown discrete log (hashed identity x sampled G2) are judged by the definitional pairing directly; e=1 iff ab=0; exported generator '
             'constants equal E0. An absolute-value oracle, so bilinear-but-different functions fail. Held on N events.',
        note='Trusted: Python big-int arithmetic, oracle/bls.py (bilinearity, order r and agreement of flattened/tower arithmetic self-tested each run).',
        ref='DESIGN.md section 3 C01'),
    'C07': dict(
        technique='reference-model monitor over GT events with known logs (a=E0^t), replay of the specified rejection sampler on the recorded RNG byte stream; differential; ASan/UBSan',
        text='gt_multiply / exponentiate_gt_nodiv / _div / digit entry point / gt_add / gt_double / gt_negate are compared with powers of the model\'s E0; the random-exponent routines '
             'run on scripted byte streams that force digit rejections and the 2^-127 outer rejection, and the returned y must be exactly what the specified sampler yields, with result = base^y.',
        note='Trusted: Python big-int arithmetic, oracle/bls.py. Uniformity follows structurally from the replayed sampler, it is not tested statistically.',
        ref='DESIGN.md section 3 C07'),
    'C08': dict(
        technique='reference-model monitor over pairing_sum/prepared_pairing events; exhaustive list shapes up to length 4 (quick) / 5 (thorough); private cursor observed through the C mirror struct; ASan/UBSan',
        text='All list shapes over {affine, prepared} x {normal, P=O, Q=O} up to the bound, the empty list, longer random lists and reuse of the same pair arrays are executed; the result '
             'must equal E0^(sum a_i b_i) and every prepared pair must have consumed exactly 68 (or 0) coefficients.',
        note='Trusted: Python big-int arithmetic, oracle/bls.py. Values inside a shape are sampled.',
        ref='DESIGN.md section 3 C08'),
    'C09': dict(
        technique='independent validity specification over recorded decode events: every valid encoding plus its hostile mutation family and random strings; accepted strings must re-encode to themselves; ASan/UBSan',
        text='marshal output is judged byte by byte (flags, canonical big-endian coordinates, c1 before c0); decode is fed each valid encoding, its mutation family (form flags, infinity '
             'with payload, flipped greater flag, perturbed coordinates, field+q, flag bits in later fields, abscissas outside the subgroup) and random strings; the model decides validity '
             'independently (reduced coordinates, curve equation, [r]P=O) and acceptance must coincide; non-validating decode must agree on valid strings.',
        note='Trusted: Python big-int arithmetic, oracle/bls.py. Which root carries the greater flag is not asserted (see known finding C02 compare).',
        ref='DESIGN.md section 3 C09'),
    'C10': dict(
        technique='reference-model monitor over hash/sampler outputs with the RNG callback as recording and injection point (scripted rejections); differential across builds for platform independence; ASan/UBSan',
        text='zp_from_hash = (h mod 2^255) mod r; from_hash results lie on the curve at the FIRST admissible abscissa (inputs searched to need 0..8 increments, c0 wrap-around, flag bits, '
             'values >= q); identity = cofactor multiple in G1; every sampler is replayed on the exact byte stream (field rejections, non-residue abscissas) and its result must be the '
             'cofactor multiple of the first admissible point, in the subgroup, non-identity; outputs byte-identical on prod/ASan/portable builds.',
        note='Trusted: Python big-int arithmetic, oracle/bls.py. Choice between the two roots y is checked only for determinism/build-independence.',
        ref='DESIGN.md section 3 C10'),
    'C11': dict(
        technique='history + executable slot-pattern model; in-process pairing-equation monitor after every API step; exact-size heap slot arrays under ASan; exhaustive one-step transitions for l=3',
        text='Delegation histories are executed through the C API the way the Go binding does (slot arrays of exactly l-len(attrs) entries); after every step a monitor checks the key '
             'against a slot-pattern model kept outside the library: free-slot list ascending, e(a0,g)=e(g2,g1)e(g3 prod h_i^v_i,a1), e(b_i,g)=e(h_i,a1), bsig, membership, decryption of a '
             'fresh ciphertext for exactly the pattern by key and master key, a1 kept/changed. l=3: all 54 keygen lists x every documented one-step list x both omit-all settings x '
             '{qualifykey, nondelegable_qualifykey} (+ resample samples, + adjustments that only toggle the omit-from-keys flag); hidden entries carry hostile id bits (the related list\'s value, r, 2^256-1, random); '
             'l up to 20: random histories of depth <= 5 incl. adjust_nondelegable. Held on N key checks.',
        note='Trusted: the library\'s own bls12_381 layer as instrument for the equations (independently checked by C01-C08), the model in checks/wkd.py. Attribute values are sampled.',
        ref='DESIGN.md section 3 C11'),
    'C12': dict(
        technique='negative-oracle monitor over decrypt events: generator guarantees a real difference mod r (absent = 0); hidden-slot filling attempts through every API that could do it; ASan/UBSan',
        text='decrypt(key for pattern P, ciphertext for list L) must differ from the message whenever L differs from P as vectors mod r (change/drop/add at free or hidden slots/multi), '
             'must equal it for equal-mod-r representatives (positive controls); qualifykey / nondelegable_qualifykey / adjust_nondelegable called with a value for a hidden slot must not '
             'yield a key that opens the ciphertext with that slot set; a documented adjustment that hides a slot it had fixed must stop the key from opening ciphertexts with that slot set; each single ciphertext component modification changes the result.',
        note='Trusted: library arithmetic as instrument; coincidental equality of random GT elements (2^-255) ignored.',
        ref='DESIGN.md section 3 C12'),
    'C13': dict(
        technique='monitor over sign/verify events with an independently evaluated verification equation; positive and real-difference negative cases derived from the slot-pattern model',
        text='sign and sign_precomputed (incl. the null-list form) on extension lists over free slots must verify under verify, verify_precomputed and the monitor\'s own evaluation of '
             'e(a0,g)=e(g2,g1)e(hsig^m g3 prod h_i^v_i,a1); other message, changed/dropped/added slot, hidden slot set, incompatible key, each altered signature component must all be rejected; '
             'the three verdicts must agree, so a lax verifier and a wrong signer cannot cancel.',
        note='Trusted: library pairing as instrument (two single pairings, not the product routine). Only parameters with signature support bind the message.',
        ref='DESIGN.md section 3 C13'),
    'C14': dict(
        technique='differential monitor: incremental path vs recomputation from scratch on the same inputs, all ordered list pairs for l=3 over a 3-value set incl. ids >= r, chains of adjustments',
        text='adjust_precomputed along chains of lists must equal precompute(to) at every step (and precompute itself must equal the monitor\'s product); adjust_nondelegable must equal '
             'nondelegable_qualifykey(parent,to) component for component; encrypt/sign/verify through precomputed values interchangeable with the direct forms.',
        note='Trusted: library group equality as instrument. quick tier enumerates every second ordered pair, thorough all 4096.',
        ref='DESIGN.md section 3 C14'),
    'C15': dict(
        technique='round-trip monitor through the Go-binding protocol with exact-size buffers (ASan), byte layout parsed by the reference model, single-element corruption injection',
        text='All ten object kinds x both encodings x slot counts 0..20 x free-slot subsets x signature support: marshal into exactly get_marshalled_length bytes (twice over different '
             'fills: every byte written, none beyond), *_marshalled_length agrees, set_length recovers the slot count, validating and non-validating unmarshal reproduce an equal object '
             '(compressed params: recomputed pairing), re-marshal is byte-identical; layout parsed independently (flag byte, order, canonical coordinates, big-endian idx, GT); each '
             'embedded element replaced by an invalid one (outside subgroup, off curve, wrong form, garbage) must be rejected; destinations are reused (A, B with one invalid element at each position, intact B): '
             'the result must equal unmarshalling B into a fresh destination and parameters must store e(g2,g1) of B.',
        note='Trusted: library group equality, oracle/bls.py for layout. The greater flag of compressed elements is masked in the layout comparison (covered by the decode round trip).',
        ref='DESIGN.md section 3 C15'),
    'C16': dict(
        technique='the caller-supplied hash callback as monitor: records the exact bytes handed to it by encrypt and decrypt; reference-model check of identity point, secret key and pairing bytes',
        text='Honest runs must hand the hash function identical 720-byte inputs (compressed identity | compressed ciphertext | pairing value) and pass length/destination through '
             '(lengths 0..1000); identity = cofactor-cleared try-and-increment point and sk = [s]Q_id by reference arithmetic incl. unmarshalled s >= r; pairing bytes equal the '
             'definitional pairing on a sample; another identity (key or object), another master key or a modified ciphertext must change the bytes (degenerate cases excluded by the model).',
        note='Trusted: oracle/bls.py; library pairing as instrument for the always-on comparison.',
        ref='DESIGN.md section 3 C16'),
    'C17': dict(
        technique='ASan+UBSan on the workloads of all other properties, valgrind memcheck on the production build (uninitialised-value use; assembly routines), MemorySanitizer builds of the portable code, hostile-buffer workload through the Go-binding protocol under ASan+UBSan and flush against PROT_NONE guard pages, libFuzzer in the thorough tier',
        text='(1) the workloads of C01-C16 and C18 are re-run under clang ASan+UBSan (thorough: also 32-bit-word and gcc builds), any report or crash is a violation keyed by report kind and '
             'source location; (2) valid buffers of every object kind and their hostile neighbourhood (truncations, extensions, first byte 0/1/2/255, bit flips, element garbage, random '
             'bytes up to 4 KiB) go through set_length -> exact-size allocation -> unmarshal -> marshal, under sanitizers and, on the production build, flush against guard pages at '
             'either end; length discovery is compared with an independent statement of the format; (3) field/group/pairing operations on operands flush against guard pages because '
             'the assembly is invisible to ASan; (4) thorough: 400k libFuzzer executions of the same protocol; (5) valgrind memcheck over the production build (-Ofast + assembly) on a bounded '
             'sample of every workload of C01-C17: use of uninitialised values and invalid accesses, also inside the assembly routines; (6) MemorySanitizer builds of the portable code (64-bit words, thorough also 32-bit) on a ten times larger sample of the workloads of C01-C16 - sound here because no C++ runtime library is linked. Hostile buffers include identity encodings substituted '
             'for every embedded point and every byte alignment of the buffer.',
        note='A clean sanitizer run is not memory safety: red-zone tools miss intra-object and far overruns (C06 guard words and the C08 cursor monitor cover the two fixed-size internal buffers). '
             'The Go bindings are not executed (no toolchain); their allocation protocol is reproduced in C.',
        ref='DESIGN.md section 3 C17'),
    'C18': dict(
        technique='differential monitor: same operation with distinct and with aliased output on identical operands, 158 (operation, pattern) rows across all layers and the C wrappers, on several builds',
        text='For every operation whose signature does not mark an operand __restrict (multi-precision integers incl. multi-word shifts and divisions, Fq/Fr, Fq2/Fq6/Fq12 incl. sparse '
             'products, Frobenius, cyclotomic and GT exponentiation, final exponentiation, curve add/double/negate/multiply in all variants, C wrappers with result==a / ==b) the result with '
             'out=a, out=b, out=a=b must equal the non-aliased result (bytes for integers and field elements, group equality for points). Restrict operands are never aliased.',
        note='The non-aliased result is what C02-C08 judge. Operand values: specials + seeded random (24 per row quick, 1200 thorough).',
        ref='DESIGN.md section 3 C18'),
    'C19': dict(
        technique='run-time layout probes compiled as C and as C++ and diffed under both word sizes; constants vs reference model; one behavioural differential row per extern "C" symbol found by nm',
        text='A C translation unit built from the shipped headers and a C++ one print sizeof/alignof/offsetof/member size for all 29 mirrored structs (incl. private pair fields and '
             'coeffs[68] vs num_coeffs); tables must be identical for 64-bit and 32-bit word typedefs, assembly and portable. Exported constants equal the C++ values and the reference '
             'model (r, generators, sizes, generator pairing). Every one of the 108 extern "C" functions in the built objects is called next to the C++ operation it forwards to on the same '
             'inputs and PRNG state (wrapper bound to a wrong-but-similar operation, swapped arguments, dropped flag); a function without a row fails the run.',
        note='Go bindings cannot run here (no toolchain); cgo consumes these same headers. The mapping wrapper -> intended C++ operation is taken from the header names/documentation.',
        ref='DESIGN.md section 3 C19'),
    'C20': dict(
        technique='executed freestanding closure link, strace bracket, writable-symbol snapshot, const-input snapshot and read-only (mprotect) shared inputs, ThreadSanitizer and valgrind helgrind runs with result comparison against sequential replay and an observed-overlap matrix',
        text='(1) undefined-symbol table of every object vs the allowed set and a -nostdlib -static link with a runtime offering only mem* + libgcc that runs initialisers and a '
             'pairing/WKD-IBE/LQ-IBE workload (prod, portable-64, portable-32); (2) no system call between markers bracketing all 15 API families (one of them works on parameters, keys and master keys of two hierarchies that reached the shared area only through marshal + unmarshal, alternating between them); (3) all writable library symbols '
             'unchanged by the workload - of the C20 driver (C interface; default and 32-bit-word builds) and of the drivers of C01-C16 (C++ entry points); (4) TSan builds, 4/8/16 threads from a barrier, seeded mixes on private outputs sharing const inputs, frequently the same operation at once: no '
             'report, results identical to sequential replay; evidence lists the operation-family pairs actually seen overlapping; (5) the shared const inputs (incl. attribute lists with '
             'identities >= r, hidden entries, scalars >= r) are byte-identical to their snapshot after every workload, and production builds run all families with those inputs in read-only '
             'pages; (6) helgrind over the production build, which also sees the assembly routines. The scheme family also uses call forms in which an argument aliases the output. Every shared object kind is marshalled from the shared object itself, and every shared object is put back as it was created before the reference snapshot is taken (so a first-use write during set-up cannot hide).',
        note='A finite number of schedules is observed. TSan cannot see inside the assembly routines; helgrind on the production build can, at lower volume.',
        ref='DESIGN.md section 3 C20'),
    'C03': dict(
        technique='differential execution of one vector set on six back ends (x86-64 BMI2/ADX and baseline assembly via dispatch swap and direct calls, portable 64-bit, portable 32-bit, AArch64 assembly under a subset interpreter of its disassembly, ARMv6-M assembly under a source-level Thumb-1 interpreter) against an integer oracle',
        text='Raw add/subtract/double/multiply/square, modular add/subtract/double, Montgomery reduction/multiplication/squaring are run with distinct and aliased outputs on every '
             'executable back end; each answer (bytes and carry/borrow/shift-out) must equal Python integer arithmetic and all back ends must be byte-identical. Vectors are constructed: '
             'carry/borrow chains through every limb, sums on/around q with equal top word, reduction inputs T=v*2^384-m*q with prescribed pre-subtraction value (every arm of the asm '
             'tails, v=q exactly, intermediate meta-carries), all-ones squares. The AArch64 routines must execute every instruction at least once. Tower, group-law and '
             'scalar-multiplication workloads are additionally diffed across prod/x86-baseline/portable-64/portable-32 and the portable code at clang -O0 and g++ -O2 (thorough: also 32-bit -O0 and g++ -O0).',
        note='AArch64 runs under oracle/a64.py on the llvm-mc object, ARMv6-M under oracle/thumb.py on the source text (it cannot be assembled here: pre-UAL syntax); neither is silicon. The one encoding that is ambiguous without the assembler (low-register MOV) is run under all three readings and must not matter.',
        ref='DESIGN.md section 3 C03'),
}

NOT_YET = 'check not built yet in this round (planned, see DESIGN.md section 3)'


# additions of the build-on session (see DESIGN.md sections 9.7-9.12), appended to the level texts
EXTRA = {
    'C06': ' Multiples of r plus / minus offsets of every magnitude; scalars written digit by digit in base |x| with structured digits.',
    'C04': ' The workload also runs on the portable code compiled without optimisation (clang -O0; thorough also 32-bit -O0, g++ -O2/-O0): latent undefined behaviour that optimised builds tolerate shows as a value difference. Elements with a prescribed relative norm to Fq6 (1, -1, 1 + t*v^m for one Fq2 coefficient t in Fq / imaginary / general) through inversion, squaring, conjugate product and the cyclotomic map. Elements whose INTERNAL (Montgomery) limbs are sparse (zero low words, single words, single bits) in every coefficient.',
    'C01': ' Points are also handed over as Jacobian representatives with chosen z (1, -1, random and structured values such as 1+tu, u, the value whose limbs read 1), converted by the library and paired through all three entry points.',
    'C02': ' Products whose word-serial Montgomery reduction hits an exact carry coincidence (T[i+n]+carry in {2^w-2..2^w+1}, with/without pending meta-carry, every round, w = 64 and 32) are constructed by lib/redcsolve.py; operands made of extreme words; the baseline x86 routine family runs in the quick tier. Sums laid out against the word-wise compare-with-p cascade (top j words equal, deciding word one above / below / 0 / all-ones / sign bit set, clear, flipped; 64- and 32-bit words) for add and double.',
    'C03': ' Reduction inputs and products with exact carry coincidences (lib/redcsolve.py) and special-word operands run on every back end; the tower, group-law, scalar-multiplication, pairing, GT, encoding, hashing, WKD-IBE and LQ-IBE workloads are diffed across prod / baseline x86 / portable-64 / portable-32 in the quick tier; the AArch64 and Thumb-1 interpreters cover the integer subset a rewrite plausibly uses (csel family, branches, shifts), so a rewritten routine is judged rather than declared uncovered.',
    'C05': ' Representatives include structured z values (-1, 2, 1/2, R, 2^64, 1+tu, 1+-u, u, tu, t, t+u, the value whose limbs read 1) through every operation and relation; output objects start as junk / a normalised point / the identity / another z by turns. Structured z values include those whose internal limbs read 2^32, 2^40, 2^63, 2^64, 2^96+2^33, 2^192*t.',
    'C07': ' Directed digit vectors (all zero, single digit) and sampler streams whose accepted draw is y = 0 or whose first draw per digit is exactly |x|, |x|-1, |x|+1, 2^64-1 or whose candidate is exactly r-1, r, r+1. Exponents written digit by digit in base |x| with digits structured in their 32-bit halves (zero low / high half, 2^32, 2^32-1, zero digits).',
    'C08': ' Lists of 31..65 and 255..257 (thorough ..300) affine pairs, prepared pairs and both; one prepared object prepared from a related point (same, negated, endomorphism images, identity) and then from Q must equal a fresh one. Pairs may point at their predecessor\'s G2 object (every sharing pattern over short lists with identity members).',
    'C09': ' Destinations start dirty but valid (zero / identity flag with arbitrary coordinates / another point); twist points whose y has a zero component exercise the second arm of the sort rule; points of isomorphic curves exercise the curve test separately from the subgroup test. Identity encodings with padding that is neutral for a word-wise accumulator (lanes cancelling under + or xor). The greater flag is predicted by the library\'s sort rule (order of the Montgomery forms; part of the wire format); G1 points whose y lies within 2^j of the rule\'s decision boundary; the same stray control bits in several later fields. Identity encodings whose padding parses to zero without being zero (q, q with control bits, control bits alone); small-order torsion points as non-subgroup strings; every third hostile string is decoded right after a validating decode of the point it belongs to.',
    'C10': ' Draws exactly equal to the modulus and its neighbours for every sampler; cofactor-torsion abscissas; consecutive identity derivations from related hashes (shared prefixes / suffixes). Exact small-order (13, 23, ...) torsion points of the twist and the curve as sampler candidates. Hash inputs whose x^3+b lies in Fq (residue / non-residue) or is purely imaginary, into dirty destinations. The returned root is pinned to the sort rule (hash-to-curve outputs are stored and exchanged); hashes whose point has y at the decision boundary of that rule. Fixed inputs needing 34 / 35 increments (far end of try-and-increment); related hashes by word permutation and xor/sum-neutral edits.',
    'C11': ' Slot counts 33, 65, 257 (thorough also 130); hidden entries carry hostile id bits; fresh output keys start dirty (foreign valid points, wrong slot count, opposite signature flag, or 0xA5); directed adjustments that only toggle the omit-from-keys flag. Adjustments between same-layout lists, with omit-all toggles, ids that are near misses of each other (wkd.near: one bit / one word / equal low or high halves), list arguments that are views of one array; 15% of the random-consuming operations start from rejection-forcing byte streams. Identities that are special for the scalar decompositions underneath (small multiples of x^2, of the cube roots of unity mod r, of |x|^i, and their negatives) are part of the exhaustive value cycle; adjustments that give slots back, with stale records in the reallocated slot array. Identities with zero 32-bit words and long runs of one bits.',
    'C12': ' Ciphertext lists carry the omit-from-keys flag on value entries (it has no meaning there); documented adjustments that hide a fixed slot must stop the key from opening ciphertexts with that slot set. Negatives also use near-miss ids; adjustments that hide all remaining slots through the list-level flag precede the filling attempts; crafted random streams as in C11. Key values include the algebraically special identities of C11.',
    'C13': ' Hierarchies with and without signature support; verify lists with flagged value entries; every precomputed input arrives by one of three routes (direct / adjusted from another list / adjusted away and back). Perturbed messages and ids include near misses (partial-word equality); crafted random streams as in C11. Signing and precompute lists carry the omit-from-keys flag on value entries as well.',
    'C14': ' Value changes whose difference is 2^k + small for every k; consumers of precomputed values (encrypt_precomputed, sign_precomputed, verify_precomputed, resamplekey) receive them through adjust chains. adjust_precomputed chains and adjust_nondelegable pairs whose two lists are views (prefix / suffix / all) of one array; omit-all toggles on both lists; near-miss id changes. Sign-path checks flag random entries of the signing list; a const attribute list modified by the call is a violation.',
    'C15': ' Destinations are dirty and reused (A, B with one invalid element at each position, intact B); equality covers hsig/bsig of signature-less objects (genuine defect fixed in /repo 5e1b5e0); identity-slot corruptions (sort bit, payload bit, other form). Objects with identity elements (constant, P+(-P), z=0 with arbitrary x,y) substituted at every element position round-trip, and accepted identity-element buffers must marshal back byte-identically. Single-element corruptions include the invalid-curve element (c^2 x, c^3 y) of a subgroup point at every position. Corruptions include small-order torsion elements (3/11/10177 on the curve, 13/23/2713 on the twist); every third unmarshal discovers the length with the stand-alone *_unmarshalled_length and stores l itself.',
    'C16': ' Degenerate masters (0, r, 2r, 2^256-1), all-zero encryption randomness and torsion-point identity hashes are directed cases; the hash callback may re-enter the library. Encrypt and setup also run from rejection-forcing random streams (digit and candidate rejections, boundary candidates). Master scalars include values special for the GLV / base-|x| decompositions and multiples of r plus offsets of every size.',
    'C18': ' Second-operand special values are paired with first-operand special values through an index coprime to every period; exponents 0, 1, 5, |x|-1, 2^64; the 32-bit-word build runs in the quick tier. Rows add(P,P\'), add(P\',P), add(P,-P\') with P\' another Jacobian representative of P, add_mixed(P,+-P); unoptimised and g++ portable builds among the configurations. A driver that dies inside a library operation is a keyed violation naming the last completed row.',
    'C19': ' Sign / verify / encrypt rows use trial-dependent key patterns (fixed / free / hidden per slot) and extension lists; the pairing_sum row varies (affine, prepared) counts over {0,1,2}^2 incl. the empty list with NULL arrays. Binary wrappers run with out=a, a=b (same object) and out=a=b, unary ones in place on odd trials; GT-typed arguments include arbitrary Fq12 values. The list-level omit-all flag varies in every list; every third adjust trial repeats the entries with only that flag flipped; unoptimised portable build among the configurations. Length rows use zero-slot objects into destinations with a stale slot count; sparse scalars; the layout probe reports a vanished C++ member as absent and judges by size, alignment and the other offsets.',
}


def main():
    for k, v in EXTRA.items():
        if not CHECKS[k]['text'].endswith(v):
            CHECKS[k]['text'] = CHECKS[k]['text'] + v
    props = [json.loads(l)['id'] for l in open(os.path.join(HERE, 'properties.jsonl'))]
    checks = []
    for pid in props:
        if pid not in CHECKS:
            continue
        c = CHECKS[pid]
        checks.append({
            'property_id': pid,
            'quick_cmd': './check %s --tier quick' % pid,
            'thorough_cmd': './check %s --tier thorough' % pid,
            'evidence_file': 'evidence/%s.json' % pid,
            'replay_cmd_template': './check %s --replay {path}' % pid,
            'engine': 'runtime-monitor',
            'level_claimed': {'category': 'exploration', 'text': c['text'], 'design_ref': c['ref']},
            'level_note': c['note'],
            'technique': c['technique'],
        })
    na = [{'property_id': p, 'reason': NA.get(p, NOT_YET)} for p in props if p not in CHECKS]
    m = {
        'version': 1,
        'setup_cmd': 'python3 tools/setup.py',
        'hooks': {
            'guard': 'JEDI_PAIRING_VERIF',
            'enable': 'every driver/library build made by lib/build.py passes -DJEDI_PAIRING_VERIF (config prod-nohook omits it)',
            'baseline_off_cmd': 'cd /repo/tests && make clean >/dev/null && make -j16 >/dev/null && ./test',
            'source_commits': HOOK_COMMITS,
            'add_only': True,
        },
        'engines': [{
            'name': 'runtime-monitor',
            'path': 'check',
            'serves_properties': [c['property_id'] for c in checks],
            'kind_free_text': 'workload drivers over the real library built from /repo (prod, ASan+UBSan, portable 64/32-bit, TSan) + Python reference model judging recorded events',
        }],
        'checks': checks,
        'not_applicable': na,
        'notes': 'Runtime monitoring and sanitizers only. Exit 0 held / 1 VIOLATION / 2 inconclusive (harness). known_findings.json lists recorded and fixed defects.',
    }
    with open(os.path.join(HERE, 'MANIFEST.json'), 'w') as f:
        json.dump(m, f, indent=1)
        f.write('\n')
    print('MANIFEST.json: %d checks, %d not_applicable' % (len(checks), len(na)))


NA = {}
HOOK_COMMITS = []

if __name__ == '__main__':
    main()
