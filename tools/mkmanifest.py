#!/usr/bin/env python3
"""Regenerates /verif/MANIFEST.json from the table below (kept in one place so it is always valid)."""
import json
import os

HERE = os.path.dirname(os.path.dirname(os.path.abspath(__file__)))

CHECKS = {
    'C02': dict(
        technique='reference-model monitor over recorded operation events (Python integers), directed boundary operands, differential across builds, ASan/UBSan',
        text='Every public Fq/Fr operation is executed by the real library on raw limbs and each event is judged by an independent Python-integer model '
             '(value and limbs<p). Operands are solved for so that each compare-and-subtract arm (top word equal, result exactly p, carry/borrow chains, '
             'Montgomery pre-subtraction value on either side of p with equal top word, every Tonelli-Shanks order, scripted sampler rejections) is taken; '
             'the run fails if a named class is not reached. Held on N observed events, not a proof.',
        note='Trusted: Python big-int arithmetic, oracle/bls.py (self-tested), the text protocol of drivers/opdrv.cpp. Inputs not executed are not covered.',
        ref='DESIGN.md section 3 C02'),
    'C04': dict(
        technique='reference-model monitor (schoolbook tower over Python integers) over recorded Fq2/Fq6/Fq12 operation events, special-shape operands, all Frobenius indices, differential across builds, ASan/UBSan',
        text='Every public Fq2/Fq6/Fq12 operation is executed by the real library and judged against the defining polynomial arithmetic Fq[u]/(u^2+1), Fq2[v]/(v^3-(u+1)), '
             'Fq6[w]/(w^2-v) written from the definition (schoolbook, Frobenius by substituting the generic power w^(q^k)); unit-vector products at every coefficient '
             'position, subfield/sparse/zero shapes, Frobenius powers 0..13 and >2^31, sparse c1/c01/c014 shapes with zero members, map_to_cyclotomic against the generic power, '
             'cyclotomic squaring on subgroup members produced by the model itself. Held on N observed events.',
        note='Trusted: Python big-int arithmetic, oracle/bls.py (tower vs flattened representation cross-checked every run). Not executed inputs are not covered.',
        ref='DESIGN.md section 3 C04'),
    'C05': dict(
        technique='reference-model monitor (affine chord-and-tangent law) over recorded group-operation events, exceptional-case table x representative kinds, differential across builds, ASan/UBSan',
        text='add/add_mixed/double/negate/equal/from_affine/from_projective (C API entry points and C++ members) are driven with the exceptional table '
             '{O, P, -P, P in another representative, Q} x {z=1, z=-1, random z, z=0 with junk x,y} x {projective, affine second operand} on subgroup points, '
             'arbitrary curve points and points with a zero coordinate; each output is decoded (z=0 => identity) and compared as a point with the reference law. Held on N events.',
        note='Trusted: Python big-int arithmetic, oracle/bls.py curve code (self-tested: generators on curve, order r). Not executed inputs are not covered.',
        ref='DESIGN.md section 3 C05'),
    'C06': dict(
        technique='reference-model monitor over recorded (routine, scalar, base, result) events and over the recoding/decomposition outputs; boundary scalars 2^bits-i, k>=r, k>=2r; differential across builds, ASan/UBSan',
        text='Every scalar-multiplication entry point (C API multiply/multiply_affine, endomorphism and Frobenius methods, multiply_wnaf for windows 2-6 and widths 64/128/256/512, '
             'precomputed-table multiplication, double-and-add, cofactor-width overloads, explicit (c0,c1) and base-|x| digit entry points) is compared with [k]P computed by reference '
             'additions; WnafScalar::from_bigint digits must sum to k exactly with odd digits below 2^w inside a guarded buffer; PowersOfX::decompose must recombine to k or k-r. '
             'Scalars include the 33 values below every power-of-two width, multiples of r, lambda, multiples of |x|^i +-1. Held on N events.',
        note='Trusted: Python big-int arithmetic, oracle/bls.py curve code. decompose_lambda is static: observed only through results until hook H1 is added.',
        ref='DESIGN.md section 3 C06'),
}

NOT_YET = 'check not built yet in this round (planned, see DESIGN.md section 3)'


def main():
    props = [json.loads(l)['id'] for l in open(os.path.join(HERE, 'properties.jsonl'))]
    checks = []
    for pid in props:
        if pid not in CHECKS:
            continue
        c = CHECKS[pid]
        checks.append({
            'property_id': pid,
            'quick_cmd': './check %s --tier quick' % pid,
            'thorough_cmd': './check %s --tier thorough' % pid,
            'evidence_file': 'evidence/%s.json' % pid,
            'replay_cmd_template': './check %s --replay {path}' % pid,
            'engine': 'runtime-monitor',
            'level_claimed': {'category': 'exploration', 'text': c['text'], 'design_ref': c['ref']},
            'level_note': c['note'],
            'technique': c['technique'],
        })
    na = [{'property_id': p, 'reason': NA.get(p, NOT_YET)} for p in props if p not in CHECKS]
    m = {
        'version': 1,
        'setup_cmd': 'python3 tools/setup.py',
        'hooks': {
            'guard': 'JEDI_PAIRING_VERIF',
            'enable': 'every driver/library build made by lib/build.py passes -DJEDI_PAIRING_VERIF (config prod-nohook omits it)',
            'baseline_off_cmd': 'cd /repo/tests && make clean >/dev/null && make -j16 >/dev/null && ./test',
            'source_commits': HOOK_COMMITS,
            'add_only': True,
        },
        'engines': [{
            'name': 'runtime-monitor',
            'path': 'check',
            'serves_properties': [c['property_id'] for c in checks],
            'kind_free_text': 'workload drivers over the real library built from /repo (prod, ASan+UBSan, portable 64/32-bit, TSan) + Python reference model judging recorded events',
        }],
        'checks': checks,
        'not_applicable': na,
        'notes': 'Runtime monitoring and sanitizers only. Exit 0 held / 1 VIOLATION / 2 inconclusive (harness). known_findings.json lists recorded and fixed defects.',
    }
    with open(os.path.join(HERE, 'MANIFEST.json'), 'w') as f:
        json.dump(m, f, indent=1)
        f.write('\n')
    print('MANIFEST.json: %d checks, %d not_applicable' % (len(checks), len(na)))


NA = {}
HOOK_COMMITS = []

if __name__ == '__main__':
    main()
