#!/bin/sh
# usage: tools/try_seeded.sh <patch.diff> <tier> <check> [<check> ...]
# Applies the patch to a scratch copy of /repo's sources (never to /repo), points the checks at it through VERIF_REPO,
# writes evidence/replays under a scratch directory, prints one line per check, removes the scratch copy.
PATCH=$(readlink -f "$1"); TIER=$2; shift 2
cd "$(dirname "$0")/.."
S=$(mktemp -d /tmp/seeded.XXXXXX)
mkdir -p "$S/repo" "$S/out"
cp -r /repo/src /repo/include "$S/repo/"
if ! (cd "$S/repo" && patch -p1 -s < "$PATCH"); then echo "PATCH-FAILED"; rm -rf "$S"; exit 3; fi
for c in "$@"; do
  T0=$(date +%s)
  VERIF_REPO="$S/repo" VERIF_OUT="$S/out" ./check $c --tier $TIER > "$S/out/$c.log" 2>&1
  RC=$?
  echo "$c rc=$RC $(( $(date +%s) - T0 ))s | $(grep -c '^VIOLATION' "$S/out/$c.log") violation line(s) | $(grep -m2 'key=' "$S/out/$c.log" | cut -c1-230 | tr '\n' ' ')"
done
# drop the scratch builds of this tree
rm -rf "$S"
