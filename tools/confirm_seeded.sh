#!/bin/sh
# usage: tools/confirm_seeded.sh <dir with patch.diff demo.cpp build_demo.sh> <name>
# Independently confirms a seeded change in a fresh scratch worktree of /repo: (1) it applies and compiles, (2) the pinned suite
# passes with it, (3) the demonstration fails with it and (4) passes without it.  The worktree is removed afterwards.
D=$(readlink -f "$1"); N=$2
W=/tmp/confirm-$N
git -C /repo worktree remove --force $W >/dev/null 2>&1
git -C /repo worktree add -q $W HEAD || exit 3
OUT=$W.out; mkdir -p $OUT; cp $D/demo.cpp $D/build_demo.sh $OUT/ 2>/dev/null
# the agents' build scripts write next to themselves; run a private copy
sed -i "s#/tmp/wt/out-[A-Za-z0-9_-]*#$OUT#g" $OUT/build_demo.sh $OUT/demo.cpp 2>/dev/null
R="name=$N"
( cd $OUT && sh ./build_demo.sh $W >/dev/null 2>&1 && ./demo_bin >/dev/null 2>&1 ); R="$R demo_unchanged_rc=$?"
if git -C $W apply $D/patch.diff 2>/dev/null; then R="$R applies=1"; else R="$R applies=0"; fi
( cd $OUT && sh ./build_demo.sh $W >/dev/null 2>&1 && ./demo_bin >/dev/null 2>&1 ); R="$R demo_changed_rc=$?"
( cd $W/tests && make clean >/dev/null 2>&1; make -j4 >/dev/null 2>&1 && ./test > $OUT/test.log 2>&1 ); TRC=$?
R="$R tests_rc=$TRC pass_lines=$(grep -c 'PASS$' $OUT/test.log 2>/dev/null) fail_lines=$(grep -c 'FAIL' $OUT/test.log 2>/dev/null)"
echo "$R"
git -C /repo worktree remove --force $W >/dev/null 2>&1
rm -rf $OUT
