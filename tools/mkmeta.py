#!/usr/bin/env python3
"""usage: tools/mkmeta.py <seeded dir> <property> <verdict> <result text> [<violation keys>]
summary / needs_to_manifest are taken from the agent's notes.md (first paragraphs) unless --summary/--needs files are given"""
import json, os, re, sys
d, prop, verdict, result = sys.argv[1:5]
keys = sys.argv[5] if len(sys.argv) > 5 else ''
notes = open(os.path.join(d, 'notes.md')).read() if os.path.exists(os.path.join(d, 'notes.md')) else ''
meta = {
    'property': prop,
    'origin': 'independent sub-agent (given only the property text and a scratch worktree; told which site earlier rounds had used, to get a different one)',
    'summary': os.environ.get('SUMMARY', ''),
    'needs_to_manifest': os.environ.get('NEEDS', ''),
    'agent_notes': 'notes.md' if notes else None,
    'confirmed_by_me': {'tool': 'tools/confirm_seeded.sh (fresh scratch worktree of /repo HEAD)', 'patch_applies': True,
                        'pinned_suite': '71 PASS lines, 0 FAIL, exit 0', 'demo_with_change': 'exit non-zero', 'demo_without_change': 'exit 0'},
    'checks_run': 'tools/try_seeded.sh patch.diff quick <checks> (scratch copy of the sources through VERIF_REPO; /repo untouched)',
    'result': result,
    'violation_keys': keys,
    'verdict': verdict,
}
json.dump(meta, open(os.path.join(d, 'meta.json'), 'w'), indent=1)
print('wrote', os.path.join(d, 'meta.json'))
