#!/bin/sh
# usage: tools/intake_seeded.sh <id> <tag> <agentN> <check> [<check> ...]
# copies an agent's deliverables from /tmp/wt/out-<id>-<tag> to seeded/<id>-<agentN>, confirms them in a fresh scratch worktree
# and runs the named quick checks against a scratch copy with the patch applied. Removes the agent's worktree.
ID=$1; TAG=$2; AG=$3; shift 3
cd "$(dirname "$0")/.."
SRC=/tmp/wt/out-$ID-$TAG; DST=seeded/$ID-$AG
mkdir -p $DST
cp $SRC/patch.diff $SRC/demo.cpp $SRC/build_demo.sh $DST/ || exit 3
cp $SRC/notes.md $DST/notes.md 2>/dev/null
echo "--- confirm"; tools/confirm_seeded.sh $DST $ID-$TAG
echo "--- checks"; tools/try_seeded.sh $DST/patch.diff quick "$@"
git -C /repo worktree remove --force /tmp/wt/$ID-$TAG 2>/dev/null; rm -rf /tmp/wt/out-$ID-$TAG
