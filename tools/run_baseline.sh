#!/bin/sh
# Builds and runs the repository's pinned test suite with the verification guard OFF
# (the repository's own Makefile never defines JEDI_PAIRING_VERIF).
set -e
cd /repo/tests
make clean >/dev/null 2>&1
make -j16 >/dev/null 2>&1
./test > /tmp/jedi_baseline.$$ 2>&1 || true
PASS=$(grep -c 'PASS$' /tmp/jedi_baseline.$$ || true)
FAIL=$(grep -c 'FAIL' /tmp/jedi_baseline.$$ || true)
cat /tmp/jedi_baseline.$$
rm -f /tmp/jedi_baseline.$$
echo "baseline: $PASS passed, $FAIL failed"
[ "$FAIL" = "0" ] && [ "$PASS" -ge 33 ]
