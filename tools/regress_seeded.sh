#!/bin/sh
# usage: tools/regress_seeded.sh [pattern]   -- for every seeded/<id>-agentN (matching pattern), run the quick check(s) named in
# seeded/<dir>/catch.txt (default: the property's own check) against a scratch copy with the patch applied; prints CAUGHT/MISSED.
cd "$(dirname "$0")/.."
for d in seeded/${1:-*}; do
  [ -f $d/patch.diff ] || continue
  P=$(basename $d | cut -d- -f1)
  CHECKS=$P
  [ -f $d/catch.txt ] && CHECKS=$(cat $d/catch.txt)
  R=$(tools/try_seeded.sh $d/patch.diff quick $CHECKS 2>&1)
  if echo "$R" | grep -q "rc=1"; then echo "CAUGHT $(basename $d) by $(echo "$R" | grep 'rc=1' | awk '{print $1}' | tr '\n' ' ')"; else echo "MISSED $(basename $d): $(echo $R | cut -c1-200)"; fi
done
