#!/usr/bin/env python3
"""Which library code do the quick-tier workloads of all checks execute?  (a guide for extending workloads, not a check)

Builds the library and every driver with clang source-based coverage (-O0), runs the quick workload of every property through
them (value judgements are discarded here), merges the profiles and writes
  coverage/summary.json   per-file line / function / region totals for /repo/src and /repo/include
  coverage/uncovered.txt  every library function never entered, and every uncovered line range
usage: tools/coverage.py [seed]
"""
import importlib
import json
import os
import shutil
import subprocess
import sys

HERE = os.path.dirname(os.path.dirname(os.path.abspath(__file__)))
sys.path.insert(0, HERE)
sys.path.insert(0, os.path.join(HERE, 'lib'))
sys.path.insert(0, os.path.join(HERE, 'checks'))
import build
import harness
import session

seed = int(sys.argv[1]) if len(sys.argv) > 1 else 1
out = os.path.join(HERE, 'coverage')
raw = os.path.join(HERE, 'work', 'cov-raw')
shutil.rmtree(raw, ignore_errors=True)
os.makedirs(raw)
os.makedirs(out, exist_ok=True)
os.environ['LLVM_PROFILE_FILE'] = os.path.join(raw, 'p-%p-%m.profraw')
os.environ['VERIF_OUT'] = os.path.join(HERE, 'work', 'cov-out')
shutil.rmtree(os.environ['VERIF_OUT'], ignore_errors=True)
os.makedirs(os.environ['VERIF_OUT'])
if not os.path.exists(os.path.join(os.environ['VERIF_OUT'], '.build')):
    os.symlink(os.path.join(HERE, '.build'), os.path.join(os.environ['VERIF_OUT'], '.build'))
build.BUILD = os.path.join(HERE, '.build')

exes = set()
WORK = [('c01', 'opdrv.cpp'), ('c02', 'opdrv.cpp'), ('c04', 'opdrv.cpp'), ('c05', 'opdrv.cpp'), ('c06', 'opdrv.cpp'), ('c07', 'opdrv.cpp'), ('c08', 'opdrv.cpp'), ('c09', 'opdrv.cpp'),
        ('c10', 'opdrv.cpp'), ('c11', 'wkd_drv.cpp'), ('c12', 'wkd_drv.cpp'), ('c13', 'wkd_drv.cpp'), ('c14', 'wkd_drv.cpp'), ('c15', 'scheme_drv.cpp'), ('c16', 'scheme_drv.cpp'),
        ('c17', 'scheme_drv.cpp')]
for name, drv in WORK:
    mod = importlib.import_module(name)
    exe = build.build_driver('cov', drv)
    exes.add(exe)
    names = {'c15': ['prod', 'san'], 'c17': ['san', 'cov', 'guard-end', 'guard-start']}.get(name, ['cov'])
    ex = {n: (exe, ['--guard-end'] if n == 'guard-end' else (['--guard-start'] if n == 'guard-start' else [])) for n in names}
    sub = harness.Ctx(name.upper(), 'quick', seed)
    try:
        session.run_shards(sub, mod.worker, 16, ex, {'cfgs': ['cov']})
    except harness.HarnessError as e:
        print('note: %s: %s' % (name, str(e)[:200]))
    print('%s: %d events, %d violations (ignored here)' % (name, sub.evaluations, len(sub.violations)))
    sys.stdout.flush()
# drivers that are run directly
for drv, args in (('alias_drv.cpp', ['--trials', '8', '--seed', str(seed)]), ('capi_drv.cpp', ['--trials', '12', '--seed', str(seed)])):
    exe = build.build_driver('cov', drv)
    exes.add(exe)
    rc, o, e = harness.run_driver(exe, None, args=args, timeout=3000)
    print('%s rc=%s' % (drv, rc))
exe = build.build_driver('cov', 'c20_drv.cpp', extra_ld=['-lpthread'])
exes.add(exe)
for args in (['--threads', '4', '12', str(seed)], ['--roinputs', '4', '8', str(seed)]):
    rc, o, e = harness.run_driver(exe, None, args=args, timeout=3000)
    print('c20_drv %s rc=%s' % (args[0], rc))
# C03 raw routines go through opdrv as well (bmi2 / x86base)
import c03, random
vecs = c03.gen_vectors(random.Random(33), 40, True)
lines = '\n'.join(c03.line_for(k, F, prm) for k, F, prm in vecs) + '\n'
op = build.build_driver('cov', 'opdrv.cpp')
for a in ([], ['--x86base']):
    rc, o, e = harness.run_driver(op, lines, args=a, timeout=3000)
    print('c03 raw vectors %s rc=%s' % (a, rc))

prof = os.path.join(raw, 'merged.profdata')
files = [os.path.join(raw, f) for f in os.listdir(raw) if f.endswith('.profraw')]
print('%d raw profiles' % len(files))
listing = os.path.join(raw, 'list.txt')
open(listing, 'w').write('\n'.join(files) + '\n')
subprocess.run(['llvm-profdata-14', 'merge', '-sparse', '-f', listing, '-o', prof], check=True)
objs = []
for e in sorted(exes):
    objs += ['-object', e]
objs = objs[1:]      # first one is positional
rep = subprocess.run(['llvm-cov-14', 'export', '-summary-only', '-instr-profile', prof] + objs, stdout=subprocess.PIPE, text=True, check=True)
data = json.loads(rep.stdout)['data'][0]
summ = {}
for f in data['files']:
    fn = f['filename']
    if '/repo/' not in fn:
        continue
    s = f['summary']
    summ[fn.split('/repo/')[1]] = {k: {'count': s[k]['count'], 'covered': s[k]['covered'], 'percent': round(s[k]['percent'], 1)} for k in ('lines', 'functions', 'regions', 'branches') if k in s}
tot = {k: {'count': sum(v[k]['count'] for v in summ.values() if k in v), 'covered': sum(v[k]['covered'] for v in summ.values() if k in v)} for k in ('lines', 'functions', 'regions', 'branches')}
json.dump({'seed': seed, 'tier': 'quick', 'totals': tot, 'files': dict(sorted(summ.items()))}, open(os.path.join(out, 'summary.json'), 'w'), indent=1)
# uncovered functions and line ranges
full = subprocess.run(['llvm-cov-14', 'export', '-instr-profile', prof, '-skip-expansions'] + objs, stdout=subprocess.PIPE, text=True, check=True)
d = json.loads(full.stdout)['data'][0]
lines_out = []
seen = {}
for fn in d['functions']:
    if not any('/repo/' in x for x in fn['filenames']):
        continue
    key = (fn['filenames'][0], fn['regions'][0][0])
    seen[key] = max(seen.get(key, 0), fn['count'])
    seen.setdefault(('name', key), fn['name'])
never = sorted((k[0].split('/repo/')[1], k[1], seen[('name', k)]) for k in seen if k[0] != 'name' and seen[k] == 0)
lines_out.append('# functions of the library never entered by any quick workload (%d)' % len(never))
for f, ln, name in never:
    dem = subprocess.run(['c++filt', name], stdout=subprocess.PIPE, text=True).stdout.strip()
    lines_out.append('%s:%d  %s' % (f, ln, dem[:160]))
lines_out.append('')
lines_out.append('# uncovered line ranges per file (segments with count 0)')
for f in d['files']:
    if '/repo/' not in f['filename']:
        continue
    unc = []
    segs = f['segments']
    for i, sg in enumerate(segs):
        line, col, cnt, has, entry = sg[0], sg[1], sg[2], sg[3], sg[4]
        if has and cnt == 0:
            end = segs[i + 1][0] if i + 1 < len(segs) else line
            unc.append((line, end))
    merged = []
    for a, b in unc:
        if merged and a <= merged[-1][1] + 1:
            merged[-1] = (merged[-1][0], max(merged[-1][1], b))
        else:
            merged.append((a, b))
    if merged:
        lines_out.append('%s: %s' % (f['filename'].split('/repo/')[1], ' '.join('%d-%d' % m if m[0] != m[1] else str(m[0]) for m in merged)))
lines_out.append('')
lines_out.append('# branches with a side never taken (file:line:col  true-count/false-count); `if constexpr` alternatives and template instantiations appear here too')
for f in d['files']:
    if '/repo/' not in f['filename']:
        continue
    agg = {}
    for br in f.get('branches', []):
        key = (br[0], br[1])
        t, fl = agg.get(key, (0, 0))
        agg[key] = (t + br[4], fl + br[5])
    for (ln, col), (t, fl) in sorted(agg.items()):
        if t == 0 or fl == 0:
            lines_out.append('%s:%d:%d  %d/%d' % (f['filename'].split('/repo/')[1], ln, col, t, fl))
open(os.path.join(out, 'uncovered.txt'), 'w').write('\n'.join(lines_out) + '\n')
print(json.dumps(tot))
shutil.rmtree(raw, ignore_errors=True)
shutil.rmtree(os.environ['VERIF_OUT'], ignore_errors=True)
