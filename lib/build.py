"""Build matrix: compiles the library from /repo's *current working tree* into
/verif/.build/<config>-<hash>/ and links drivers against it.

The hash covers the contents of every file under /repo/src and /repo/include, the
flags and the driver source, so an edit to /repo always causes a rebuild, and an
unchanged tree is not recompiled by every check.
"""
import hashlib
import os
import shutil
import subprocess
import sys
from concurrent.futures import ThreadPoolExecutor

REPO = os.environ.get('VERIF_REPO', '/repo')
VERIF = os.path.dirname(os.path.dirname(os.path.abspath(__file__)))
BUILD = os.path.join(os.environ.get('VERIF_OUT') or VERIF, '.build')     # scratch runs keep their builds with their output
GUARD = 'JEDI_PAIRING_VERIF'

COMMON = ['-std=c++17', '-I' + os.path.join(REPO, 'include'), '-D' + GUARD]
SAN = ['-O1', '-g', '-fno-omit-frame-pointer', '-fsanitize=address,undefined',
       '-fno-sanitize-recover=all', '-fno-sanitize=object-size']
SANX = ['-O1', '-g', '-fno-omit-frame-pointer', '-fsanitize=address,undefined',
        '-fsanitize-recover=all', '-fno-sanitize=object-size']
PROD = ['-Ofast', '-fno-vectorize']
TSAN = ['-O1', '-g', '-fno-omit-frame-pointer', '-fsanitize=thread']
P64 = ['-DDISABLE_ASM']
P32 = ['-DDISABLE_ASM', '-U__SIZEOF_INT128__']

CONFIGS = {
    # name: (compiler, cxxflags, use_asm, ldflags)
    'prod': ('clang++', PROD, True, []),
    'prod-nohook': ('clang++', PROD, True, []),   # guard off (see cxxflags())
    'prod-pic': ('clang++', PROD + ['-fPIC'], True, []),
    'prod-g': ('clang++', PROD + ['-g', '-gdwarf-4'], True, []),          # production code generation with line tables, for valgrind
    'san': ('clang++', SAN, True, ['-fsanitize=address,undefined']),
    'sanx': ('clang++', SANX, True, ['-fsanitize=address,undefined']),
    'p64': ('clang++', PROD + P64, False, []),
    'p32': ('clang++', PROD + P32, False, []),
    # other code generations of the portable code: no optimisation at all (every load and store of the source happens, in source order -
    # what latent undefined behaviour such as a broken __restrict promise or a read of a dead temporary depends on) and gcc
    'p64-O0': ('clang++', ['-O0'] + P64, False, []),
    'p32-O0': ('clang++', ['-O0'] + P32, False, []),
    'gcc-p64': ('g++', ['-O2'] + P64, False, []),
    'gcc-p64-O0': ('g++', ['-O0'] + P64, False, []),
    'p64-san': ('clang++', SAN + P64, False, ['-fsanitize=address,undefined']),
    'p32-san': ('clang++', SAN + P32, False, ['-fsanitize=address,undefined']),
    'tsan': ('clang++', TSAN, True, ['-fsanitize=thread']),
    'p64-tsan': ('clang++', TSAN + P64, False, ['-fsanitize=thread']),
    'p32-tsan': ('clang++', TSAN + P32, False, ['-fsanitize=thread']),
    # MemorySanitizer over the portable code (the assembly routines are not instrumented, so builds with them would report their
    # outputs as uninitialised); the library and the drivers use no C++ runtime library, so everything the process runs is instrumented
    'p64-msan': ('clang++', ['-O1', '-g', '-fno-omit-frame-pointer', '-fsanitize=memory', '-fsanitize-memory-track-origins=1'] + P64, False, ['-fsanitize=memory']),
    'p32-msan': ('clang++', ['-O1', '-g', '-fno-omit-frame-pointer', '-fsanitize=memory', '-fsanitize-memory-track-origins=1'] + P32, False, ['-fsanitize=memory']),
    'gcc-san': ('g++', ['-O1', '-g', '-fno-omit-frame-pointer', '-fsanitize=address,undefined',
                        '-fno-sanitize-recover=all'], True, ['-fsanitize=address,undefined']),
    'fuzz': ('clang++', ['-O1', '-g', '-fno-omit-frame-pointer', '-fsanitize=fuzzer-no-link,address,undefined',
                         '-fno-sanitize-recover=all', '-fno-sanitize=object-size'], True,
             ['-fsanitize=fuzzer,address,undefined']),
    'cov': ('clang++', ['-O0', '-g', '-fprofile-instr-generate', '-fcoverage-mapping'], True,
            ['-fprofile-instr-generate']),
}


class BuildError(Exception):
    pass


def cxxflags(config):
    cc, flags, asm, ld = CONFIGS[config]
    common = list(COMMON)
    if config == 'prod-nohook':
        common = [f for f in common if f != '-D' + GUARD]
    return cc, common + flags, asm, ld


def lib_sources(asm):
    srcs = []
    for sub in ('src/bls12_381', 'src/wkdibe', 'src/lqibe'):
        d = os.path.join(REPO, sub)
        for f in sorted(os.listdir(d)):
            if f.endswith('.cpp'):
                srcs.append(os.path.join(d, f))
    if asm:
        d = os.path.join(REPO, 'src/core/arch/x86_64')
        for f in sorted(os.listdir(d)):
            if f.endswith('.cpp') or f.endswith('.s'):
                srcs.append(os.path.join(d, f))
    return srcs


_tree_hash = None


def tree_hash():
    global _tree_hash
    if _tree_hash is None:
        h = hashlib.sha256()
        for top in ('src', 'include'):
            for root, dirs, files in os.walk(os.path.join(REPO, top)):
                dirs.sort()
                for f in sorted(files):
                    p = os.path.join(root, f)
                    h.update(p.encode())
                    with open(p, 'rb') as fh:
                        h.update(fh.read())
        _tree_hash = h.hexdigest()[:16]
    return _tree_hash


def _run(cmd, what):
    r = subprocess.run(cmd, stdout=subprocess.PIPE, stderr=subprocess.STDOUT, text=True)
    if r.returncode != 0:
        raise BuildError('%s failed: %s\n%s' % (what, ' '.join(cmd), r.stdout[-4000:]))
    return r.stdout


def build_lib(config, extra_flags=()):
    """returns (dir, [object files])"""
    cc, flags, asm, ld = cxxflags(config)
    flags = flags + list(extra_flags)
    key = hashlib.sha256((tree_hash() + config + ' '.join(flags)).encode()).hexdigest()[:12]
    tag = config + ('-x' + hashlib.sha256(' '.join(extra_flags).encode()).hexdigest()[:6] if extra_flags else '')
    d = os.path.join(BUILD, '%s-%s' % (tag, key))
    srcs = lib_sources(asm)
    objs = [os.path.join(d, os.path.basename(os.path.dirname(s)) + '_' + os.path.basename(s).rsplit('.', 1)[0] + ('_s' if s.endswith('.s') else '') + '.o') for s in srcs]
    if os.path.exists(os.path.join(d, '.done')):
        return d, objs
    # remove stale builds of the same config
    if os.path.isdir(BUILD):
        for e in os.listdir(BUILD):
            if e.startswith(tag + '-') and e != os.path.basename(d) and e[len(tag) + 1:].isalnum() and len(e) == len(tag) + 13:
                shutil.rmtree(os.path.join(BUILD, e), ignore_errors=True)
    os.makedirs(d, exist_ok=True)

    def comp(pair):
        s, o = pair
        if s.endswith('.s'):
            _run(['as', s, '-o', o], 'assemble')
        else:
            _run([cc, '-c'] + flags + [s, '-o', o], 'compile')
    with ThreadPoolExecutor(16) as ex:
        list(ex.map(comp, zip(srcs, objs)))
    open(os.path.join(d, '.done'), 'w').write('ok')
    return d, objs


def build_driver(config, driver_src, extra_flags=(), extra_ld=(), extra_srcs=(), name=None, lib_extra_flags=()):
    """compile driver_src (path relative to /verif/drivers or absolute) against the config's library."""
    cc, flags, asm, ld = cxxflags(config)
    d, objs = build_lib(config, lib_extra_flags)
    if not os.path.isabs(driver_src):
        driver_src = os.path.join(VERIF, 'drivers', driver_src)
    h = hashlib.sha256()
    for p in [driver_src] + [s for s in extra_srcs]:
        h.update(open(p, 'rb').read())
    # headers in drivers/
    for f in sorted(os.listdir(os.path.join(VERIF, 'drivers'))):
        if f.endswith('.h') or f.endswith('.hpp'):
            h.update(open(os.path.join(VERIF, 'drivers', f), 'rb').read())
    h.update(' '.join(list(extra_flags) + list(extra_ld)).encode())
    base = name or os.path.basename(driver_src).rsplit('.', 1)[0]
    exe = os.path.join(d, '%s-%s' % (base, h.hexdigest()[:10]))
    if os.path.exists(exe):
        return exe
    for e in os.listdir(d):
        if e.startswith(base + '-') and not e.endswith('.o'):
            try:
                os.remove(os.path.join(d, e))
            except OSError:
                pass
    cmd = [cc] + flags + list(extra_flags) + ['-I' + os.path.join(VERIF, 'drivers'), driver_src] + list(extra_srcs) + objs + ld + list(extra_ld) + ['-o', exe + '.tmp']
    _run(cmd, 'link driver')
    os.replace(exe + '.tmp', exe)
    return exe


def build_many(jobs):
    """jobs: list of (config, driver_src, kwargs) -> list of exe paths, built in parallel per config"""
    with ThreadPoolExecutor(max(1, min(6, len(jobs)))) as ex:
        futs = [ex.submit(build_driver, c, s, **kw) for c, s, kw in jobs]
        return [f.result() for f in futs]


if __name__ == '__main__':
    for c in sys.argv[1:]:
        print(c, build_lib(c)[0])
