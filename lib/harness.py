"""Verdict discipline, evidence, known-findings matching, driver execution."""
import fnmatch
import json
import os
import random
import subprocess
import sys
import time
import traceback
from concurrent.futures import ThreadPoolExecutor

VERIF = os.path.dirname(os.path.dirname(os.path.abspath(__file__)))
sys.path.insert(0, VERIF)
sys.path.insert(0, os.path.join(VERIF, 'lib'))

LEVEL = 'exploration'


class HarnessError(Exception):
    """inconclusive: build broke, oracle self-test failed, driver produced nothing, ..."""


class Ctx:
    def __init__(self, prop, tier, seed):
        self.prop = prop
        self.tier = tier
        self.seed = seed
        self.rng = random.Random((seed << 8) ^ int(prop[1:]))
        self.t0 = time.time()
        self.violations = []      # dicts: key, what, replay(dict)
        self.evaluations = 0
        self.classes = {}         # (op, class) -> count   (non-trivial distinct keys)
        self.trivial = 0
        self.samples = []
        self.extra = {}
        self.assumptions = []
        self.rule = ''
        self.required_classes = set()
        self.known = load_known()
        self.quick = tier == 'quick'

    # ---- counting
    def event(self, op, cls=None, trivial=False, n=1):
        self.evaluations += n
        if trivial:
            self.trivial += n
        else:
            k = '%s|%s' % (op, cls if cls is not None else '-')
            self.classes[k] = self.classes.get(k, 0) + n

    def sample(self, obj, limit=6):
        if len(self.samples) < limit:
            self.samples.append(obj)

    def require(self, *keys):
        for k in keys:
            self.required_classes.add(k)

    # ---- violations
    def violation(self, key, what, replay=None):
        if not key.startswith(self.prop + ':'):
            key = self.prop + ':' + key
        for v in self.violations:
            if v['key'] == key:
                v['count'] += 1
                return
        self.violations.append({'key': key, 'what': what, 'replay': replay or {}, 'count': 1})

    def pick(self, n_quick, n_thorough):
        return n_quick if self.quick else n_thorough


def load_known():
    p = os.path.join(VERIF, 'known_findings.json')
    if not os.path.exists(p):
        return []
    with open(p) as f:
        return json.load(f).get('findings', [])


def match_known(known, prop, key):
    for k in known:
        if k.get('status') != 'known' or k.get('property') != prop:
            continue
        if fnmatch.fnmatchcase(key, k['key']):
            return k
    return None


def finish(ctx, min_events=1):
    """write evidence, print verdict lines, return exit code"""
    wall = time.time() - ctx.t0
    new = []
    known_hits = []
    for v in ctx.violations:
        k = match_known(ctx.known, ctx.prop, v['key'])
        if k:
            known_hits.append((v, k))
        else:
            new.append(v)
    missing = [c for c in sorted(ctx.required_classes) if ctx.classes.get(c, 0) == 0]
    distinct = len(ctx.classes)
    cov = {
        'evaluations': int(ctx.evaluations),
        'distinct_nontrivial': int(distinct),
        'rule': ctx.rule,
        'samples': ctx.samples if ctx.samples else [],
        'trivial_events': ctx.trivial,
        'class_histogram': dict(sorted(ctx.classes.items())),
        'required_classes_missing': missing,
        'known_findings_reproduced': [v['key'] for v, _ in known_hits],
        'new_violation_keys': [v['key'] for v in new],
    }
    cov.update(ctx.extra)
    ev = {
        'property_id': ctx.prop,
        'tier': ctx.tier,
        'seed': int(ctx.seed),
        'level': LEVEL,
        'coverage': cov,
        'assumptions': ctx.assumptions,
        'wall_s': round(wall, 2),
        'violations': len(new),
    }
    outroot = os.environ.get('VERIF_OUT') or VERIF      # VERIF_OUT: scratch runs (seeded changes) must not overwrite committed evidence
    os.makedirs(os.path.join(outroot, 'evidence'), exist_ok=True)
    path = os.path.join(outroot, 'evidence', ctx.prop + '.json')
    tmp = path + '.tmp'
    with open(tmp, 'w') as f:
        json.dump(ev, f, indent=1, default=str)
        f.write('\n')
    os.replace(tmp, path)

    for v, k in known_hits:
        print('KNOWN-FINDING: property=%s %s (%s; x%d)' % (ctx.prop, v['key'], k.get('what', ''), v['count']))
    rc = 0
    if new:
        os.makedirs(os.path.join(outroot, 'replays'), exist_ok=True)
        for i, v in enumerate(new):
            rp = os.path.join(outroot, 'replays', '%s-%d-%d.json' % (ctx.prop, ctx.seed, i))
            with open(rp, 'w') as f:
                json.dump({'property': ctx.prop, 'seed': ctx.seed, 'tier': ctx.tier, 'key': v['key'],
                           'what': v['what'], 'count': v['count'], 'replay': v['replay']}, f, indent=1, default=str)
            print('VIOLATION property=%s replay=%s' % (ctx.prop, rp))
            print('  key=%s count=%d: %s' % (v['key'], v['count'], str(v['what'])[:600]))
        rc = 1
    print('%s %s seed=%d: %d events, %d distinct non-trivial classes, %d new violation(s), %d known finding(s), %.1fs'
          % (ctx.prop, ctx.tier, ctx.seed, ctx.evaluations, distinct, len(new), len(known_hits), wall))
    if rc == 0:
        if ctx.evaluations < min_events or distinct < 2:
            print('HARNESS: too few events observed (%d events, %d classes) - inconclusive' % (ctx.evaluations, distinct))
            return 2
        if missing:
            print('HARNESS: directed classes never reached: %s - inconclusive' % missing[:10])
            return 2
    return rc


# ---------------------------------------------------------------- running drivers
def run_driver(exe, input_text=None, args=(), env=None, timeout=600, check=False):
    """returns (returncode, stdout, stderr)"""
    e = dict(os.environ)
    e.setdefault('ASAN_OPTIONS', 'abort_on_error=0:detect_leaks=0:exitcode=99:allocator_may_return_null=1:detect_stack_use_after_return=1')
    e.setdefault('UBSAN_OPTIONS', 'print_stacktrace=1:halt_on_error=1:exitcode=98')
    e.setdefault('MSAN_OPTIONS', 'exitcode=97:halt_on_error=1')     # (the default exit code 77 is what the guard-page drivers use)
    e.setdefault('TSAN_OPTIONS', 'halt_on_error=0:exitcode=97:second_deadlock_stack=1')
    if env:
        e.update(env)
    try:
        r = subprocess.run([exe] + list(args), input=input_text, stdout=subprocess.PIPE, stderr=subprocess.PIPE,
                           text=True, env=e, timeout=timeout)
        return r.returncode, r.stdout, r.stderr
    except subprocess.TimeoutExpired as ex:
        out = ex.stdout if isinstance(ex.stdout, str) else (ex.stdout or b'').decode(errors='replace')
        err = ex.stderr if isinstance(ex.stderr, str) else (ex.stderr or b'').decode(errors='replace')
        return -999, out, err


def run_sharded(exe, lines, nshards=16, args=(), env=None, timeout=900):
    """split input lines round-robin over processes; returns list aligned with input lines of output lines
    (drivers answer exactly one line per input line) plus list of (rc, stderr) per shard."""
    nshards = max(1, min(nshards, len(lines)))
    shards = [lines[i::nshards] for i in range(nshards)]

    def one(sh):
        return run_driver(exe, '\n'.join(sh) + '\n', args=args, env=env, timeout=timeout)
    with ThreadPoolExecutor(nshards) as ex:
        res = list(ex.map(one, shards))
    outs = [None] * len(lines)
    status = []
    for si, (rc, out, err) in enumerate(res):
        ol = out.split('\n')
        if ol and ol[-1] == '':
            ol.pop()
        for j, l in enumerate(ol):
            idx = si + j * nshards
            if idx < len(lines) and j < len(shards[si]):
                outs[idx] = l
        status.append((rc, err, len(ol), len(shards[si])))
    return outs, status


VG_KINDS = (('Conditional jump or move depends on uninitialised value', 'uninitialised-condition'), ('Use of uninitialised value', 'uninitialised-use'),
            ('Invalid read of size', 'invalid-read'), ('Invalid write of size', 'invalid-write'), ('Syscall param', 'uninitialised-syscall-param'),
            ('Source and destination overlap', 'overlapping-memcpy'), ('Invalid free', 'invalid-free'), ('Mismatched free', 'mismatched-free'),
            ('Jump to the invalid address', 'wild-jump'), ('Process terminating with default action of signal', 'fatal-signal'),
            ('Possible data race during', 'helgrind-race'), ('Thread #', 'helgrind-report'))


def classify_valgrind(err):
    """key fragment for the first valgrind (memcheck / helgrind) report in a log: kind + first frame inside the library, or None"""
    import re
    for line in err.split('\n'):
        m = re.match(r'==\d+== (.*)', line)
        if not m:
            continue
        for needle, kind in VG_KINDS[:-1]:
            if m.group(1).startswith(needle):
                tail = err[err.index(line):]
                where = 'unknown'
                for fr in re.findall(r'==\d+==\s+(?:at|by) 0x[0-9A-F]+: ([^\n]*)', tail)[:12]:
                    mm = re.search(r'\(((?:[\w.\-]+/)*[\w.\-]+\.(?:cpp|hpp|h|s|S)):(\d+)\)', fr)
                    fn = fr.split(' (')[0]
                    if 'embedded_pairing' in fn or (mm and not mm.group(1).endswith(('_drv.cpp', 'common.h'))):
                        where = (mm.group(1) if mm else re.sub(r'\(.*', '', fn))[:70]
                        break
                return 'memcheck:%s:%s' % (kind, where) if not kind.startswith('helgrind') else '%s:%s' % (kind, where)
    return None


SAN_MARKERS = ('ERROR: AddressSanitizer', 'runtime error:', 'WARNING: ThreadSanitizer', 'ERROR: LeakSanitizer',
               'UndefinedBehaviorSanitizer', 'AddressSanitizer:DEADLYSIGNAL', 'WARNING: MemorySanitizer', 'MemorySanitizer:DEADLYSIGNAL')


def classify_failure(rc, err):
    """turn a crashed/sanitized driver run into a C17-style key fragment, or None if clean"""
    import re
    if rc == 0 and not any(m in err for m in SAN_MARKERS):
        return None
    if '== ' in err and re.search(r'^==\d+== ', err, re.M):
        v = classify_valgrind(err)
        if v:
            return v
    ws = re.findall(r'WRITABLE-SYMBOL-CHANGED (\S+)', err)
    if ws:
        return 'mutable-state:' + '+'.join(sorted(set(ws)))[:160]
    m = re.search(r'runtime error: ([^\n]*)', err)
    if m:
        msg = m.group(1)
        kind = 'ubsan'
        short = re.sub(r'0x[0-9a-f]+', 'ADDR', msg)
        short = re.sub(r'\d+', 'N', short)[:80]
        loc = re.search(r'((?:src|include)/[\w/.\-]+):(\d+)', err)
        where = (loc.group(1)) if loc else 'unknown'
        return '%s:%s:%s' % (kind, where, short.replace(' ', '_'))
    m = re.search(r'ERROR: AddressSanitizer: ([\w\-]+)', err)
    if m:
        frames = re.findall(r'#\d+ 0x[0-9a-f]+ in ([^\s]+) ([^\n]*)', err)
        where = 'unknown'
        for fn, loc in frames:
            if '/repo/' in loc or 'embedded_pairing' in fn:
                mm = re.search(r'/repo/((?:src|include)/[\w/.\-]+):(\d+)', loc)
                where = mm.group(1) if mm else fn[:60]
                break
        return 'asan:%s:%s' % (m.group(1), where)
    m = re.search(r'(?:WARNING|ERROR): MemorySanitizer: ([\w\-]+)', err)
    if m:
        frames = re.findall(r'#\d+ 0x[0-9a-f]+ in ([^\s]+) ([^\n]*)', err)
        where = 'unknown'
        for fn, loc in frames:
            mm = re.search(r'/((?:src|include)/[\w/.\-]+):(\d+)', loc)
            if mm and '/drivers/' not in loc:
                where = mm.group(1)
                break
        return 'msan:%s:%s' % (m.group(1), where)
    if 'ThreadSanitizer' in err:
        return 'tsan:report'
    if rc == -999:
        return 'hang'
    if rc < 0:
        return 'abort:signal%d' % (-rc)
    return 'exit:%d' % rc


def hexle(v, nbytes):
    return int(v).to_bytes(nbytes, 'little').hex()


def unhexle(s):
    return int.from_bytes(bytes.fromhex(s), 'little')


def main_wrapper(prop, fn):
    """common entry: parse env, run fn(ctx), handle harness errors -> exit code"""
    import argparse
    ap = argparse.ArgumentParser()
    ap.add_argument('--tier', default=os.environ.get('VERIF_TIER', 'quick'))
    ap.add_argument('--replay', default=None)
    ap.add_argument('--seed', type=int, default=None)
    a = ap.parse_args(sys.argv[2:])
    seed = a.seed if a.seed is not None else int(os.environ.get('VERIF_SEED', '1') or 1)
    tier = a.tier if a.tier in ('quick', 'thorough') else 'quick'
    replay_key = None
    if a.replay:
        # a replay file names the failing event (key + driver line) and the seed/tier of the run that produced it; the workload
        # is deterministic in (seed, tier), so replaying = re-running that workload on the current tree and looking for the same key
        with open(a.replay) as f:
            rp = json.load(f)
        seed, tier, replay_key = int(rp['seed']), rp['tier'], rp['key']
        print('REPLAY of %s (seed %d, tier %s): %s' % (replay_key, seed, tier, str(rp.get('what'))[:300]))
        if isinstance(rp.get('replay'), dict) and rp['replay'].get('line'):
            print('REPLAY driver line: %s' % str(rp['replay']['line'])[:500])
        os.environ.setdefault('VERIF_OUT', os.path.join(VERIF, 'work', 'replay-out'))
    ctx = Ctx(prop, tier, seed)
    ctx.replay = a.replay
    try:
        rc = fn(ctx)
        if rc is None:
            if replay_key is not None:
                hit = [v for v in ctx.violations if v['key'] == replay_key]
                finish(ctx)
                if hit:
                    print('REPLAY: %s reproduced (%d events): %s' % (replay_key, hit[0]['count'], str(hit[0]['what'])[:400]))
                    print('VIOLATION property=%s replay=%s' % (prop, a.replay))
                    rc = 1
                else:
                    print('REPLAY: %s did not reproduce on the current tree' % replay_key)
                    rc = 0
            else:
                rc = finish(ctx)
    except HarnessError as e:
        print('HARNESS: %s' % e)
        rc = 2
    except Exception:
        traceback.print_exc()
        print('HARNESS: internal error - inconclusive')
        rc = 2
    sys.stdout.flush()
    return rc
