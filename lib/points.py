"""Pools of curve points with known provenance, produced by the reference model."""
import codec as C
from oracle import bls as O

Q, R = O.Q, O.R


class GroupCtx:
    """everything that differs between G1 and G2"""

    def __init__(self, which):
        self.which = which
        if which == 1:
            self.E = O.E1
            self.F = O._Fq
            self.gen = O.G1_GEN
            self.cof = O.H1
            self.enc_a = C.enc_g1a
            self.dec_a = C.dec_g1a
            self.enc_p = C.enc_g1p
            self.dec_p = C.dec_g1p
            self.dec_p_raw = C.dec_g1p_raw
            self.jac = C.jac_from_affine1
            self.find = O.find_point1
            self.name = 'G1'
            self.cname = 'g1'
            self.cofbits = 128
            self.enc_f = C.enc_fq
        else:
            self.E = O.E2
            self.F = O._Fq2
            self.gen = O.G2_GEN
            self.cof = O.H2
            self.enc_a = C.enc_g2a
            self.dec_a = C.dec_g2a
            self.enc_p = C.enc_g2p
            self.dec_p = C.dec_g2p
            self.dec_p_raw = C.dec_g2p_raw
            self.jac = C.jac_from_affine2
            self.find = O.find_point2
            self.name = 'G2'
            self.cname = 'g2'
            self.cofbits = 512
            self.enc_f = C.enc_fq2

    def rand_f(self, rng, nonzero=True):
        while True:
            v = rng.randrange(Q) if self.which == 1 else (rng.randrange(Q), rng.randrange(Q))
            if not nonzero or not self.F.is_zero(v):
                return v

    # 'limbs=V': the value whose INTERNAL (Montgomery) limbs read V - structure in the representation the inversion, comparison and
    # is-zero / is-one code actually looks at (trailing zero words, a single bit, one word)
    ZS1 = ('2', '-2', 'limbs=1', 'R', '2^64', '1/2', 'limbs=2^32', 'limbs=2^40', 'limbs=2^63', 'limbs=2^64', 'limbs=2^96+2^33', 'limbs=2^192*t')
    ZS2 = ('1+tu', '1+u', '1-u', 'u', 'tu', 't', '-1+tu', 't+u', 'limbs=1', '1+limbs1*u', '2', 'limbs=2^40', 'limbs=2^32*u', 'limbs=2^192*(t+tu)')

    def structured_z(self, rng):
        t = rng.randrange(1, Q)
        rinv = pow(1 << 384, -1, Q)          # the value whose internal (Montgomery) limbs are 0..01
        def lim(v):
            return v % Q * rinv % Q
        hi = lambda: lim((rng.getrandbits(180) | 1) << 192)
        if self.which == 1:
            return {'2': 2, '-2': Q - 2, 'limbs=1': rinv, 'R': (1 << 384) % Q, '2^64': (1 << 64) % Q, '1/2': pow(2, -1, Q),
                    'limbs=2^32': lim(1 << 32), 'limbs=2^40': lim(1 << 40), 'limbs=2^63': lim(1 << 63), 'limbs=2^64': lim(1 << 64), 'limbs=2^96+2^33': lim((1 << 96) + (1 << 33)),
                    'limbs=2^192*t': hi()}
        return {'1+tu': (1, t), '1+u': (1, 1), '1-u': (1, Q - 1), 'u': (0, 1), 'tu': (0, t), 't': (t, 0), '-1+tu': (Q - 1, t), 't+u': (t, 1),
                'limbs=1': (rinv, 0), '1+limbs1*u': (1, rinv), '2': (2, 0), 'limbs=2^40': (lim(1 << 40), 0), 'limbs=2^32*u': (0, lim(1 << 32)), 'limbs=2^192*(t+tu)': (hi(), hi())}

    def zkinds(self):
        return ['z1', 'zm', 'zr'] + ['zs:' + k for k in (self.ZS1 if self.which == 1 else self.ZS2)]

    def rep(self, P, rng, kind=None):
        """a Jacobian representative token of P. kind: 'z1' | 'zr' (random z) | 'zm' (z = -1) | for identity 'inf0'/'infj' """
        one = self.F.one
        if P is None:
            kind = kind or rng.choice(['inf0', 'infj'])
            if kind == 'inf0':
                X, Y, Z = self.jac(None, None)
            else:
                X, Y, Z = self.jac(None, None, (self.rand_f(rng, False), self.rand_f(rng, False)))
            return self.enc_p(X, Y, Z), kind
        kind = kind or rng.choice(['z1', 'zr', 'zr', 'zm', 'zs'])
        if kind == 'z1':
            z = one
        elif kind == 'zm':
            z = self.F.neg(one)
        elif kind.startswith('zs'):
            # structured z: values that a sloppy "is it one / is it normalised" test confuses with 1
            table = self.structured_z(rng)
            sub = kind[3:] if ':' in kind else rng.choice(sorted(table))
            z = table[sub]
            kind = 'zs:' + sub
        else:
            z = self.rand_f(rng)
        X, Y, Z = self.jac(P, z)
        return self.enc_p(X, Y, Z), kind

    def aff(self, P, rng=None, junk=False):
        if P is None and junk and rng is not None:
            return self.enc_a(None, (self.rand_f(rng, False), self.rand_f(rng, False)))
        return self.enc_a(P)


class Pool:
    """subgroup points with known discrete logs + arbitrary curve points (unknown logs)."""

    def __init__(self, gc, rng, n_random=3, n_curve=3):
        self.gc = gc
        E = gc.E
        self.dl = {}       # scalar mod r -> point
        g = gc.gen
        self.dl[0] = None
        self.dl[1] = g
        p = g
        for k in range(2, 9):
            p = E.add(p, g)
            self.dl[k] = p
        self.dl[R - 1] = E.neg(g)
        self.dl[R - 2] = E.neg(self.dl[2])
        for _ in range(n_random):
            k = rng.randrange(1, R)
            self.dl[k] = E.mul(g, k)
        self.curve = []    # arbitrary curve points (full curve, not in the subgroup with overwhelming probability)
        for _ in range(n_curve):
            self.curve.append(gc.find(rng))
        # points with a zero coordinate
        self.special = []
        if gc.which == 1:
            self.special += [(0, 2), (0, Q - 2)]
        else:
            y = O.f2_sqrt(E.b)
            if y is not None:
                self.special += [((0, 0), y), ((0, 0), O.f2_neg(y))]
        self.keys = list(self.dl.keys())

    def grow(self, rng, n):
        """derive more known-log points by addition (cheap)"""
        E = self.gc.E
        for _ in range(n):
            a, b = rng.choice(self.keys), rng.choice(self.keys)
            s = (a + b) % R
            if s not in self.dl:
                self.dl[s] = E.add(self.dl[a], self.dl[b])
                self.keys.append(s)

    def sub(self, rng):
        k = rng.choice(self.keys)
        return k, self.dl[k]

    def any(self, rng):
        """(tag, point) from subgroup / full curve / special"""
        t = rng.random()
        if t < 0.6:
            return 'sub', self.sub(rng)[1]
        if t < 0.85 and self.curve:
            P = rng.choice(self.curve)
            if rng.random() < 0.5:
                # random combination stays on the curve
                P = self.gc.E.add(P, rng.choice(self.curve))
            return 'curve', P
        if self.special:
            return 'special', rng.choice(self.special)
        return 'sub', self.sub(rng)[1]
