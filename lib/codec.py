"""Hex tokens of the driver protocol <-> reference-model values.

Field elements travel as raw limbs (little-endian bytes of the in-memory object).  Decoding
follows the documented internal form: raw = value * 2^bits mod p, canonical iff raw < p.
Every decode records non-canonical limbs in NONCANON (checked by the callers).
"""
import os
import sys

sys.path.insert(0, os.path.dirname(os.path.dirname(os.path.abspath(__file__))))
from oracle import bls as O

Q, R = O.Q, O.R


class NonCanonical(Exception):
    pass


def le(v, n):
    return int(v).to_bytes(n, 'little').hex()


def unle(tok):
    return int.from_bytes(bytes.fromhex(tok), 'little')


def be(v, n):
    return int(v).to_bytes(n, 'big').hex()


# --- raw integers
def enc_b(v, bits):
    return le(v, bits // 8)


# --- Fq / Fr
def enc_fq(v):
    return le(O.fq_to_raw(v % Q), 48)


def enc_fq_raw(raw):
    return le(raw, 48)


def dec_fq(tok, strict=True):
    raw = unle(tok)
    if raw >= Q:
        if strict:
            raise NonCanonical('Fq limbs not below q: %x' % raw)
    return O.fq_from_raw(raw)


def enc_fr(v):
    return le(O.fr_to_raw(v % R), 32)


def dec_fr(tok, strict=True):
    raw = unle(tok)
    if raw >= R and strict:
        raise NonCanonical('Fr limbs not below r: %x' % raw)
    return O.fr_from_raw(raw)


# --- towers
def enc_fq2(a):
    return enc_fq(a[0]) + enc_fq(a[1])


def dec_fq2(tok, strict=True):
    assert len(tok) == 192, len(tok)
    return (dec_fq(tok[:96], strict), dec_fq(tok[96:], strict))


def enc_fq6(a):
    return ''.join(enc_fq2(c) for c in a)


def dec_fq6(tok, strict=True):
    assert len(tok) == 576, len(tok)
    return tuple(dec_fq2(tok[192 * i:192 * (i + 1)], strict) for i in range(3))


def enc_fq12(a):
    return enc_fq6(a[0]) + enc_fq6(a[1])


def dec_fq12(tok, strict=True):
    assert len(tok) == 1152, len(tok)
    return (dec_fq6(tok[:576], strict), dec_fq6(tok[576:], strict))


def enc_flat(f):
    return enc_fq12(O.flat_to_tower(f))


def dec_flat(tok, strict=True):
    return O.tower_to_flat(dec_fq12(tok, strict))


# --- points.  affine token: x | y | inf ; projective token: x | y | z
def enc_g1a(P, junk=None):
    if P is None:
        x, y = junk if junk else (0, 1)
        return enc_fq(x) + enc_fq(y) + '01'
    return enc_fq(P[0]) + enc_fq(P[1]) + '00'


def dec_g1a(tok, strict=True):
    assert len(tok) == 194, len(tok)
    if tok[192:] != '00':
        return None
    return (dec_fq(tok[:96], strict), dec_fq(tok[96:192], strict))


def enc_g2a(P, junk=None):
    if P is None:
        x, y = junk if junk else ((0, 0), (1, 0))
        return enc_fq2(x) + enc_fq2(y) + '01'
    return enc_fq2(P[0]) + enc_fq2(P[1]) + '00'


def dec_g2a(tok, strict=True):
    assert len(tok) == 386, len(tok)
    if tok[384:] != '00':
        return None
    return (dec_fq2(tok[:192], strict), dec_fq2(tok[192:384], strict))


def enc_g1p(X, Y, Z):
    return enc_fq(X) + enc_fq(Y) + enc_fq(Z)


def dec_g1p_raw(tok, strict=True):
    assert len(tok) == 288, len(tok)
    return tuple(dec_fq(tok[96 * i:96 * (i + 1)], strict) for i in range(3))


def dec_g1p(tok, strict=True):
    """-> affine point or None"""
    X, Y, Z = dec_g1p_raw(tok, strict)
    return O.jac_to_affine(O._Fq, X, Y, Z)


def enc_g2p(X, Y, Z):
    return enc_fq2(X) + enc_fq2(Y) + enc_fq2(Z)


def dec_g2p_raw(tok, strict=True):
    assert len(tok) == 576, len(tok)
    return tuple(dec_fq2(tok[192 * i:192 * (i + 1)], strict) for i in range(3))


def dec_g2p(tok, strict=True):
    X, Y, Z = dec_g2p_raw(tok, strict)
    return O.jac_to_affine(O._Fq2, X, Y, Z)


def jac_from_affine1(P, z, junk=(0, 1)):
    """a Jacobian representative of P with the given z (z = 0 only for the identity)"""
    if P is None:
        return (junk[0] % Q, junk[1] % Q, 0)
    z %= Q
    assert z != 0
    return (P[0] * z * z % Q, P[1] * z * z * z % Q, z)


def jac_from_affine2(P, z, junk=((0, 0), (1, 0))):
    if P is None:
        return (junk[0], junk[1], (0, 0))
    assert not O.f2_is_zero(z)
    z2 = O.f2_sqr(z)
    return (O.f2_mul(P[0], z2), O.f2_mul(P[1], O.f2_mul(z2, z)), z)


def split(line):
    """driver output line -> (op, [tokens])"""
    if line is None:
        return None, []
    parts = line.split(' ')
    return parts[0], parts[1:]
