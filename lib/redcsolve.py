"""Inputs for Montgomery reduction / multiplication constructed so that the word-serial carry chain hits exact coincidences.

In round i of the word-serial reduction (word size w, n words) the word T[i+n] receives  P_i = T[i+n] + carry_i  and then the pending
meta-carry of the previous round.  Implementations differ in how they hold these carries (one 128-bit sum, two carry flags, a deferred
register), and a slip in any of them shows only when P_i (+ meta) lands exactly on 2^w-1, 2^w or 2^w+1 - about 2^-w per round for random
operands.  The upper half of T never influences the multipliers u_j, so it can be chosen freely, word by word, once the lower half is fixed:
that is what `solve_T` does.  `solve_product` finds field elements a, b < p whose product has the property, for the fused
multiply-and-reduce routines (a = 2^(w(n-1)) + 1 makes the upper words of a*b follow the words of b; a short fixed-point iteration absorbs
the feedback through the low words).
"""


def rows(p, T, w, n):
    """textbook word-serial reduction; returns per round (carry_i, P_i, meta_in, meta_out) and the pre-subtraction value"""
    m = (1 << w) - 1
    inv = (-pow(p, -1, 1 << w)) & m
    a = [(T >> (w * i)) & m for i in range(2 * n + 1)]
    pw = [(p >> (w * i)) & m for i in range(n)]
    meta = 0
    out = []
    for i in range(n):
        u = (a[i] * inv) & m
        carry = 0
        for j in range(n):
            t = u * pw[j] + a[i + j] + carry
            carry = t >> w
            a[i + j] = t & m
        P = a[i + n] + carry
        s = P + meta
        out.append((carry, P, meta, s >> w))
        meta = s >> w
        a[i + n] = s & m
    v = sum(a[n + k] << (w * k) for k in range(n)) + (meta << (w * n))
    return out, v


def solve_T(p, bits, w, row, target_P, meta_in, rng, tries=400):
    """T < p*2^bits with P_row == target_P and the given pending meta-carry entering that round; None if not found"""
    n = bits // w
    W = 1 << w
    for _ in range(tries):
        words = [rng.getrandbits(w) for _ in range(2 * n)]
        if rng.random() < 0.3:
            for k in range(n):
                if rng.random() < 0.3:
                    words[k] = rng.choice([0, W - 1, 1])
        ok = True
        for i in range(row + 1):
            T = sum(x << (w * k) for k, x in enumerate(words))
            r, _ = rows(p, T, w, n)
            carry, P, m_in, m_out = r[i]
            if i == row - 1 and row > 0:
                # make this round overflow (or not), so that the wanted meta-carry is pending in the next one
                want = meta_in
                if want and not m_out:
                    words[i + n] = W - 1 if carry + m_in >= 1 else None
                elif not want and m_out:
                    words[i + n] = 0 if carry + m_in < W else None
                if words[i + n] is None:
                    ok = False
                    break
            if i == row:
                if row == 0 and meta_in:
                    ok = False
                    break
                x = target_P - carry
                if not 0 <= x < W:
                    ok = False
                    break
                words[i + n] = x
        if not ok:
            continue
        T = sum(x << (w * k) for k, x in enumerate(words))
        if T >= p << bits:
            # shrink the top word(s) that are still free (above the target round)
            for k in range(2 * n - 1, row + n, -1):
                words[k] = rng.randrange(max(1, (p >> (bits - w)) if k == 2 * n - 1 else W))
            T = sum(x << (w * k) for k, x in enumerate(words))
            if T >= p << bits:
                continue
        r, _ = rows(p, T, w, n)
        if r[row][1] == target_P and r[row][2] == meta_in:
            return T
    return None


def solve_product(p, bits, w, row, target_P, meta_in, rng, tries=400):
    """(a, b) with a, b < p and a*b having P_row == target_P with meta_in pending; rounds 0..n-2 only; None if not found.
    a = k*2^(w(n-1)) + 1 with k odd: the upper words of a*b follow the words of k*b, so word j of b moves word j+n-1 of the product by k*delta."""
    n = bits // w
    W = 1 << w
    if row >= n - 1:
        return None
    ptop = p >> (bits - w)
    for t in range(tries):
        k = 1 if t < 8 and row < n - 2 else (rng.randrange(1, max(2, ptop)) | 1)
        a = (k << (w * (n - 1))) + 1
        if a >= p:
            continue
        kinv = pow(k, -1, W)
        bw = [rng.getrandbits(w) for _ in range(n)]
        bw[n - 1] = rng.randrange(max(1, ptop))
        good = False
        for it in range(40):
            b = sum(x << (w * j) for j, x in enumerate(bw))
            if b >= p:
                break
            r, _ = rows(p, a * b, w, n)
            carry, P, m_in, m_out = r[row]
            if P == target_P and m_in == meta_in:
                good = True
                break
            if row > 0 and m_in != meta_in:
                # steer the previous round through its own free word b[row]
                pc, pP, pm, pmo = r[row - 1]
                delta = (W - pP - pm) if meta_in else -(pP + pm - W + 1)
                bw[row] = (bw[row] + delta * kinv) % W
                continue
            bw[row + 1] = (bw[row + 1] + (target_P - P) * kinv) % W
        if good:
            return a, b
    return None


def coincidence_targets(w):
    W = 1 << w
    return [W - 2, W - 1, W, W + 1]
