"""Sharded generate -> execute -> judge sessions.

A check supplies  worker(sh)  which fills a Shard: it generates operation lines, runs them through
one or more driver binaries (sh.run), and judges the answers with the reference model.  Shards
run in separate processes (fork) and are merged into the Ctx.
"""
import multiprocessing as mp
import os
import random
import sys
import traceback

import harness
from harness import classify_failure, run_driver


class Shard:
    def __init__(self, prop, tier, seed, index, nshards, exes, payload):
        self.prop = prop
        self.tier = tier
        self.quick = tier == 'quick'
        self.seed = seed
        self.index = index
        self.nshards = nshards
        self.exes = exes          # name -> (exe path, args)
        self.payload = payload
        self.rng = random.Random((seed * 1000003) ^ (index * 7919) ^ int(prop[1:]))
        self.evaluations = 0
        self.classes = {}
        self.trivial = 0
        self.samples = []
        self.violations = []
        self.extra = {}
        self.harness_errors = []

    def event(self, op, cls=None, trivial=False, n=1):
        self.evaluations += n
        if trivial:
            self.trivial += n
        else:
            k = '%s|%s' % (op, cls if cls is not None else '-')
            self.classes[k] = self.classes.get(k, 0) + n

    def sample(self, obj, limit=3):
        if len(self.samples) < limit:
            self.samples.append(obj)

    def violation(self, key, what, replay=None):
        if not key.startswith(self.prop + ':'):
            key = self.prop + ':' + key
        for v in self.violations:
            if v['key'] == key:
                v['count'] += 1
                return
        self.violations.append({'key': key, 'what': what, 'replay': replay or {}, 'count': 1})

    def count(self, name, n=1):
        self.extra[name] = self.extra.get(name, 0) + n

    def pick(self, q, t):
        return q if self.quick else t

    def run(self, cfg, lines, timeout=None, env=None):
        """run lines through driver `cfg`; returns list of token lists (None where the driver died).
        Crashes / sanitizer reports become violations keyed by what failed."""
        if not lines:
            return []
        exe, args = self.exes[cfg]
        timeout = timeout or (300 if self.quick else 1200)
        if os.environ.get('VERIF_DUMP_LINES'):
            # debugging aid: keep the exact driver input of every run
            with open(os.path.join(os.environ['VERIF_DUMP_LINES'], '%s-%s-%d-%d.in' % (self.prop, cfg, self.index, len(lines))), 'w') as fh:
                fh.write('\n'.join(lines) + '\n')
        # slow instruments (valgrind) run a bounded subset of the workload: a prefix (stateful drivers) or a prefix plus an evenly
        # spread sample (stateless drivers); lines that were not run are answered None, which every judge skips
        all_lines = lines
        pos = None
        lim = (self.payload or {}).get('line_limit') if isinstance(self.payload, dict) else None
        if lim and cfg in (self.payload.get('limited_cfgs') or ()) and len(lines) > lim:
            if self.payload.get('line_mode') == 'spread':
                head = lim // 2
                step = max(1, (len(lines) - head) // max(1, lim - head))
                pos = list(range(head)) + list(range(head, len(lines), step))[:lim - head]
            else:
                pos = list(range(lim))
            lines = [all_lines[i] for i in pos]
        rc, out, err = run_driver(exe, '\n'.join(lines) + '\n', args=args, timeout=timeout, env=env)
        if rc == -999:
            # wall-clock never decides on its own: a timed-out run is repeated once with three times the budget (the machine may just be
            # loaded); only a second time-out is reported, as a hang of the line in flight
            self.count('driver_timeouts_retried')
            rc, out, err = run_driver(exe, '\n'.join(lines) + '\n', args=args, timeout=3 * timeout, env=env)
        ol = out.split('\n')
        if ol and ol[-1] == '':
            ol.pop()
        guard_fault = False
        while ol and ol[-1].strip() in ('', 'GUARD-PAGE-FAULT'):
            guard_fault = guard_fault or ol[-1].strip() == 'GUARD-PAGE-FAULT'
            ol.pop()
        res = [None] * len(lines)
        for i, l in enumerate(ol[:len(lines)]):
            res[i] = l.split(' ')
        fail = classify_failure(rc, err)
        if guard_fault or rc == 77:
            fail = 'guard-page-fault'
        if rc == 3 or 'DRIVER-ERROR' in err:
            self.harness_errors.append('driver %s rejected input: %s' % (cfg, err[-400:]))
        elif fail:
            # drivers print the op name before executing it: when the process died, the last printed line is the operation in
            # flight and carries no (complete) answer
            if rc != 0 and ol and len(ol) <= len(lines):
                res[len(ol) - 1] = None
                ol = ol[:-1]
            culprit = lines[len(ol)] if len(ol) < len(lines) else (lines[-1] if lines else '')
            # a partially printed last line means the op died mid-way
            if len(ol) <= len(lines) and len(ol) > 0 and rc != 0:
                last = ol[-1].split(' ')
                if len(last) <= 1 or res[len(ol) - 1] is None:
                    pass
            opname = culprit.split(' ')[0] if culprit else '?'
            self.violation('san:%s:%s:%s' % (cfg, opname, fail),
                           'driver %s: %s while executing: %s ... stderr tail: %s' % (cfg, fail, culprit[:300], err[-1500:]),
                           {'config': cfg, 'line': culprit, 'stderr': err[-3000:]})
            # the line being executed when it died has no trustworthy answer
            if len(ol) <= len(lines) and len(ol) > 0 and rc != 0:
                pass
        elif len(ol) != len(lines):
            self.harness_errors.append('driver %s answered %d of %d lines, rc=%s, stderr=%s' % (cfg, len(ol), len(lines), rc, err[-300:]))
        if pos is not None:
            full = [None] * len(all_lines)
            for i, r in zip(pos, res):
                full[i] = r
            self.count('limited_lines_run', len(lines))
            return full
        return res

    def result(self):
        return {'evaluations': self.evaluations, 'classes': self.classes, 'trivial': self.trivial,
                'samples': self.samples, 'violations': self.violations, 'extra': self.extra,
                'harness_errors': self.harness_errors}


def _entry(a):
    worker, prop, tier, seed, index, nshards, exes, payload = a
    sh = Shard(prop, tier, seed, index, nshards, exes, payload)
    try:
        worker(sh)
    except Exception:
        sh.harness_errors.append('shard %d: %s' % (index, traceback.format_exc()[-1500:]))
    return sh.result()


def run_shards(ctx, worker, nshards, exes, payload=None, procs=16, only=None):
    args = [(worker, ctx.prop, ctx.tier, ctx.seed, i, nshards, exes, payload) for i in range(nshards) if only is None or i in only]
    if len(args) == 1 or procs == 1:
        results = [_entry(a) for a in args]
    else:
        with mp.get_context('fork').Pool(min(procs, len(args))) as pool:
            results = pool.map(_entry, args, chunksize=1)
    errs = []
    for r in results:
        ctx.evaluations += r['evaluations']
        ctx.trivial += r['trivial']
        for k, v in r['classes'].items():
            ctx.classes[k] = ctx.classes.get(k, 0) + v
        for s in r['samples']:
            ctx.sample(s)
        for v in r['violations']:
            found = False
            for w in ctx.violations:
                if w['key'] == v['key']:
                    w['count'] += v['count']
                    found = True
            if not found:
                ctx.violations.append(v)
        for k, v in r['extra'].items():
            if isinstance(v, (int, float)):
                ctx.extra[k] = ctx.extra.get(k, 0) + v
            elif isinstance(v, list):
                ctx.extra.setdefault(k, [])
                for x in v:
                    if x not in ctx.extra[k]:
                        ctx.extra[k].append(x)
            elif isinstance(v, dict):
                d = ctx.extra.setdefault(k, {})
                for kk, vv in v.items():
                    d[kk] = d.get(kk, 0) + vv if isinstance(vv, (int, float)) else vv
            else:
                ctx.extra[k] = v
        errs.extend(r['harness_errors'])
    if errs:
        raise harness.HarnessError('; '.join(errs[:3]))
    return results


def build_exes(specs):
    """specs: name -> (config, driver, args) ; builds in parallel; returns name -> (exe, args)"""
    import build
    from concurrent.futures import ThreadPoolExecutor
    names = list(specs)
    # build libraries first, one thread per distinct config (each uses 16 compile jobs internally)
    cfgs = sorted({specs[n][0] for n in names})
    try:
        with ThreadPoolExecutor(4) as ex:
            list(ex.map(build.build_lib, cfgs))
        out = {}
        done = {}
        for n in names:
            cfg, drv, args = specs[n]
            if (cfg, drv) not in done:
                done[(cfg, drv)] = build.build_driver(cfg, drv)
            out[n] = (done[(cfg, drv)], list(args))
        return out
    except build.BuildError as e:
        raise harness.HarnessError('build failed: %s' % str(e)[-2500:])


def run_all(sh, cfgs, lines, primary=None):
    """run on several configurations; answers must be textually identical to the primary's.
    returns the primary answers (token lists)."""
    primary = primary or cfgs[0]
    base = sh.run(primary, lines)
    for c in cfgs:
        if c == primary:
            continue
        other = sh.run(c, lines)
        for i, (a, b) in enumerate(zip(base, other)):
            if a is None or b is None:
                continue
            if a != b:
                op = lines[i].split(' ')[0]
                sh.violation('diff:%s-vs-%s:%s' % (primary, c, op),
                             'configurations disagree on %s: %s gives %s, %s gives %s' % (lines[i][:400], primary, ' '.join(a)[:300], c, ' '.join(b)[:300]),
                             {'line': lines[i], primary: ' '.join(a), c: ' '.join(b)})
        sh.count('differential_lines_compared', len(lines))
    return base
