"""Target-group helpers of the reference model: fixed-base table for powers of E0 = e(G1, G2)."""
from oracle import bls as O

_T = None


def table():
    global _T
    if _T is None:
        t = [O.e0()]
        for _ in range(255):
            t.append(O.flat_mul(t[-1], t[-1]))
        _T = t
    return _T


def e0_pow(k):
    """E0^(k mod r)"""
    k %= O.R
    t = table()
    acc = None
    i = 0
    while k:
        if k & 1:
            acc = t[i] if acc is None else O.flat_mul(acc, t[i])
        k >>= 1
        i += 1
    return acc if acc is not None else list(O.FLAT_ONE)


def selfcheck(rng):
    k = rng.randrange(O.R)
    assert e0_pow(k) == O.flat_pow(O.e0(), k)
    assert e0_pow(O.R) == O.FLAT_ONE
