// Operation executor: reads one operation per line (op + hex operands), executes it with the
// real library code, prints one line with the raw results.  All judgement happens outside
// (Python reference model).  Outputs never alias inputs here (aliasing is C18's driver).
#include "common.h"

#include "bls12_381/bls12_381.h"
#include "bls12_381/fr.hpp"
#include "bls12_381/fq.hpp"
#include "bls12_381/fq2.hpp"
#include "bls12_381/fq6.hpp"
#include "bls12_381/fq12.hpp"
#include "bls12_381/curve.hpp"
#include "bls12_381/pairing.hpp"
#include "bls12_381/wnaf.hpp"
#include "bls12_381/decomposition.hpp"
#include "wkdibe/api.hpp"
#include "lqibe/api.hpp"
#include "lqibe/lqibe.h"
#include "wkdibe/wkdibe.h"

using namespace embedded_pairing::bls12_381;
using embedded_pairing::core::BigInt;
using embedded_pairing::core::FpBase;
namespace embedded_pairing::bls12_381 { extern BigInt<256> g1_endomorphism_lambda; }

#if !defined(DISABLE_ASM) && defined(__x86_64__)
#define HAVE_X86_ASM 1
extern "C" {
    void embedded_pairing_core_arch_x86_64_fpbase_384_montgomery_reduce(void* res, void* a, const void* p, uint64_t inv_word);
    void embedded_pairing_core_arch_x86_64_bigint_768_multiply(void* res, const void* a, const void* b);
    void embedded_pairing_core_arch_x86_64_bigint_768_square(void* res, const void* a);
    bool embedded_pairing_core_arch_x86_64_cpu_supports_bmi2_adx(void);
}
#endif

// ---------------------------------------------------------------- typed load/store
template <int bits> static void ldB(int i, BigInt<bits>& b) { unhex(arg(i), b.bytes, bits / 8); }
template <int bits> static void stB(const BigInt<bits>& b) { put(b.bytes, bits / 8); }
static void ld(int i, Fq& a) { unhex(arg(i), &a, 48); }
static void ld(int i, Fr& a) { unhex(arg(i), &a, 32); }
static void ld(int i, Fq2& a) { unhex(arg(i), &a, 96); }
static void ld(int i, Fq6& a) { unhex(arg(i), &a, 288); }
static void ld(int i, Fq12& a) { unhex(arg(i), &a, 576); }
static void st(const Fq& a) { put(&a, 48); }
static void st(const Fr& a) { put(&a, 32); }
static void st(const Fq2& a) { put(&a, 96); }
static void st(const Fq6& a) { put(&a, 288); }
static void st(const Fq12& a) { put(&a, 576); }
static void ld(int i, G1& a) { unhex(arg(i), &a, 144); }
static void ld(int i, G2& a) { unhex(arg(i), &a, 288); }
static void st(const G1& a) { put(&a, 144); }
static void st(const G2& a) { put(&a, 288); }
static void ld(int i, G1Affine& a) {
    uint8_t buf[97];
    unhex(arg(i), buf, 97);
    memset(&a, 0, sizeof a);
    memcpy(&a.x, buf, 48); memcpy(&a.y, buf + 48, 48); a.infinity = buf[96] != 0;
}
static void ld(int i, G2Affine& a) {
    uint8_t buf[193];
    unhex(arg(i), buf, 193);
    memset(&a, 0, sizeof a);
    memcpy(&a.x, buf, 96); memcpy(&a.y, buf + 96, 96); a.infinity = buf[192] != 0;
}
static void st(const G1Affine& a) {
    uint8_t buf[97];
    memcpy(buf, &a.x, 48); memcpy(buf + 48, &a.y, 48); buf[96] = a.infinity ? 1 : 0;
    put(buf, 97);
}
static void st(const G2Affine& a) {
    uint8_t buf[193];
    memcpy(buf, &a.x, 96); memcpy(buf + 96, &a.y, 96); buf[192] = a.infinity ? 1 : 0;
    put(buf, 193);
}

// Affine OUTPUT objects start dirty but VALID (the infinity flag is a bool, so junk bytes would make the driver itself the source of an
// invalid-bool load): by turns all-zero, "the identity with arbitrary coordinates", and some other real point.  What a call writes
// must not depend on what its destination held before.
static unsigned g_dirty_aff;
template <typename A> static void dirty_affine(A& a) {
    switch (g_dirty_aff++ % 3) {
    case 0: memset(&a, 0, sizeof a); break;
    case 1: memset(&a, 0x5a, sizeof a); a.infinity = true; break;
    default: a.copy(A::generator); break;
    }
}

// Guard arena (--guard-end / --guard-start, production builds): the operands and results of the raw multi-precision and prime-field
// operations live flush against PROT_NONE pages, so that an access outside an object by the hand-written assembly (which ASan cannot
// instrument) faults.  Without the option the same slots are ordinary static storage.
#include <sys/mman.h>
#include <unistd.h>
static int g_guard_mode = 0;          // 0 off, 1 object ends at the guard page, 2 object starts right after it
#define NSLOT 16
static uint8_t* g_slot_page[NSLOT];
static long g_pagesz;
static void guard_init(int mode) {
    g_guard_mode = mode;
    g_pagesz = sysconf(_SC_PAGESIZE);
    for (int k = 0; k < NSLOT; k++) {
        uint8_t* m = (uint8_t*) mmap(NULL, (size_t) (3 * g_pagesz), PROT_READ | PROT_WRITE, MAP_PRIVATE | MAP_ANONYMOUS, -1, 0);
        if (m == MAP_FAILED) die("mmap failed", "");
        mprotect(m, (size_t) g_pagesz, PROT_NONE); mprotect(m + 2 * g_pagesz, (size_t) g_pagesz, PROT_NONE);
        g_slot_page[k] = m + g_pagesz;
    }
}
template <typename T> static T& gslot(int k) {
    static_assert(sizeof(T) <= 2048 && sizeof(T) % 16 == 0, "slot objects are multiples of 16 bytes");
    alignas(16) static uint8_t plain[NSLOT][sizeof(T)];
    if (!g_guard_mode) return *reinterpret_cast<T*>(&plain[k][0]);
    if (g_guard_mode == 1) return *reinterpret_cast<T*>(g_slot_page[k] + g_pagesz - sizeof(T));
    return *reinterpret_cast<T*>(g_slot_page[k]);
}

// Projective OUTPUT objects likewise: junk bytes (no bool inside), a normalised point (z = 1), the identity (z = 0), a point with another z.
static unsigned g_dirty_proj;
template <typename P> static void dirty_projective(P& p) {
    switch (g_dirty_proj++ % 4) {
    case 0: memset(&p, 0xA5, sizeof p); break;
    case 1: p.copy(P::one); break;
    case 2: p.copy(P::zero); break;
    default: p.multiply2(P::one); break;
    }
}

#define OP(name) if (!strcmp(op, name))

static void poison(void* p, size_t n) { memset(p, 0xA5, n); }

// Byte buffers handed to the library (hash inputs, encodings, big-endian field images) carry no alignment guarantee: place them at a
// rotating offset 0..7 so that code reading them as wider words is seen by UBSan (alignment) on every alignment class.
static size_t g_bshift = 0;
#define BYTEBUF(name, n) uint8_t name##_raw[(n) + 8]; uint8_t* name = name##_raw + g_bshift
static uint8_t* heapbuf(size_t n, uint8_t** raw) { *raw = (uint8_t*) malloc(n + g_bshift); return *raw + g_bshift; }   // still ends flush with the block

// ---------------------------------------------------------------- prime fields
template <typename F, int bits>
static bool field_ops(const char* op) {
    F& a = gslot<F>(0); F& b = gslot<F>(1); F& o = gslot<F>(2);
    poison(&o, sizeof o);
    OP("set") { BigInt<bits> v; ldB(1, v); o.set(v); st(o); return true; }
    OP("get") { BigInt<bits> v; ld(1, a); a.get(v); stB(v); return true; }
    OP("add") { ld(1, a); ld(2, b); o.add(a, b); st(o); return true; }
    OP("sub") { ld(1, a); ld(2, b); o.subtract(a, b); st(o); return true; }
    OP("mul") { ld(1, a); ld(2, b); o.multiply(a, b); st(o); return true; }
    OP("sqr") { ld(1, a); o.square(a); st(o); return true; }
    OP("dbl") { ld(1, a); o.multiply2(a); st(o); return true; }
    OP("neg") { ld(1, a); o.negate(a); st(o); return true; }
    OP("inv") { ld(1, a); embedded_pairing::core::fp_inverse(o, a); st(o); return true; }
    OP("sqrt") { ld(1, a); o.square_root(a); st(o); return true; }
    OP("leg") { ld(1, a); puti(a.legendre()); return true; }
    OP("exp") { BigInt<bits> e; ld(1, a); ldB(2, e); embedded_pairing::core::exponentiate(o, a, e); st(o); return true; }
    OP("exp64") { BigInt<64> e; ld(1, a); ldB(2, e); embedded_pairing::core::exponentiate(o, a, e); st(o); return true; }
    OP("exp512") { BigInt<512> e; ld(1, a); ldB(2, e); embedded_pairing::core::exponentiate(o, a, e); st(o); return true; }
    OP("eq") { ld(1, a); ld(2, b); puti(F::equal(a, b)); return true; }
    OP("iszero") { ld(1, a); puti(a.is_zero()); return true; }
    OP("isone") { ld(1, a); puti(a.is_one()); return true; }
    OP("reduce") { BigInt<bits> v; ldB(1, v); o.reduce(v); st(o); return true; }
    OP("mont") { ld(1, o); o.into_montgomery_form(); st(o); return true; }
    OP("hashred") { ld(1, o); bool t = o.hash_reduce(); st(o); puti(t); return true; }
    OP("random") { rng_script(arg(1)); o.random(rng_cb); st(o); put_rng_log(); return true; }
    OP("copy") { ld(1, a); o.copy(a); st(o); return true; }
    OP("const") { st(F::zero); st(F::one); stB(F::p_value); stB(F::r_value); stB(F::r2_value); stB(F::inv_value); return true; }
    return false;
}

static bool fq_only(const char* op) {
    Fq a, b, o;
    poison(&o, sizeof o);
    OP("cmp") { ld(1, a); ld(2, b); puti(Fq::compare(a, b)); return true; }
    OP("rd") { BYTEBUF(buf, 48); unhex(arg(1), buf, 48); o.read_big_endian(buf); st(o); return true; }
    OP("wr") { BYTEBUF(buf, 48); ld(1, a); a.write_big_endian(buf); put(buf, 48); return true; }
    OP("negone") { st(Fq::negative_one); return true; }
    return false;
}

// ---------------------------------------------------------------- extension fields
template <typename T>
static bool ext_common(const char* op) {
    T a, b, o;
    poison(&o, sizeof o);
    OP("add") { ld(1, a); ld(2, b); o.add(a, b); st(o); return true; }
    OP("sub") { ld(1, a); ld(2, b); o.subtract(a, b); st(o); return true; }
    OP("mul") { ld(1, a); ld(2, b); o.multiply(a, b); st(o); return true; }
    OP("sqr") { ld(1, a); o.square(a); st(o); return true; }
    OP("dbl") { ld(1, a); o.multiply2(a); st(o); return true; }
    OP("neg") { ld(1, a); o.negate(a); st(o); return true; }
    OP("inv") { ld(1, a); o.inverse(a); st(o); return true; }
    OP("frob") { ld(1, a); o.frobenius_map(a, (unsigned int) argu(2)); st(o); return true; }
    OP("eq") { ld(1, a); ld(2, b); puti(T::equal(a, b)); return true; }
    OP("iszero") { ld(1, a); puti(a.is_zero()); return true; }
    OP("copy") { ld(1, a); o.copy(a); st(o); return true; }
    OP("exp") { BigInt<256> e; ld(1, a); ldB(2, e); embedded_pairing::core::exponentiate(o, a, e); st(o); return true; }
    OP("exp384") { BigInt<384> e; ld(1, a); ldB(2, e); embedded_pairing::core::exponentiate(o, a, e); st(o); return true; }
    OP("rd") { BYTEBUF(buf, sizeof(T)); unhex(arg(1), buf, sizeof(T)); o.read_big_endian(buf); st(o); return true; }
    OP("wr") { BYTEBUF(buf, sizeof(T)); ld(1, a); a.write_big_endian(buf); put(buf, sizeof(T)); return true; }
    OP("random") { rng_script(arg(1)); o.random(rng_cb); st(o); put_rng_log(); return true; }
    OP("const") { st(T::zero); st(T::one); return true; }
    return false;
}

static bool fq2_only(const char* op) {
    Fq2 a, b, o;
    poison(&o, sizeof o);
    OP("mulnr") { ld(1, a); o.multiply_by_nonresidue(a); st(o); return true; }
    OP("norm") { Fq n; poison(&n, sizeof n); ld(1, a); a.norm(n); st(n); return true; }
    OP("leg") { ld(1, a); puti(a.legendre()); return true; }
    OP("sqrt") { ld(1, a); o.square_root(a); st(o); return true; }
    OP("cmp") { ld(1, a); ld(2, b); puti(Fq2::compare(a, b)); return true; }
    OP("hashred") { ld(1, o); bool t = o.hash_reduce(); st(o); puti(t); return true; }
    OP("negone") { st(Fq2::negative_one); return true; }
    return false;
}

static bool fq6_only(const char* op) {
    Fq6 a, o;
    Fq2 c0, c1;
    poison(&o, sizeof o);
    OP("mulnr") { ld(1, a); o.multiply_by_nonresidue(a); st(o); return true; }
    OP("mulc1") { ld(1, a); ld(2, c1); o.multiply_by_c1(a, c1); st(o); return true; }
    OP("mulc01") { ld(1, a); ld(2, c0); ld(3, c1); o.multiply_by_c01(a, c0, c1); st(o); return true; }
    return false;
}

static bool fq12_only(const char* op) {
    Fq12 a, o;
    Fq2 c0, c1, c4;
    poison(&o, sizeof o);
    OP("conj") { ld(1, a); o.conjugate(a); st(o); return true; }
    OP("mulc014") { ld(1, a); ld(2, c0); ld(3, c1); ld(4, c4); o.multiply_by_c014(a, c0, c1, c4); st(o); return true; }
    OP("sqcyc") { ld(1, a); o.square_cyclotomic(a); st(o); return true; }
    OP("mapcyc") { ld(1, a); o.map_to_cyclotomic(a); st(o); return true; }
    OP("finalexp") { ld(1, a); final_exponentiation(o, a); st(o); return true; }
    return false;
}

// ---------------------------------------------------------------- target group (C API names where they exist)
static bool gt_ops(const char* op) {
    Fq12 a, b, o;
    BigInt<256> k;
    poison(&o, sizeof o);
    embedded_pairing_bls12_381_fq12_t* co = (embedded_pairing_bls12_381_fq12_t*) &o;
    const embedded_pairing_bls12_381_fq12_t* ca = (const embedded_pairing_bls12_381_fq12_t*) &a;
    const embedded_pairing_bls12_381_fq12_t* cb = (const embedded_pairing_bls12_381_fq12_t*) &b;
    const embedded_pairing_core_bigint_256_t* ck = (const embedded_pairing_core_bigint_256_t*) &k;
    OP("mul") { ld(1, a); ldB(2, k); embedded_pairing_bls12_381_gt_multiply(co, ca, ck); st(o); return true; }
    // in-place forms (result object == base): the C API allows them and the Go binding uses them
    OP("mulip") { ld(1, o); ldB(2, k); embedded_pairing_bls12_381_gt_multiply(co, co, ck); st(o); return true; }
    OP("poxip") { PowersOfX s; ld(1, o); for (int i = 0; i < 4; i++) ldB(2 + i, s.c[i]); o.exponentiate_gt(o, s); st(o); return true; }
    OP("nodivip") { ld(1, o); ldB(2, k); o.exponentiate_gt_nodiv(o, k); st(o); return true; }
    OP("mulrandip") {
        BigInt<256> y; poison(&y, sizeof y);
        ld(1, o); rng_script(arg(2));
        embedded_pairing_bls12_381_gt_multiply_random(co, (embedded_pairing_core_bigint_256_t*) &y, co, rng_cb);
        st(o); stB(y); put_rng_log(); return true;
    }
    OP("add") { ld(1, a); ld(2, b); embedded_pairing_bls12_381_gt_add(co, ca, cb); st(o); return true; }
    OP("dbl") { ld(1, a); embedded_pairing_bls12_381_gt_double(co, ca); st(o); return true; }
    OP("neg") { ld(1, a); embedded_pairing_bls12_381_gt_negate(co, ca); st(o); return true; }
    OP("eq") { ld(1, a); ld(2, b); puti(embedded_pairing_bls12_381_gt_equal(ca, cb)); return true; }
    OP("mulrand") {
        BigInt<256> y; poison(&y, sizeof y);
        ld(1, a); rng_script(arg(2));
        embedded_pairing_bls12_381_gt_multiply_random(co, (embedded_pairing_core_bigint_256_t*) &y, ca, rng_cb);
        st(o); stB(y); put_rng_log(); return true;
    }
    OP("nodiv") { ld(1, a); ldB(2, k); o.exponentiate_gt_nodiv(a, k); st(o); return true; }
    OP("div") { ld(1, a); ldB(2, k); o.exponentiate_gt_div(a, k); st(o); return true; }
    OP("pox") {
        PowersOfX s; ld(1, a);
        for (int i = 0; i < 4; i++) ldB(2 + i, s.c[i]);
        o.exponentiate_gt(a, s); st(o); return true;
    }
    OP("marshal") { BYTEBUF(buf, 576); ld(1, a); embedded_pairing_bls12_381_gt_marshal(buf, ca); put(buf, 576); return true; }
    OP("unmarshal") { BYTEBUF(buf, 576); unhex(arg(1), buf, 576); embedded_pairing_bls12_381_gt_unmarshal(co, buf); st(o); return true; }
    OP("const") {
        st(*(const Fq12*) embedded_pairing_bls12_381_gt_generator); st(*(const Fq12*) embedded_pairing_bls12_381_gt_zero);
        st(generator_pairing); return true;
    }
    return false;
}

// ---------------------------------------------------------------- recodings / decompositions
template <int bits, unsigned int window>
static void wnaf_from(void) {
    BigInt<bits> k; ldB(3, k);
    struct { int64_t guard0[4]; WnafScalar<bits, window> s; int64_t guard1[4]; } g;
    memset(&g, 0x5c, sizeof g);
    g.s.from_bigint(k);
    for (int i = 0; i < 4; i++) {
        if (g.guard0[i] != 0x5c5c5c5c5c5c5c5cll || g.guard1[i] != 0x5c5c5c5c5c5c5c5cll) { printf(" GUARD-CLOBBERED"); return; }
    }
    puti(g.s.wnaf_size);
    putchar(' ');
    int n = g.s.wnaf_size;
    if (n < 0 || n > bits + 1) { printf("SIZE-OUT-OF-RANGE"); return; }
    if (n == 0) putchar('-');
    for (int i = 0; i < n; i++) printf(i ? ",%d" : "%d", (int) g.s.wnaf[i]);
}

static bool recode_ops(const char* op) {
    OP("wnaf") {
        int bits = (int) argi(1), w = (int) argi(2);
#define W(B, WW) if (bits == B && w == WW) { wnaf_from<B, WW>(); return true; }
        W(64, 2) W(64, 3) W(64, 4) W(64, 5) W(64, 6)
        W(128, 2) W(128, 3) W(128, 4) W(128, 5) W(128, 6)
        W(256, 2) W(256, 3) W(256, 4) W(256, 5) W(256, 6)
        W(512, 2) W(512, 3) W(512, 4) W(512, 5) W(512, 6)
#undef W
        die("unsupported wnaf instantiation", arg(1));
    }
    OP("pox.decompose") {
        BigInt<256> y; ldB(1, y);
        struct { uint64_t g0; PowersOfX s; uint64_t g1; } g;
        memset(&g, 0x5c, sizeof g);
        g.s.decompose(y);
        if (g.g0 != 0x5c5c5c5c5c5c5c5cull || g.g1 != 0x5c5c5c5c5c5c5c5cull) { printf(" GUARD-CLOBBERED"); return true; }
        for (int i = 0; i < 4; i++) stB(g.s.c[i]);
        return true;
    }
    OP("pox.random") {
        BigInt<256> y; poison(&y, sizeof y);
        PowersOfX s;
        rng_script(arg(1));
        s.random(y, rng_cb);
        stB(y);
        for (int i = 0; i < 4; i++) stB(s.c[i]);
        put_rng_log();
        return true;
    }
    return false;
}

// ---------------------------------------------------------------- curves
template <typename G, typename GA, int cofbits>
static bool curve_ops(const char* op, bool is_g1) {
    G a, b, o;
    GA pa, pb, po;
    BigInt<256> k;
    dirty_projective(o);
    dirty_affine(po);
    OP("add") { ld(1, a); ld(2, b); o.add(a, b); st(o); return true; }
    OP("addmixed") { ld(1, a); ld(2, pb); o.add(a, pb); st(o); return true; }
    OP("dbl") { ld(1, a); o.multiply2(a); st(o); return true; }
    OP("neg") { ld(1, a); o.negate(a); st(o); return true; }
    OP("eq") { ld(1, a); ld(2, b); puti(G::equal(a, b)); return true; }
    OP("fromaff") { ld(1, pa); o.from_affine(pa); st(o); return true; }
    OP("toaff") { ld(1, a); po.from_projective(a); st(po); return true; }
    OP("affneg") { ld(1, pa); po.negate(pa); st(po); return true; }
    OP("affeq") { ld(1, pa); ld(2, pb); puti(GA::equal(pa, pb)); return true; }
    OP("oncurve") { ld(1, pa); puti(pa.is_on_curve()); return true; }
    OP("insub") { ld(1, pa); puti(pa.is_in_correct_subgroup_assuming_on_curve()); return true; }
    OP("iszero") { ld(1, a); puti(a.is_zero()); return true; }
    OP("isnorm") { ld(1, a); puti(a.is_normalized()); return true; }
    // scalar multiplication: the accelerated entry points
    OP("mul") { ld(1, a); ldB(2, k); o.multiply(a, k); st(o); return true; }
    OP("mulaff") { ld(1, pa); ldB(2, k); o.multiply(pa, k); st(o); return true; }
    OP("dadd") { ld(1, a); ldB(2, k); o.multiply_doubleadd(a, k); st(o); return true; }
    OP("daddaff") { ld(1, pa); ldB(2, k); o.multiply_doubleadd(pa, k); st(o); return true; }
    OP("mulcof") { BigInt<cofbits> c; ld(1, a); ldB(2, c); o.multiply(a, c); st(o); return true; }
    OP("mulcofaff") { BigInt<cofbits> c; ld(1, pa); ldB(2, c); o.multiply(pa, c); st(o); return true; }
    OP("daddcof") { BigInt<cofbits> c; ld(1, a); ldB(2, c); o.multiply_doubleadd(a, c); st(o); return true; }
    OP("wnaf") {
        // wnaf <bits> <window> <affine?> base scalar
        int bits = (int) argi(1), w = (int) argi(2), aff = (int) argi(3);
#define W(B, WW) if (bits == B && w == WW) { BigInt<B> s; ldB(5, s); \
            if (aff) { ld(4, pa); o.template multiply_wnaf<GA, BigInt<B>, WW>(pa, s); } \
            else { ld(4, a); o.template multiply_wnaf<G, BigInt<B>, WW>(a, s); } st(o); return true; }
        W(64, 2) W(64, 4) W(64, 5)
        W(128, 2) W(128, 3) W(128, 4) W(128, 6)
        W(256, 2) W(256, 3) W(256, 4) W(256, 5) W(256, 6)
        W(512, 2) W(512, 4) W(512, 6)
#undef W
        die("unsupported multiply_wnaf instantiation", arg(1));
    }
    OP("wnaftable") {
        // precomputed-table multiplication: table built once from base, two scalars
        int w = (int) argi(1);
        ld(2, a);
        BigInt<256> k2; ldB(3, k); ldB(4, k2);
        G o2; poison(&o2, sizeof o2);
#define W(WW) if (w == WW) { WnafTable<G, WW> t; t.fill_table(a); \
            wnaf_multiply<G, G, 256, WW>(o, t, k); wnaf_multiply<G, G, 256, WW>(o2, t, k2); st(o); st(o2); return true; }
        W(2) W(3) W(4) W(5) W(6)
#undef W
        die("unsupported table window", arg(1));
    }
    OP("wnafscalar") {
        // multiply_wnaf(base, WnafScalar) overload
        ld(1, a); ldB(2, k);
        WnafScalar<256, 4> s; s.from_bigint(k);
        o.multiply_wnaf(a, s); st(o); return true;
    }
    OP("random") { rng_script(arg(1)); o.random_generator(rng_cb); st(o); put_rng_log(); return true; }
    OP("fromhash") { BYTEBUF(h, sizeof(typename GA::BaseFieldType)); unhex(arg(1), h, sizeof(typename GA::BaseFieldType)); po.from_hash(h); st(po); return true; }
    OP("fromx") {
        typename GA::BaseFieldType x; ld(1, x);
        bool ok = po.get_point_from_x(x, argi(2) != 0, argi(3) != 0);
        puti(ok); if (ok) st(po); return true;
    }
    OP("const") { st(G::zero); st(G::one); st(GA::zero); st(GA::generator); stB(GA::cofactor); st(GA::curve_b_value); return true; }
    return false;
}

static bool g1_only(const char* op) {
    G1 a, o; BigInt<256> c0, c1;
    poison(&o, sizeof o);
    OP("endo") { ld(1, a); o.endomorphism(a); st(o); return true; }
    OP("mulendo4") { ld(1, a); ldB(2, c0); ldB(4, c1); o.multiply_endomorphism(a, c0, argi(3) != 0, c1, argi(5) != 0); st(o); return true; }
    OP("lambda") { stB(g1_endomorphism_lambda); return true; }
    return false;
}

static bool g2_only(const char* op) {
    G2 a, o;
    poison(&o, sizeof o);
    OP("frob") { ld(1, a); o.frobenius_map(a, (unsigned) argu(2)); st(o); return true; }
    OP("mulpox") {
        PowersOfX s; ld(1, a);
        for (int i = 0; i < 4; i++) ldB(2 + i, s.c[i]);
        o.multiply_frobenius(a, s); st(o); return true;
    }
    return false;
}

// ---------------------------------------------------------------- C API: curve arithmetic / encodings / hashing / pairing
#define CG1(p) ((embedded_pairing_bls12_381_g1_t*) (p))
#define CG1A(p) ((embedded_pairing_bls12_381_g1affine_t*) (p))
#define CG2(p) ((embedded_pairing_bls12_381_g2_t*) (p))
#define CG2A(p) ((embedded_pairing_bls12_381_g2affine_t*) (p))
#define CK(p) ((embedded_pairing_core_bigint_256_t*) (p))
#define CGT(p) ((embedded_pairing_bls12_381_fq12_t*) (p))

static bool capi_ops(const char* op) {
    G1 a1, b1, o1; G2 a2, b2, o2;
    G1Affine pa1, pb1, po1; G2Affine pa2, pb2, po2;
    BigInt<256> k;
    Fq12 e;
    dirty_projective(o1); dirty_projective(o2); dirty_affine(po1); dirty_affine(po2); poison(&e, sizeof e);
    OP("g1_add") { ld(1, a1); ld(2, b1); embedded_pairing_bls12_381_g1_add(CG1(&o1), CG1(&a1), CG1(&b1)); st(o1); return true; }
    OP("g1_add_mixed") { ld(1, a1); ld(2, pb1); embedded_pairing_bls12_381_g1_add_mixed(CG1(&o1), CG1(&a1), CG1A(&pb1)); st(o1); return true; }
    OP("g1_negate") { ld(1, a1); embedded_pairing_bls12_381_g1_negate(CG1(&o1), CG1(&a1)); st(o1); return true; }
    OP("g1_double") { ld(1, a1); embedded_pairing_bls12_381_g1_double(CG1(&o1), CG1(&a1)); st(o1); return true; }
    OP("g1_multiply") { ld(1, a1); ldB(2, k); embedded_pairing_bls12_381_g1_multiply(CG1(&o1), CG1(&a1), CK(&k)); st(o1); return true; }
    OP("g1_multiply_affine") { ld(1, pa1); ldB(2, k); embedded_pairing_bls12_381_g1_multiply_affine(CG1(&o1), CG1A(&pa1), CK(&k)); st(o1); return true; }
    OP("g1_equal") { ld(1, a1); ld(2, b1); puti(embedded_pairing_bls12_381_g1_equal(CG1(&a1), CG1(&b1))); return true; }
    OP("g1_from_affine") { ld(1, pa1); embedded_pairing_bls12_381_g1_from_affine(CG1(&o1), CG1A(&pa1)); st(o1); return true; }
    OP("g1affine_from_projective") { ld(1, a1); embedded_pairing_bls12_381_g1affine_from_projective(CG1A(&po1), CG1(&a1)); st(po1); return true; }
    OP("g1affine_negate") { ld(1, pa1); embedded_pairing_bls12_381_g1affine_negate(CG1A(&po1), CG1A(&pa1)); st(po1); return true; }
    OP("g1affine_equal") { ld(1, pa1); ld(2, pb1); puti(embedded_pairing_bls12_381_g1affine_equal(CG1A(&pa1), CG1A(&pb1))); return true; }
    OP("g1_random") { rng_script(arg(1)); embedded_pairing_bls12_381_g1_random(CG1(&o1), rng_cb); st(o1); put_rng_log(); return true; }
    OP("g1affine_from_hash") { BYTEBUF(h, 48); unhex(arg(1), h, 48); embedded_pairing_bls12_381_g1affine_from_hash(CG1A(&po1), h); st(po1); return true; }

    OP("g2_add") { ld(1, a2); ld(2, b2); embedded_pairing_bls12_381_g2_add(CG2(&o2), CG2(&a2), CG2(&b2)); st(o2); return true; }
    OP("g2_add_mixed") { ld(1, a2); ld(2, pb2); embedded_pairing_bls12_381_g2_add_mixed(CG2(&o2), CG2(&a2), CG2A(&pb2)); st(o2); return true; }
    OP("g2_negate") { ld(1, a2); embedded_pairing_bls12_381_g2_negate(CG2(&o2), CG2(&a2)); st(o2); return true; }
    OP("g2_double") { ld(1, a2); embedded_pairing_bls12_381_g2_double(CG2(&o2), CG2(&a2)); st(o2); return true; }
    OP("g2_multiply") { ld(1, a2); ldB(2, k); embedded_pairing_bls12_381_g2_multiply(CG2(&o2), CG2(&a2), CK(&k)); st(o2); return true; }
    OP("g2_multiply_affine") { ld(1, pa2); ldB(2, k); embedded_pairing_bls12_381_g2_multiply_affine(CG2(&o2), CG2A(&pa2), CK(&k)); st(o2); return true; }
    OP("g2_equal") { ld(1, a2); ld(2, b2); puti(embedded_pairing_bls12_381_g2_equal(CG2(&a2), CG2(&b2))); return true; }
    OP("g2_from_affine") { ld(1, pa2); embedded_pairing_bls12_381_g2_from_affine(CG2(&o2), CG2A(&pa2)); st(o2); return true; }
    OP("g2affine_from_projective") { ld(1, a2); embedded_pairing_bls12_381_g2affine_from_projective(CG2A(&po2), CG2(&a2)); st(po2); return true; }
    OP("g2affine_negate") { ld(1, pa2); embedded_pairing_bls12_381_g2affine_negate(CG2A(&po2), CG2A(&pa2)); st(po2); return true; }
    OP("g2affine_equal") { ld(1, pa2); ld(2, pb2); puti(embedded_pairing_bls12_381_g2affine_equal(CG2A(&pa2), CG2A(&pb2))); return true; }
    OP("g2_random") { rng_script(arg(1)); embedded_pairing_bls12_381_g2_random(CG2(&o2), rng_cb); st(o2); put_rng_log(); return true; }
    OP("g2affine_from_hash") { BYTEBUF(h, 96); unhex(arg(1), h, 96); embedded_pairing_bls12_381_g2affine_from_hash(CG2A(&po2), h); st(po2); return true; }

    OP("zp_from_hash") { BYTEBUF(h, 32); unhex(arg(1), h, 32); poison(&k, sizeof k); embedded_pairing_bls12_381_zp_from_hash(CK(&k), h); stB(k); return true; }
    OP("zp_random") { rng_script(arg(1)); poison(&k, sizeof k); embedded_pairing_bls12_381_zp_random(CK(&k), rng_cb); stB(k); put_rng_log(); return true; }
    OP("scalar_hash_reduce") { ldB(1, k); embedded_pairing_wkdibe_scalar_hash_reduce(CK(&k)); stB(k); return true; }
    OP("random_zpstar") { rng_script(arg(1)); poison(&k, sizeof k); embedded_pairing_wkdibe_random_zpstar(CK(&k), rng_cb); stB(k); put_rng_log(); return true; }
    OP("wkd_random_g1") { rng_script(arg(1)); embedded_pairing_wkdibe_random_g1(CG1(&o1), rng_cb); st(o1); put_rng_log(); return true; }
    OP("wkd_random_g2") { rng_script(arg(1)); embedded_pairing_wkdibe_random_g2(CG2(&o2), rng_cb); st(o2); put_rng_log(); return true; }
    OP("wkd_random_gt") { rng_script(arg(1)); embedded_pairing_wkdibe_random_gt(CGT(&e), rng_cb); st(e); put_rng_log(); return true; }
    OP("lq_id_from_hash") {
        embedded_pairing_lqibe_idhash_t h; embedded_pairing_lqibe_id_t id;
        unhex(arg(1), h.hash, 48); memset(&id, 0xa5, sizeof id);
        embedded_pairing_lqibe_compute_id_from_hash(&id, &h);
        st(*(G1Affine*) &id.q); return true;
    }

    // encodings: marshal <compressed> point ; unmarshal <compressed> <checked> bytes
    OP("g1_marshal") {
        int c = (int) argi(1); ld(2, pa1);
        BYTEBUF(buf, 96 + 16); memset(buf, 0xee, 96 + 16);
        embedded_pairing_bls12_381_g1_marshal(buf, CG1A(&pa1), c != 0);
        size_t n = c ? 48 : 96;
        put(buf, n); puti(buf[n] == 0xee && buf[n + 15] == 0xee); return true;
    }
    OP("g2_marshal") {
        int c = (int) argi(1); ld(2, pa2);
        BYTEBUF(buf, 192 + 16); memset(buf, 0xee, 192 + 16);
        embedded_pairing_bls12_381_g2_marshal(buf, CG2A(&pa2), c != 0);
        size_t n = c ? 96 : 192;
        put(buf, n); puti(buf[n] == 0xee && buf[n + 15] == 0xee); return true;
    }
    OP("g1_unmarshal") {
        int c = (int) argi(1), chk = (int) argi(2);
        size_t n = c ? 48 : 96;
        uint8_t* buf_raw; uint8_t* buf = heapbuf(n, &buf_raw); unhex(arg(3), buf, n);   // exact-size heap buffer: over-reads are ASan-visible
        dirty_affine(po1);
        bool ok = embedded_pairing_bls12_381_g1_unmarshal(CG1A(&po1), buf, c != 0, chk != 0);
        free(buf_raw);
        puti(ok); if (ok) st(po1); return true;
    }
    OP("g2_unmarshal") {
        int c = (int) argi(1), chk = (int) argi(2);
        size_t n = c ? 96 : 192;
        uint8_t* buf_raw; uint8_t* buf = heapbuf(n, &buf_raw); unhex(arg(3), buf, n);
        dirty_affine(po2);
        bool ok = embedded_pairing_bls12_381_g2_unmarshal(CG2A(&po2), buf, c != 0, chk != 0);
        free(buf_raw);
        puti(ok); if (ok) st(po2); return true;
    }

    // decode (checked and unchecked) and re-encode what the checked decode returned
    OP("g1_decenc") {
        int c = (int) argi(1);
        size_t n = c ? 48 : 96;
        uint8_t* buf_raw; uint8_t* buf = heapbuf(n, &buf_raw); unhex(arg(2), buf, n);
        dirty_affine(po1); dirty_affine(pb1);
        bool okc = embedded_pairing_bls12_381_g1_unmarshal(CG1A(&po1), buf, c != 0, true);
        bool oku = embedded_pairing_bls12_381_g1_unmarshal(CG1A(&pb1), buf, c != 0, false);
        free(buf_raw);
        puti(okc);
        if (okc) { uint8_t* re = (uint8_t*) malloc(n); embedded_pairing_bls12_381_g1_marshal(re, CG1A(&po1), c != 0); st(po1); put(re, n); free(re); }
        puti(oku);
        if (oku) st(pb1);
        return true;
    }
    OP("g2_decenc") {
        int c = (int) argi(1);
        size_t n = c ? 96 : 192;
        uint8_t* buf_raw; uint8_t* buf = heapbuf(n, &buf_raw); unhex(arg(2), buf, n);
        dirty_affine(po2); dirty_affine(pb2);
        bool okc = embedded_pairing_bls12_381_g2_unmarshal(CG2A(&po2), buf, c != 0, true);
        bool oku = embedded_pairing_bls12_381_g2_unmarshal(CG2A(&pb2), buf, c != 0, false);
        free(buf_raw);
        puti(okc);
        if (okc) { uint8_t* re = (uint8_t*) malloc(n); embedded_pairing_bls12_381_g2_marshal(re, CG2A(&po2), c != 0); st(po2); put(re, n); free(re); }
        puti(oku);
        if (oku) st(pb2);
        return true;
    }

    // pairings
    OP("pairing") { ld(1, pa1); ld(2, pa2); embedded_pairing_bls12_381_pairing(CGT(&e), CG1A(&pa1), CG2A(&pa2)); st(e); return true; }
    OP("pairing_cpp") { ld(1, pa1); ld(2, pa2); pairing<G2Affine>(e, pa1, pa2); st(e); return true; }
    OP("miller") { ld(1, pa1); ld(2, pa2); miller_loop(e, pa1, pa2); st(e); return true; }
    OP("prepared_pairing") {
        ld(1, pa1); ld(2, pa2);
        G2Prepared* prep = (G2Prepared*) malloc(sizeof(G2Prepared));
        embedded_pairing_bls12_381_g2prepared_prepare((embedded_pairing_bls12_381_g2prepared_t*) prep, CG2A(&pa2));
        embedded_pairing_bls12_381_prepared_pairing(CGT(&e), CG1A(&pa1), (embedded_pairing_bls12_381_g2prepared_t*) prep);
        st(e); puti(embedded_pairing_bls12_381_g2prepared_is_zero((embedded_pairing_bls12_381_g2prepared_t*) prep));
        free(prep); return true;
    }
    OP("prepare_reuse") {
        // prepare_reuse <g2 affine PREV> <g2 affine Q> <g1 affine P>: one G2Prepared object is prepared from PREV and then from Q; it must
        // end up identical to a fresh object prepared from Q, and pair like it.  Output: same(0/1) e(P, reused) cursor-independent
        G2Affine prev; ld(1, prev); ld(2, pa2); ld(3, pa1);
        G2Prepared* x = (G2Prepared*) malloc(sizeof(G2Prepared)); G2Prepared* y = (G2Prepared*) malloc(sizeof(G2Prepared));
        memset(x, 0x5a, sizeof *x); x->infinity = false; memset(y, 0xc3, sizeof *y); y->infinity = true;
        embedded_pairing_bls12_381_g2prepared_prepare((embedded_pairing_bls12_381_g2prepared_t*) x, CG2A(&prev));
        embedded_pairing_bls12_381_g2prepared_prepare((embedded_pairing_bls12_381_g2prepared_t*) x, CG2A(&pa2));
        y->prepare(pa2);
        bool same = x->infinity == y->infinity && (x->infinity || memcmp(x->coeffs, y->coeffs, sizeof x->coeffs) == 0);
        puti(same);
        embedded_pairing_bls12_381_prepared_pairing(CGT(&e), CG1A(&pa1), (embedded_pairing_bls12_381_g2prepared_t*) x);
        st(e);
        free(x); free(y); return true;
    }
    OP("pairing_proj") {
        // pairing_proj <g1 jacobian> <g2 jacobian> which : representatives with a chosen z are converted by the library, then paired
        G1 pj; G2 qj; ld(1, pj); ld(2, qj); int which = (int) argi(3);
        dirty_affine(po1); dirty_affine(po2);
        if (which & 4) { po1.from_projective(pj); po2.from_projective(qj); }
        else { embedded_pairing_bls12_381_g1affine_from_projective(CG1A(&po1), CG1(&pj)); embedded_pairing_bls12_381_g2affine_from_projective(CG2A(&po2), CG2(&qj)); }
        which &= 3;
        if (which == 0) embedded_pairing_bls12_381_pairing(CGT(&e), CG1A(&po1), CG2A(&po2));
        else if (which == 1) pairing<G2Affine>(e, po1, po2);
        else {
            G2Prepared* prep = (G2Prepared*) malloc(sizeof(G2Prepared));
            embedded_pairing_bls12_381_g2prepared_prepare((embedded_pairing_bls12_381_g2prepared_t*) prep, CG2A(&po2));
            embedded_pairing_bls12_381_prepared_pairing(CGT(&e), CG1A(&po1), (embedded_pairing_bls12_381_g2prepared_t*) prep);
            free(prep);
        }
        st(e); return true;
    }
    OP("pairing_sum") {
        // pairing_sum <repeat> <n> then n triples: kind(a|p) g1a g2a ; kind p = prepared. With repeat=2 the same arrays are reused.
        int repeat = (int) argi(1), n = (int) argi(2);
        int na = 0, np = 0;
        // kind letters: a / p = affine / prepared pair with its own G2 object; A / P = the pair points at the SAME G2 object as the previous
        // pair of its kind (callers legitimately share one Q between pairs); the G1 objects are always distinct
        for (int i = 0; i < n; i++) { char kc = arg(3 + 3 * i)[0]; if (kc == 'a' || kc == 'A') na++; else np++; }
        G1Affine* g1s = (G1Affine*) malloc(sizeof(G1Affine) * (n ? n : 1));
        G2Affine* g2s = (G2Affine*) malloc(sizeof(G2Affine) * (n ? n : 1));
        G2Prepared* preps = (G2Prepared*) malloc(sizeof(G2Prepared) * (np ? np : 1));
        embedded_pairing_bls12_381_affine_pair_t* ap = na ? (embedded_pairing_bls12_381_affine_pair_t*) malloc(sizeof(*ap) * na) : NULL;
        embedded_pairing_bls12_381_prepared_pair_t* pp = np ? (embedded_pairing_bls12_381_prepared_pair_t*) malloc(sizeof(*pp) * np) : NULL;
        int ia = 0, ip = 0;
        for (int i = 0; i < n; i++) {
            char kc = arg(3 + 3 * i)[0];
            ld(4 + 3 * i, g1s[i]); ld(5 + 3 * i, g2s[i]);
            if (kc == 'a' || kc == 'A') {
                memset(&ap[ia], 0xa5, sizeof ap[ia]);
                ap[ia].g1 = CG1A(&g1s[i]);
                ap[ia].g2 = (kc == 'A' && ia > 0) ? ap[ia - 1].g2 : CG2A(&g2s[i]);
                ia++;
            } else {
                memset(&pp[ip], 0xa5, sizeof pp[ip]);
                pp[ip].g1 = CG1A(&g1s[i]);
                if (kc == 'P' && ip > 0) {
                    pp[ip].g2 = pp[ip - 1].g2;
                } else {
                    embedded_pairing_bls12_381_g2prepared_prepare((embedded_pairing_bls12_381_g2prepared_t*) &preps[ip], CG2A(&g2s[i]));
                    pp[ip].g2 = (embedded_pairing_bls12_381_g2prepared_t*) &preps[ip];
                }
                ip++;
            }
        }
        for (int rep = 0; rep < repeat; rep++) {
            poison(&e, sizeof e);
            embedded_pairing_bls12_381_pairing_sum(CGT(&e), ap, (size_t) na, pp, (size_t) np);
            st(e);
        }
        // final cursor values of the prepared pairs (C mirror exposes the private field)
        putchar(' ');
        if (np == 0) putchar('-');
        for (int i = 0; i < np; i++) printf(i ? ",%zu" : "%zu", pp[i]._coeff_idx);
        free(g1s); free(g2s); free(preps); free(ap); free(pp);
        return true;
    }
    OP("pairing_sc") {
        // pairing of library-made points: P = [a]G1, Q = [b]G2 through a chosen multiplication route and a real
        // projective->affine conversion of a non-normalised result.  Output: P Q e
        BigInt<256> a, b; ldB(1, a); ldB(2, b);
        int rp = (int) argi(3), rq = (int) argi(4), which = (int) argi(5);
        G1 p; G2 q;
        switch (rp) {
        case 0: embedded_pairing_bls12_381_g1_multiply_affine(CG1(&p), embedded_pairing_bls12_381_g1affine_generator, CK(&a)); break;
        case 1: p.multiply_wnaf<G1Affine, BigInt<256>, 4>(G1Affine::generator, a); break;
        case 2: p.multiply_doubleadd(G1Affine::generator, a); break;
        default: { G1 g; g.multiply2(G1::one); G1 t; t.add(g, G1::one); t.negate(t); t.add(t, g); t.add(t, g); /* t = G with z != 1 */
                   embedded_pairing_bls12_381_g1_multiply(CG1(&p), CG1(&t), CK(&a)); break; }
        }
        switch (rq) {
        case 0: embedded_pairing_bls12_381_g2_multiply_affine(CG2(&q), embedded_pairing_bls12_381_g2affine_generator, CK(&b)); break;
        case 1: q.multiply_wnaf<G2Affine, BigInt<256>, 4>(G2Affine::generator, b); break;
        case 2: q.multiply_doubleadd(G2Affine::generator, b); break;
        default: { G2 g; g.multiply2(G2::one); G2 t; t.add(g, G2::one); t.negate(t); t.add(t, g); t.add(t, g);
                   embedded_pairing_bls12_381_g2_multiply(CG2(&q), CG2(&t), CK(&b)); break; }
        }
        embedded_pairing_bls12_381_g1affine_from_projective(CG1A(&po1), CG1(&p));
        embedded_pairing_bls12_381_g2affine_from_projective(CG2A(&po2), CG2(&q));
        if (which == 0) embedded_pairing_bls12_381_pairing(CGT(&e), CG1A(&po1), CG2A(&po2));
        else if (which == 1) pairing<G2Affine>(e, po1, po2);
        else {
            G2Prepared* prep = (G2Prepared*) malloc(sizeof(G2Prepared));
            embedded_pairing_bls12_381_g2prepared_prepare((embedded_pairing_bls12_381_g2prepared_t*) prep, CG2A(&po2));
            embedded_pairing_bls12_381_prepared_pairing(CGT(&e), CG1A(&po1), (embedded_pairing_bls12_381_g2prepared_t*) prep);
            free(prep);
        }
        st(po1); st(po2); st(e); puti(p.is_normalized()); puti(q.is_normalized());
        return true;
    }
    OP("consts") {
        stB(*(const BigInt<256>*) embedded_pairing_bls12_381_group_order);
        st(*(const G1*) embedded_pairing_bls12_381_g1_zero); st(*(const G1Affine*) embedded_pairing_bls12_381_g1affine_zero);
        st(*(const G1Affine*) embedded_pairing_bls12_381_g1affine_generator);
        st(*(const G2*) embedded_pairing_bls12_381_g2_zero); st(*(const G2Affine*) embedded_pairing_bls12_381_g2affine_zero);
        st(*(const G2Affine*) embedded_pairing_bls12_381_g2affine_generator);
        puti((long long) embedded_pairing_bls12_381_g1_marshalled_compressed_size);
        puti((long long) embedded_pairing_bls12_381_g1_marshalled_uncompressed_size);
        puti((long long) embedded_pairing_bls12_381_g2_marshalled_compressed_size);
        puti((long long) embedded_pairing_bls12_381_g2_marshalled_uncompressed_size);
        puti((long long) embedded_pairing_bls12_381_gt_marshalled_size);
        puti((long long) G2Prepared::num_coeffs);
        puti((long long) (sizeof(((embedded_pairing_bls12_381_g2prepared_t*) 0)->coeffs) / sizeof(((embedded_pairing_bls12_381_g2prepared_t*) 0)->coeffs[0])));
        return true;
    }
    return false;
}

// ---------------------------------------------------------------- raw multi-precision routines (C03)
template <int bits>
static bool raw_ops(const char* op) {
    typedef BigInt<bits> B;
    typedef BigInt<2 * bits> BB;
    typedef FpBase<bits> F;
    typedef typename B::word_t word_t;
    // layout: [a | out] so that out can alias a when requested
    B& a = gslot<B>(3); B& b = gslot<B>(4); B& p = gslot<B>(5); B& o = gslot<B>(6);
    F& fa = gslot<F>(7); F& fb = gslot<F>(8); F& fo = gslot<F>(9);
    int alias = 0;
    poison(&o, sizeof o); poison(&fo, sizeof fo);
    OP("add") { ldB(1, a); ldB(2, b); alias = (int) argi(3); B& r = alias ? a : o; bool c = r.add(a, b); stB(r); puti(c); return true; }
    OP("sub") { ldB(1, a); ldB(2, b); alias = (int) argi(3); B& r = alias ? a : o; bool c = r.subtract(a, b); stB(r); puti(c); return true; }
    OP("shl1") { ldB(1, a); alias = (int) argi(2); B& r = alias ? a : o; word_t c = r.template shift_left_in_word<1>(a); stB(r); puti((long long) c); return true; }
    OP("shr1") { ldB(1, a); alias = (int) argi(2); B& r = alias ? a : o; word_t c = r.template shift_right_in_word<1>(a); stB(r); puti((long long) (c != 0)); return true; }
    OP("shl") { ldB(1, a); unsigned amt = (unsigned) argu(2); alias = (int) argi(3); B& r = alias ? a : o; word_t c = r.shift_left(a, amt); stB(r); printf(" %llu", (unsigned long long) c); return true; }
    OP("shr") { ldB(1, a); unsigned amt = (unsigned) argu(2); alias = (int) argi(3); B& r = alias ? a : o; word_t c = r.shift_right(a, amt); stB(r); printf(" %llu", (unsigned long long) c); return true; }
    OP("mul") { BB& w = gslot<BB>(10); poison(&w, sizeof w); ldB(1, a); ldB(2, b); w.multiply(a, b); stB(w); return true; }
    OP("sqr") { BB& w = gslot<BB>(10); poison(&w, sizeof w); ldB(1, a); w.square(a); stB(w); return true; }
    OP("cmp") { ldB(1, a); ldB(2, b); puti(B::compare(a, b)); return true; }
    OP("fpadd") { ldB(1, fa.val); ldB(2, fb.val); ldB(3, p); alias = (int) argi(4); F& r = alias ? fa : fo; r.add(fa, fb, p); stB(r.val); return true; }
    OP("fpsub") { ldB(1, fa.val); ldB(2, fb.val); ldB(3, p); alias = (int) argi(4); F& r = alias ? fa : fo; r.subtract(fa, fb, p); stB(r.val); return true; }
    OP("fpdbl") { ldB(1, fa.val); ldB(2, p); alias = (int) argi(3); F& r = alias ? fa : fo; r.multiply2(fa, p); stB(r.val); return true; }
    OP("fpneg") { ldB(1, fa.val); ldB(2, p); alias = (int) argi(3); F& r = alias ? fa : fo; r.negate(fa, p); stB(r.val); return true; }
    OP("mred") {
        BB& t = gslot<BB>(10); B inv; ldB(1, t); ldB(2, p); ldB(3, inv);
        fo.montgomery_reduce(t, p, inv.words[0]); stB(fo.val); return true;
    }
    OP("fpmul") {
        B inv; ldB(1, fa.val); ldB(2, fb.val); ldB(3, p); ldB(4, inv); alias = (int) argi(5);
        // alias: 0 distinct, 1 out=a, 2 out=b, 3 out=a=b (b ignored)
        if (alias == 0) { fo.multiply(fa, fb, p, inv.words[0]); stB(fo.val); }
        else if (alias == 1) { fa.multiply(fa, fb, p, inv.words[0]); stB(fa.val); }
        else if (alias == 2) { fb.multiply(fa, fb, p, inv.words[0]); stB(fb.val); }
        else { fa.multiply(fa, fa, p, inv.words[0]); stB(fa.val); }
        return true;
    }
    OP("fpsqr") {
        B inv; ldB(1, fa.val); ldB(2, p); ldB(3, inv); alias = (int) argi(4);
        F& r = alias ? fa : fo; r.square(fa, p, inv.words[0]); stB(r.val); return true;
    }
    return false;
}

#ifdef HAVE_X86_ASM
// direct calls of both x86-64 routine families, bypassing the dispatch pointers
static bool asm_ops(const char* op) {
    BigInt<384>& a = gslot<BigInt<384>>(11); BigInt<384>& b = gslot<BigInt<384>>(12); BigInt<384>& p = gslot<BigInt<384>>(13); BigInt<384>& o = gslot<BigInt<384>>(14);
    BigInt<384> inv;
    BigInt<768>& w = gslot<BigInt<768>>(15);
    poison(&o, sizeof o); poison(&w, sizeof w);
    int bmi = embedded_pairing_core_arch_x86_64_cpu_supports_bmi2_adx();
    OP("cpu") { puti(bmi); return true; }
    OP("mul.base") { ldB(1, a); ldB(2, b); embedded_pairing_core_arch_x86_64_bigint_768_multiply(&w, &a, &b); stB(w); return true; }
    OP("sqr.base") { ldB(1, a); embedded_pairing_core_arch_x86_64_bigint_768_square(&w, &a); stB(w); return true; }
    OP("mred.base") { ldB(1, w); ldB(2, p); ldB(3, inv); embedded_pairing_core_arch_x86_64_fpbase_384_montgomery_reduce(&o, &w, &p, inv.std_dwords[0]); stB(o); return true; }
    OP("mul.bmi2") { if (!bmi) { printf(" UNSUPPORTED"); return true; } ldB(1, a); ldB(2, b); embedded_pairing_core_arch_x86_64_bmi2_adx_bigint_768_multiply(&w, &a, &b); stB(w); return true; }
    OP("sqr.bmi2") { if (!bmi) { printf(" UNSUPPORTED"); return true; } ldB(1, a); embedded_pairing_core_arch_x86_64_bmi2_adx_bigint_768_square(&w, &a); stB(w); return true; }
    OP("mred.bmi2") { if (!bmi) { printf(" UNSUPPORTED"); return true; } ldB(1, w); ldB(2, p); ldB(3, inv); embedded_pairing_core_arch_x86_64_bmi2_adx_fpbase_384_montgomery_reduce(&o, &w, &p, inv.std_dwords[0]); stB(o); return true; }
    return false;
}
#endif

static void use_x86_baseline(void) {
#ifdef HAVE_X86_ASM
    embedded_pairing::core::runtime_fpbase_384_montgomery_reduce = embedded_pairing_core_arch_x86_64_fpbase_384_montgomery_reduce;
    embedded_pairing::core::runtime_bigint_768_multiply = embedded_pairing_core_arch_x86_64_bigint_768_multiply;
    embedded_pairing::core::runtime_bigint_768_square = embedded_pairing_core_arch_x86_64_bigint_768_square;
#else
    die("--x86base needs an assembly build", "");
#endif
}

static const char* after(const char* op, const char* prefix) {
    size_t n = strlen(prefix);
    return strncmp(op, prefix, n) == 0 ? op + n : NULL;
}

int main(int argc, char** argv) {
    for (int i = 1; i < argc; i++) {
        if (!strcmp(argv[i], "--x86base")) use_x86_baseline();
        else if (!strcmp(argv[i], "--guard-end")) guard_init(1);
        else if (!strcmp(argv[i], "--guard-start")) guard_init(2);
        else if (!strcmp(argv[i], "--info")) {
            printf("word_bits=%d asm=%d\n", (int) (8 * sizeof(BigInt<384>::word_t)),
#ifdef HAVE_X86_ASM
                   1
#else
                   0
#endif
            );
            return 0;
        }
    }
    static char outbuf[1 << 16];
    setvbuf(stdout, outbuf, _IOFBF, sizeof outbuf);
    verif_install_death_flush();
    verif_snapshot_option(argc, argv);
    while (read_line(stdin)) {
        if (g_ntok == 0) { printf("\n"); continue; }
        const char* op = g_tok[0];
        const char* s;
        bool ok = false;
        g_bshift = (g_bshift + 3) & 7;
        printf("%s", op);
        if ((s = after(op, "Fq."))) ok = field_ops<Fq, 384>(s) || fq_only(s);
        else if ((s = after(op, "Fr."))) ok = field_ops<Fr, 256>(s);
        else if ((s = after(op, "Fq2."))) ok = ext_common<Fq2>(s) || fq2_only(s);
        else if ((s = after(op, "Fq6."))) ok = ext_common<Fq6>(s) || fq6_only(s);
        else if ((s = after(op, "Fq12."))) ok = ext_common<Fq12>(s) || fq12_only(s);
        else if ((s = after(op, "gt."))) ok = gt_ops(s);
        else if ((s = after(op, "G1."))) ok = curve_ops<G1, G1Affine, 128>(s, true) || g1_only(s);
        else if ((s = after(op, "G2."))) ok = curve_ops<G2, G2Affine, 512>(s, false) || g2_only(s);
        else if ((s = after(op, "c."))) ok = capi_ops(s);
        else if ((s = after(op, "rc."))) ok = recode_ops(s);
        else if ((s = after(op, "raw384."))) ok = raw_ops<384>(s);
        else if ((s = after(op, "raw256."))) ok = raw_ops<256>(s);
        else if ((s = after(op, "raw128."))) ok = raw_ops<128>(s);
#ifdef HAVE_X86_ASM
        else if ((s = after(op, "asm."))) ok = asm_ops(s);
#endif
        if (!ok) die("unknown op", op);
        putchar('\n');
    }
    fflush(stdout);
    return 0;
}
