// C20 hosted driver: (a) system-call bracket for strace, (b) writable-state snapshot, (c) multi-threaded re-entrancy run.
//   --syscalls N SEED            run N operations of every family between two marker writes
//   --snapshot FILE N SEED       FILE: lines "hexaddr size name" of the library's writable symbols; compare before/after workload
//   --threads T N SEED           T threads x N operations on private outputs sharing const inputs; compare with sequential replay
//   --roinputs T N SEED          the shared inputs live in pages made read-only after initialisation: every family N times sequentially,
//                                then T threads; a write to an input faults and is reported with the family in flight
// In every mode the shared inputs are byte-snapshotted after initialisation and compared after the workload (INPUT-CHANGED lines):
// the library must not write to objects it receives as const inputs (they may be shared between concurrent calls).
#include <signal.h>
#include <stddef.h>
#include <sys/mman.h>
#include <pthread.h>
#include <sched.h>
#include <stdint.h>
#include <stdio.h>
#include <stdlib.h>
#include <string.h>
#include <unistd.h>

#include "bls12_381/bls12_381.h"
#include "wkdibe/wkdibe.h"
#include "lqibe/lqibe.h"

#define NFAM 15
static const char* FAM[NFAM] = {"pairing", "g1-arith", "g2-arith", "gt-exp", "encoding", "hashing", "wkdibe-keys-enc-dec", "wkdibe-sign-verify", "wkdibe-marshal", "lqibe", "prepared-pairing", "pairing-sum",
                                "wkdibe-precomputed-adjust", "wkdibe-nondelegable", "wkdibe-unmarshalled-objects"};
#define L 4
static thread_local int t_fam = -1;

// per-thread PRNG (the library callback has no context argument)
static thread_local uint64_t t_rng;
static void prng(void* buf, size_t n) {
    uint8_t* b = (uint8_t*) buf;
    for (size_t i = 0; i < n; i++) { t_rng ^= t_rng << 13; t_rng ^= t_rng >> 7; t_rng ^= t_rng << 17; b[i] = (uint8_t) ((t_rng * 0x2545F4914F6CDD1Dull) >> 56); }
}
static void hashf(void* out, size_t outlen, const void* in, size_t inlen) {
    uint8_t* o = (uint8_t*) out; const uint8_t* p = (const uint8_t*) in;
    for (size_t i = 0; i < outlen; i++) o[i] = (uint8_t) i;
    if (outlen) for (size_t i = 0; i < inlen; i++) o[i % outlen] ^= (uint8_t) (p[i] * 7 + i);
}
static uint64_t fnv(uint64_t h, const void* p, size_t n) { const uint8_t* b = (const uint8_t*) p; for (size_t i = 0; i < n; i++) { h ^= b[i]; h *= 0x100000001b3ull; } return h; }

// ---------------------------------------------------------------- shared, read-only after init
struct Shared {
    embedded_pairing_wkdibe_params_t p; embedded_pairing_wkdibe_g1_t h[L]; embedded_pairing_wkdibe_masterkey_t m;
    embedded_pairing_wkdibe_secretkey_t sk; embedded_pairing_wkdibe_freeslot_t b[L];
    embedded_pairing_wkdibe_secretkey_t skfree; embedded_pairing_wkdibe_freeslot_t bfree[L];      // all slots free
    embedded_pairing_wkdibe_secretkey_t ndsk; embedded_pairing_wkdibe_freeslot_t ndb[L];          // nondelegable_qualifykey(skfree, alf)
    embedded_pairing_wkdibe_attribute_t at[1]; embedded_pairing_wkdibe_attributelist_t al;
    // lists with identities >= r, >= 2r, and hidden entries carrying arbitrary bits: legal inputs, and the ones a library that
    // "normalises" its inputs in place would write to
    embedded_pairing_wkdibe_attribute_t atf[3]; embedded_pairing_wkdibe_attributelist_t alf;
    embedded_pairing_wkdibe_attribute_t att[3]; embedded_pairing_wkdibe_attributelist_t alt;
    embedded_pairing_wkdibe_precomputed_t pref;
    embedded_pairing_wkdibe_scalar_t msg;                                                          // message scalar >= r
    embedded_pairing_core_bigint_256_t kbig;                                                       // group scalar >= r (2^256-1)
    embedded_pairing_bls12_381_g2prepared_t prep; embedded_pairing_bls12_381_g2affine_t q; embedded_pairing_bls12_381_g1affine_t pt;
    embedded_pairing_bls12_381_fq12_t gt;
    embedded_pairing_lqibe_params_t lp; embedded_pairing_lqibe_masterkey_t lm; embedded_pairing_lqibe_id_t id; embedded_pairing_lqibe_secretkey_t lsk;
    embedded_pairing_lqibe_masterkey_t lmbig;                                                      // master scalar >= r (unmarshalled)
    embedded_pairing_lqibe_idhash_t ih;
    uint8_t params_bytes[4096]; size_t params_len;
    uint8_t hashbytes[96];
    // objects that went through marshal/unmarshal (normalised representatives), of TWO hierarchies: operations alternate between them,
    // so state keyed on "the parameters seen last" is exercised with different values at the same time
    embedded_pairing_wkdibe_params_t pu[2]; embedded_pairing_wkdibe_g1_t hu[2][L];
    embedded_pairing_wkdibe_secretkey_t sku[2]; embedded_pairing_wkdibe_freeslot_t bu[2][L];
    embedded_pairing_wkdibe_masterkey_t mu[2];
};
static Shared* g_S;
static Shared* g_snap;
static size_t g_maplen;
#define S (*g_S)

struct Field { const char* name; size_t off, len; };
#define FLD(f) { #f, offsetof(Shared, f), sizeof(((Shared*) 0)->f) }
static const Field FIELDS[] = { FLD(p), FLD(h), FLD(m), FLD(sk), FLD(b), FLD(skfree), FLD(bfree), FLD(ndsk), FLD(ndb), FLD(at), FLD(al), FLD(atf), FLD(alf), FLD(att), FLD(alt), FLD(pref), FLD(msg), FLD(kbig),
                                FLD(prep), FLD(q), FLD(pt), FLD(gt), FLD(lp), FLD(lm), FLD(id), FLD(lsk), FLD(lmbig), FLD(ih), FLD(params_bytes), FLD(params_len), FLD(hashbytes), FLD(pu), FLD(hu), FLD(sku), FLD(bu), FLD(mu) };

static int check_inputs(const char* phase) {
    int changed = 0;
    const uint8_t* a = (const uint8_t*) g_S; const uint8_t* b = (const uint8_t*) g_snap;
    for (size_t i = 0; i < sizeof FIELDS / sizeof FIELDS[0]; i++) {
        const Field& f = FIELDS[i];
        if (memcmp(a + f.off, b + f.off, f.len) != 0) {
            size_t o = 0; while (a[f.off + o] == b[f.off + o]) o++;
            printf("INPUT-CHANGED phase=%s field=%s offset=%zu\n", phase, f.name, o);
            changed++;
        }
    }
    return changed;
}

static void on_write_fault(int sig, siginfo_t* si, void* ctx) {
    (void) sig; (void) ctx;
    char msg[200];
    const char* fam = (t_fam >= 0 && t_fam < NFAM) ? FAM[t_fam] : "init";
    uintptr_t a = (uintptr_t) si->si_addr, base = (uintptr_t) g_S;
    const char* fld = "outside-shared-inputs";
    if (a >= base && a < base + sizeof(Shared)) for (size_t i = 0; i < sizeof FIELDS / sizeof FIELDS[0]; i++) if (a - base >= FIELDS[i].off && a - base < FIELDS[i].off + FIELDS[i].len) fld = FIELDS[i].name;
    int n = snprintf(msg, sizeof msg, "\nWRITE-TO-SHARED-INPUT family=%s field=%s\n", fam, fld);
    ssize_t r = write(1, msg, (size_t) n); (void) r;
    _exit(78);
}

// Every shared object is saved the moment it has been created (written as an OUTPUT, or filled in by the driver) and put back
// at the end of the initialisation: later initialisation steps hand some of them to the library as const inputs, and a library that
// writes to its inputs on first use (caching a normalised representative, say) would otherwise do that here, before the reference
// snapshot exists, and look stateless ever after.
static Shared* g_pristine;
#define KEEP(f) memcpy((uint8_t*) g_pristine + offsetof(Shared, f), (const uint8_t*) g_S + offsetof(Shared, f), sizeof(S.f))

static void init_shared(uint64_t seed) {
    t_rng = seed | 1;
    size_t pg = (size_t) sysconf(_SC_PAGESIZE);
    g_maplen = ((sizeof(Shared) + pg - 1) / pg) * pg;
    g_S = (Shared*) mmap(NULL, g_maplen, PROT_READ | PROT_WRITE, MAP_PRIVATE | MAP_ANONYMOUS, -1, 0);
    g_snap = (Shared*) malloc(sizeof(Shared));
    g_pristine = (Shared*) calloc(1, sizeof(Shared));
    if (g_S == MAP_FAILED || !g_snap || !g_pristine) { fprintf(stderr, "mmap failed\n"); exit(3); }
    memset(&S, 0, sizeof S);
    S.p.h = S.h; S.sk.b = S.b; S.skfree.b = S.bfree; S.ndsk.b = S.ndb;
    embedded_pairing_wkdibe_setup(&S.p, &S.m, L, true, prng);
    KEEP(p); KEEP(h); KEEP(m);
    memset(&S.at[0], 0, sizeof S.at[0]); S.at[0].idx = 1; prng(&S.at[0].id, 32);
    S.al.attrs = S.at; S.al.length = 1; S.al.omitAllFromKeysUnlessPresent = false;
    KEEP(at); KEEP(al);
    embedded_pairing_wkdibe_keygen(&S.sk, &S.p, &S.m, &S.al, prng);
    KEEP(sk); KEEP(b);
    embedded_pairing_wkdibe_attributelist_t none; none.attrs = NULL; none.length = 0; none.omitAllFromKeysUnlessPresent = false;
    embedded_pairing_wkdibe_keygen(&S.skfree, &S.p, &S.m, &none, prng);
    KEEP(skfree); KEEP(bfree);
    memset(S.atf, 0, sizeof S.atf); memset(S.att, 0, sizeof S.att);
    // from: slot 0 = 2^256-1 (>= 2r), slot 2 = random with the top bits set (>= r), slot 3 hidden with all-ones id bits
    S.atf[0].idx = 0; memset(&S.atf[0].id, 0xff, 32);
    S.atf[1].idx = 2; prng(&S.atf[1].id, 32); ((uint8_t*) &S.atf[1].id)[31] |= 0xc0;
    S.atf[2].idx = 3; memset(&S.atf[2].id, 0xff, 32); S.atf[2].omitFromKeys = true;
    S.alf.attrs = S.atf; S.alf.length = 3; S.alf.omitAllFromKeysUnlessPresent = false;
    // to: slot 0 = another value >= r, slot 1 small, slot 2 hidden carrying the bits slot 2 has in `from`
    S.att[0].idx = 0; memset(&S.att[0].id, 0xfe, 32);
    S.att[1].idx = 1; ((uint8_t*) &S.att[1].id)[0] = 7;
    S.att[2].idx = 2; memcpy(&S.att[2].id, &S.atf[1].id, 32); S.att[2].omitFromKeys = true;
    S.alt.attrs = S.att; S.alt.length = 3; S.alt.omitAllFromKeysUnlessPresent = false;
    KEEP(atf); KEEP(alf); KEEP(att); KEEP(alt);
    embedded_pairing_wkdibe_precompute(&S.pref, &S.p, &S.alf);
    KEEP(pref);
    embedded_pairing_wkdibe_nondelegable_qualifykey(&S.ndsk, &S.p, &S.skfree, &S.alf);
    KEEP(ndsk); KEEP(ndb);
    memset(&S.msg, 0xff, sizeof S.msg);
    memset(&S.kbig, 0xff, sizeof S.kbig);
    KEEP(msg); KEEP(kbig);
    embedded_pairing_bls12_381_gt_multiply(&S.gt, embedded_pairing_bls12_381_gt_generator, (embedded_pairing_core_bigint_256_t*) &S.at[0].id);
    KEEP(gt);
    { uint8_t mb[32]; memset(mb, 0xff, sizeof mb); embedded_pairing_lqibe_masterkey_unmarshal(&S.lmbig, mb, true, false); }
    KEEP(lmbig);
    prng(S.hashbytes, sizeof S.hashbytes);
    KEEP(hashbytes);
    embedded_pairing_bls12_381_g2_t q; embedded_pairing_bls12_381_g2_random(&q, prng);
    embedded_pairing_bls12_381_g2affine_from_projective(&S.q, &q);
    KEEP(q);
    embedded_pairing_bls12_381_g2prepared_prepare(&S.prep, &S.q);
    KEEP(prep);
    embedded_pairing_bls12_381_g1_t g; embedded_pairing_bls12_381_g1_random(&g, prng);
    embedded_pairing_bls12_381_g1affine_from_projective(&S.pt, &g);
    KEEP(pt);
    embedded_pairing_lqibe_setup(&S.lp, &S.lm, prng);
    KEEP(lp); KEEP(lm);
    prng(S.ih.hash, sizeof S.ih.hash);
    KEEP(ih);
    embedded_pairing_lqibe_compute_id_from_hash(&S.id, &S.ih);
    KEEP(id);
    embedded_pairing_lqibe_keygen(&S.lsk, &S.lm, &S.id);
    KEEP(lsk);
    S.params_len = embedded_pairing_wkdibe_params_get_marshalled_length(&S.p, true);
    embedded_pairing_wkdibe_params_marshal(S.params_bytes, &S.p, true);
    KEEP(params_len); KEEP(params_bytes);
    for (int w = 0; w < 2; w++) {
        // hierarchy 0 is S.p itself, hierarchy 1 a second setup; both reach the shared area only through marshal + unmarshal
        embedded_pairing_wkdibe_params_t p2; embedded_pairing_wkdibe_g1_t h2[L]; p2.h = h2; embedded_pairing_wkdibe_masterkey_t m2;
        embedded_pairing_wkdibe_secretkey_t k2; embedded_pairing_wkdibe_freeslot_t b2[L]; k2.b = b2;
        const embedded_pairing_wkdibe_params_t* src = &S.p; const embedded_pairing_wkdibe_masterkey_t* msrc = &S.m; const embedded_pairing_wkdibe_secretkey_t* ksrc = &S.sk;
        if (w == 1) { embedded_pairing_wkdibe_setup(&p2, &m2, L, true, prng); embedded_pairing_wkdibe_keygen(&k2, &p2, &m2, &S.al, prng); src = &p2; msrc = &m2; ksrc = &k2; }
        static uint8_t buf[8192]; bool comp = w == 0;
        S.pu[w].h = S.hu[w]; S.sku[w].b = S.bu[w];
        embedded_pairing_wkdibe_params_marshal(buf, src, comp);
        bool ok = embedded_pairing_wkdibe_params_set_length(&S.pu[w], buf, embedded_pairing_wkdibe_params_get_marshalled_length(src, comp), comp) == L && embedded_pairing_wkdibe_params_unmarshal(&S.pu[w], buf, comp, true);
        embedded_pairing_wkdibe_secretkey_marshal(buf, ksrc, comp);
        ok = ok && embedded_pairing_wkdibe_secretkey_set_length(&S.sku[w], buf, embedded_pairing_wkdibe_secretkey_get_marshalled_length(ksrc, comp), comp) >= 0 && embedded_pairing_wkdibe_secretkey_unmarshal(&S.sku[w], buf, comp, true);
        embedded_pairing_wkdibe_masterkey_marshal(buf, msrc, comp);
        ok = ok && embedded_pairing_wkdibe_masterkey_unmarshal(&S.mu[w], buf, comp, true);
        if (!ok) { fprintf(stderr, "init: unmarshal of own output failed\n"); exit(3); }
    }
    KEEP(pu); KEEP(hu); KEEP(sku); KEEP(bu); KEEP(mu);
    // put every object back as it was when created
    memcpy(g_S, g_pristine, sizeof(Shared));
    memcpy(g_snap, g_S, sizeof(Shared));
}
static void restore_shared(void) { memcpy(g_S, g_snap, sizeof(Shared)); }
static void protect_shared(void) {
    struct sigaction sa; memset(&sa, 0, sizeof sa); sa.sa_sigaction = on_write_fault; sa.sa_flags = SA_SIGINFO;
    sigaction(SIGSEGV, &sa, NULL); sigaction(SIGBUS, &sa, NULL);
    if (mprotect(g_S, g_maplen, PROT_READ) != 0) { fprintf(stderr, "mprotect failed\n"); exit(3); }
}

// ---------------------------------------------------------------- one operation on thread-private outputs
static uint64_t run_op(int fam, uint64_t seed) {
    t_rng = seed * 0x9e3779b97f4a7c15ull | 1;
    t_fam = fam;
    uint64_t d = 0xcbf29ce484222325ull;
    embedded_pairing_core_bigint_256_t k; prng(&k, sizeof k);
    switch (fam) {
    case 0: {
        embedded_pairing_bls12_381_g1_t a; embedded_pairing_bls12_381_g1affine_t aa; embedded_pairing_bls12_381_fq12_t e;
        embedded_pairing_bls12_381_g1_multiply_affine(&a, embedded_pairing_bls12_381_g1affine_generator, &k);
        embedded_pairing_bls12_381_g1affine_from_projective(&aa, &a);
        embedded_pairing_bls12_381_pairing(&e, &aa, &S.q);
        d = fnv(d, &e, sizeof e); break;
    }
    case 1: {
        embedded_pairing_bls12_381_g1_t a, b; embedded_pairing_bls12_381_g1affine_t aa;
        embedded_pairing_bls12_381_g1_multiply_affine(&a, &S.pt, &k);
        embedded_pairing_bls12_381_g1_double(&b, &a); embedded_pairing_bls12_381_g1_add(&b, &b, &a); embedded_pairing_bls12_381_g1_add_mixed(&b, &b, &S.pt);
        embedded_pairing_bls12_381_g1affine_from_projective(&aa, &b);
        d = fnv(d, &aa.x, sizeof aa.x); d = fnv(d, &aa.y, sizeof aa.y);
        embedded_pairing_bls12_381_g1_multiply_affine(&a, &S.pt, &S.kbig);      // shared scalar >= r
        embedded_pairing_bls12_381_g1affine_from_projective(&aa, &a);
        d = fnv(d, &aa.x, sizeof aa.x); break;
    }
    case 2: {
        embedded_pairing_bls12_381_g2_t a, b; embedded_pairing_bls12_381_g2affine_t aa;
        embedded_pairing_bls12_381_g2_multiply_affine(&a, &S.q, &k);
        embedded_pairing_bls12_381_g2_double(&b, &a); embedded_pairing_bls12_381_g2_add(&b, &b, &a);
        embedded_pairing_bls12_381_g2affine_from_projective(&aa, &b);
        d = fnv(d, &aa.x, sizeof aa.x); d = fnv(d, &aa.y, sizeof aa.y);
        embedded_pairing_bls12_381_g2_multiply_affine(&a, &S.q, &S.kbig);
        embedded_pairing_bls12_381_g2affine_from_projective(&aa, &a);
        d = fnv(d, &aa.x, sizeof aa.x); break;
    }
    case 3: {
        embedded_pairing_bls12_381_fq12_t e, f; embedded_pairing_core_bigint_256_t y;
        embedded_pairing_bls12_381_gt_multiply(&e, embedded_pairing_bls12_381_gt_generator, &k);
        embedded_pairing_bls12_381_gt_multiply_random(&f, &y, &e, prng);
        embedded_pairing_bls12_381_gt_add(&e, &e, &f); embedded_pairing_bls12_381_gt_double(&e, &e);
        d = fnv(d, &e, sizeof e); d = fnv(d, &y, sizeof y);
        embedded_pairing_bls12_381_gt_multiply(&e, &S.gt, &S.kbig); embedded_pairing_bls12_381_gt_negate(&f, &S.gt);
        d = fnv(d, &e, sizeof e); d = fnv(d, &f, sizeof f); break;
    }
    case 4: {
        embedded_pairing_bls12_381_g2_t a; embedded_pairing_bls12_381_g2affine_t aa, bb; uint8_t buf[192];
        embedded_pairing_bls12_381_g2_multiply_affine(&a, embedded_pairing_bls12_381_g2affine_generator, &k);
        embedded_pairing_bls12_381_g2affine_from_projective(&aa, &a);
        bool c = (seed & 1) != 0;
        embedded_pairing_bls12_381_g2_marshal(buf, &aa, c);
        bool ok = embedded_pairing_bls12_381_g2_unmarshal(&bb, buf, c, true);
        d = fnv(d, buf, c ? 96 : 192); d = fnv(d, &ok, 1); d = fnv(d, &bb.x, sizeof bb.x); break;
    }
    case 5: {
        uint8_t h[96]; prng(h, sizeof h);
        { embedded_pairing_bls12_381_g1affine_t sa; embedded_pairing_bls12_381_g2affine_t sb; embedded_pairing_core_bigint_256_t sz; embedded_pairing_lqibe_id_t sid;
          embedded_pairing_bls12_381_g1affine_from_hash(&sa, S.hashbytes); embedded_pairing_bls12_381_g2affine_from_hash(&sb, S.hashbytes); embedded_pairing_bls12_381_zp_from_hash(&sz, S.hashbytes);
          embedded_pairing_lqibe_compute_id_from_hash(&sid, &S.ih);
          d = fnv(d, &sa.x, sizeof sa.x); d = fnv(d, &sb.x, sizeof sb.x); d = fnv(d, &sz, sizeof sz); d = fnv(d, &sid.q.x, sizeof sid.q.x); }
        embedded_pairing_bls12_381_g1affine_t a; embedded_pairing_bls12_381_g2affine_t b; embedded_pairing_core_bigint_256_t z; embedded_pairing_lqibe_id_t id; embedded_pairing_lqibe_idhash_t ih;
        embedded_pairing_bls12_381_g1affine_from_hash(&a, h); embedded_pairing_bls12_381_g2affine_from_hash(&b, h); embedded_pairing_bls12_381_zp_from_hash(&z, h);
        memcpy(ih.hash, h, 48); embedded_pairing_lqibe_compute_id_from_hash(&id, &ih);
        d = fnv(d, &a.x, sizeof a.x); d = fnv(d, &b.y, sizeof b.y); d = fnv(d, &z, sizeof z); d = fnv(d, &id.q.x, sizeof id.q.x); break;
    }
    case 6: {
        embedded_pairing_wkdibe_secretkey_t sk, q; embedded_pairing_wkdibe_freeslot_t b1[L], b2[L]; sk.b = b1; q.b = b2;
        embedded_pairing_wkdibe_keygen(&sk, &S.p, &S.m, &S.al, prng);
        embedded_pairing_wkdibe_qualifykey(&q, &S.p, &sk, &S.al, prng);
        embedded_pairing_wkdibe_gt_t msg, dec; embedded_pairing_wkdibe_random_gt(&msg, prng);
        embedded_pairing_wkdibe_ciphertext_t ct; embedded_pairing_wkdibe_encrypt(&ct, &msg, &S.p, &S.al, prng);
        embedded_pairing_wkdibe_decrypt(&dec, &ct, &q);
        bool ok = embedded_pairing_bls12_381_gt_equal(&dec, &msg);
        embedded_pairing_wkdibe_decrypt(&dec, &ct, &S.sk);
        bool ok2 = embedded_pairing_bls12_381_gt_equal(&dec, &msg);
        d = fnv(d, &ct, sizeof ct); d = fnv(d, &ok, 1); d = fnv(d, &ok2, 1); d = fnv(d, &q.a0, sizeof q.a0);
        // call forms in which an argument aliases the output (no operand is marked restrict): whatever such a call computes, it is a
        // function of its arguments - the same on every thread, and it leaves no trace in the library
        embedded_pairing_wkdibe_ciphertext_t ci; ci.a = msg; embedded_pairing_wkdibe_encrypt(&ci, &ci.a, &S.p, &S.al, prng);
        embedded_pairing_wkdibe_gt_t dm = ct.a; embedded_pairing_wkdibe_ciphertext_t cj = ct; embedded_pairing_wkdibe_decrypt(&cj.a, &cj, &q); (void) dm;
        d = fnv(d, &ci, sizeof ci); d = fnv(d, &cj.a, sizeof cj.a); break;
    }
    case 7: {
        embedded_pairing_wkdibe_signature_t sg; embedded_pairing_wkdibe_sign(&sg, &S.p, &S.sk, &S.al, &k, prng);
        bool ok = embedded_pairing_wkdibe_verify(&S.p, &S.al, &sg, &k);
        d = fnv(d, &sg, sizeof sg); d = fnv(d, &ok, 1);
        // shared message >= r, list with ids >= r extending the all-free key
        embedded_pairing_wkdibe_attribute_t a2[2]; a2[0] = S.atf[0]; a2[1] = S.atf[1];
        embedded_pairing_wkdibe_attributelist_t l2; l2.attrs = a2; l2.length = 2; l2.omitAllFromKeysUnlessPresent = false;
        embedded_pairing_wkdibe_sign(&sg, &S.p, &S.skfree, &l2, &S.msg, prng);
        bool ok3 = embedded_pairing_wkdibe_verify(&S.p, &l2, &sg, &S.msg);
        d = fnv(d, &sg, sizeof sg); d = fnv(d, &ok3, 1); break;
    }
    case 8: {
        embedded_pairing_wkdibe_params_t p; embedded_pairing_wkdibe_g1_t h[L]; p.h = h;
        int n = embedded_pairing_wkdibe_params_set_length(&p, S.params_bytes, S.params_len, true);
        bool ok = n == L && embedded_pairing_wkdibe_params_unmarshal(&p, S.params_bytes, true, (seed & 1) != 0);
        uint8_t buf[4096]; embedded_pairing_wkdibe_secretkey_marshal(buf, &S.sk, false);
        d = fnv(d, &ok, 1); d = fnv(d, &p.pairing, sizeof p.pairing); d = fnv(d, buf, embedded_pairing_wkdibe_secretkey_get_marshalled_length(&S.sk, false));
        // every shared object kind is marshalled from the shared (const) object itself, in both forms: marshalling is a read
        bool c = (seed & 2) != 0;
        embedded_pairing_wkdibe_params_marshal(buf, &S.p, c); d = fnv(d, buf, embedded_pairing_wkdibe_params_get_marshalled_length(&S.p, c));
        embedded_pairing_wkdibe_masterkey_marshal(buf, &S.m, c); d = fnv(d, buf, embedded_pairing_wkdibe_masterkey_get_marshalled_length(c));
        embedded_pairing_wkdibe_secretkey_marshal(buf, &S.skfree, c); d = fnv(d, buf, embedded_pairing_wkdibe_secretkey_get_marshalled_length(&S.skfree, c));
        embedded_pairing_wkdibe_secretkey_marshal(buf, &S.ndsk, !c); d = fnv(d, buf, embedded_pairing_wkdibe_secretkey_get_marshalled_length(&S.ndsk, !c));
        embedded_pairing_wkdibe_params_marshal(buf, &S.pu[seed & 1], !c); d = fnv(d, buf, embedded_pairing_wkdibe_params_get_marshalled_length(&S.pu[seed & 1], !c));
        embedded_pairing_lqibe_params_marshal(buf, &S.lp, c); d = fnv(d, buf, embedded_pairing_lqibe_params_get_marshalled_length(c));
        embedded_pairing_lqibe_id_marshal(buf, &S.id, c); d = fnv(d, buf, embedded_pairing_lqibe_id_get_marshalled_length(c));
        embedded_pairing_lqibe_secretkey_marshal(buf, &S.lsk, c); d = fnv(d, buf, embedded_pairing_lqibe_secretkey_get_marshalled_length(c));
        embedded_pairing_lqibe_masterkey_marshal(buf, &S.lm, c); d = fnv(d, buf, embedded_pairing_lqibe_masterkey_get_marshalled_length(c));
        break;
    }
    case 9: {
        embedded_pairing_lqibe_ciphertext_t ct; uint8_t k1[32], k2[32];
        embedded_pairing_lqibe_encrypt(&ct, k1, 32, &S.lp, &S.id, hashf, prng);
        embedded_pairing_lqibe_decrypt(k2, 32, &ct, &S.lsk, &S.id, hashf);
        bool ok = memcmp(k1, k2, 32) == 0;
        d = fnv(d, k1, 32); d = fnv(d, &ok, 1);
        embedded_pairing_lqibe_secretkey_t sk2; embedded_pairing_lqibe_keygen(&sk2, &S.lmbig, &S.id);       // master scalar >= r
        uint8_t mb[32]; embedded_pairing_lqibe_masterkey_marshal(mb, &S.lmbig, true);
        d = fnv(d, &sk2.sq.x, sizeof sk2.sq.x); d = fnv(d, &sk2.sq.y, sizeof sk2.sq.y); d = fnv(d, mb, 32); break;
    }
    case 12: {
        embedded_pairing_wkdibe_precomputed_t pre, pre2;
        embedded_pairing_wkdibe_precompute(&pre, &S.p, &S.alf);
        embedded_pairing_wkdibe_adjust_precomputed(&pre, &S.p, &S.alf, &S.alt);
        pre2 = S.pref; embedded_pairing_wkdibe_adjust_precomputed(&pre2, &S.p, &S.alf, &S.alt);
        embedded_pairing_wkdibe_gt_t msg; embedded_pairing_wkdibe_random_gt(&msg, prng);
        embedded_pairing_wkdibe_ciphertext_t ct; embedded_pairing_wkdibe_encrypt_precomputed(&ct, &msg, &S.p, &S.pref, prng);
        embedded_pairing_wkdibe_signature_t sg; embedded_pairing_wkdibe_sign_precomputed(&sg, &S.p, &S.ndsk, NULL, &S.pref, &S.msg, prng);
        bool ok = embedded_pairing_wkdibe_verify_precomputed(&S.p, &S.pref, &sg, &S.msg);
        d = fnv(d, &pre, sizeof pre); d = fnv(d, &pre2, sizeof pre2); d = fnv(d, &ct, sizeof ct); d = fnv(d, &sg, sizeof sg); d = fnv(d, &ok, 1); break;
    }
    case 13: {
        embedded_pairing_wkdibe_secretkey_t a, q, rs; embedded_pairing_wkdibe_freeslot_t b1[L], b2[L], b3[L]; a.b = b1; q.b = b2; rs.b = b3;
        embedded_pairing_wkdibe_nondelegable_keygen(&a, &S.p, &S.m, &S.alf);
        embedded_pairing_wkdibe_nondelegable_qualifykey(&q, &S.p, &S.skfree, &S.alf);
        embedded_pairing_wkdibe_adjust_nondelegable(&q, &S.skfree, &S.alf, &S.alt);
        embedded_pairing_wkdibe_resamplekey(&rs, &S.p, &S.pref, &S.ndsk, (seed & 1) != 0, prng);
        embedded_pairing_wkdibe_gt_t msg, dec; embedded_pairing_wkdibe_random_gt(&msg, prng);
        embedded_pairing_wkdibe_ciphertext_t ct; embedded_pairing_wkdibe_encrypt(&ct, &msg, &S.p, &S.alf, prng);
        embedded_pairing_wkdibe_decrypt(&dec, &ct, &S.ndsk);
        bool ok = embedded_pairing_bls12_381_gt_equal(&dec, &msg);
        embedded_pairing_wkdibe_decrypt_master(&dec, &ct, &S.m);
        bool ok2 = embedded_pairing_bls12_381_gt_equal(&dec, &msg);
        d = fnv(d, &a.a0, sizeof a.a0); d = fnv(d, &q.a0, sizeof q.a0); d = fnv(d, &q.l, sizeof q.l); d = fnv(d, &rs.a1, sizeof rs.a1); d = fnv(d, &ok, 1); d = fnv(d, &ok2, 1); break;
    }
    case 14: {
        int w = (int) (seed & 1);
        embedded_pairing_wkdibe_signature_t sg; embedded_pairing_wkdibe_sign(&sg, &S.pu[w], &S.sku[w], &S.al, &k, prng);
        bool ok = embedded_pairing_wkdibe_verify(&S.pu[w], &S.al, &sg, &k);
        bool cross = embedded_pairing_wkdibe_verify(&S.pu[1 - w], &S.al, &sg, &k);             // other hierarchy: must reject
        embedded_pairing_wkdibe_precomputed_t pre; embedded_pairing_wkdibe_precompute(&pre, &S.pu[w], &S.al);
        bool ok2 = embedded_pairing_wkdibe_verify_precomputed(&S.pu[w], &pre, &sg, &k);
        embedded_pairing_wkdibe_gt_t msg, dec; embedded_pairing_wkdibe_random_gt(&msg, prng);
        embedded_pairing_wkdibe_ciphertext_t ct; embedded_pairing_wkdibe_encrypt(&ct, &msg, &S.pu[w], &S.al, prng);
        embedded_pairing_wkdibe_decrypt(&dec, &ct, &S.sku[w]);
        bool ok3 = embedded_pairing_bls12_381_gt_equal(&dec, &msg);
        embedded_pairing_wkdibe_decrypt_master(&dec, &ct, &S.mu[w]);
        bool ok4 = embedded_pairing_bls12_381_gt_equal(&dec, &msg);
        embedded_pairing_wkdibe_secretkey_t q; embedded_pairing_wkdibe_freeslot_t b2[L]; q.b = b2;
        embedded_pairing_wkdibe_qualifykey(&q, &S.pu[w], &S.sku[w], &S.al, prng);
        d = fnv(d, &sg, sizeof sg); d = fnv(d, &ok, 1); d = fnv(d, &cross, 1); d = fnv(d, &ok2, 1); d = fnv(d, &ct, sizeof ct); d = fnv(d, &ok3, 1); d = fnv(d, &ok4, 1); d = fnv(d, &q.a0, sizeof q.a0);
        if (!ok || cross || !ok2 || !ok3 || !ok4) d ^= 0x5555;   // still deterministic; a wrong verdict differs from the sequential replay only if it is schedule-dependent
        break;
    }
    case 10: {
        embedded_pairing_bls12_381_g1_t a; embedded_pairing_bls12_381_g1affine_t aa; embedded_pairing_bls12_381_fq12_t e;
        embedded_pairing_bls12_381_g1_multiply_affine(&a, &S.pt, &k);
        embedded_pairing_bls12_381_g1affine_from_projective(&aa, &a);
        embedded_pairing_bls12_381_prepared_pairing(&e, &aa, &S.prep);
        d = fnv(d, &e, sizeof e); break;
    }
    case 11: {
        embedded_pairing_bls12_381_affine_pair_t ap; embedded_pairing_bls12_381_prepared_pair_t pp; embedded_pairing_bls12_381_fq12_t e;
        ap.g1 = &S.pt; ap.g2 = (embedded_pairing_bls12_381_g2affine_t*) embedded_pairing_bls12_381_g2affine_generator;
        pp.g1 = (embedded_pairing_bls12_381_g1affine_t*) embedded_pairing_bls12_381_g1affine_generator; pp.g2 = &S.prep;
        embedded_pairing_bls12_381_pairing_sum(&e, &ap, 1, &pp, 1);
        d = fnv(d, &e, sizeof e); break;
    }
    default: break;
    }
    t_fam = -1;
    return d;
}

// ---------------------------------------------------------------- modes
static int mode_syscalls(int n, uint64_t seed) {
    init_shared(seed);
    uint64_t acc = 0;
    static const char b[] = "C20-MARK-BEGIN\n", e[] = "C20-MARK-END\n";
    ssize_t r = write(2, b, sizeof b - 1); (void) r;
    for (int i = 0; i < n; i++) for (int f = 0; f < NFAM; f++) acc ^= run_op(f, seed + (uint64_t) i * 131 + (uint64_t) f);
    r = write(2, e, sizeof e - 1); (void) r;
    int ic = check_inputs("sequential");
    printf("ops=%d digest=%016llx inputs_changed=%d\n", n * NFAM, (unsigned long long) acc, ic);
    return 0;
}

static int mode_snapshot(const char* file, int n, uint64_t seed) {
    FILE* f = fopen(file, "r");
    if (!f) { fprintf(stderr, "cannot open %s\n", file); return 3; }
    static struct { uintptr_t addr; size_t size; char name[200]; uint8_t* copy; } sym[256];
    int ns = 0; unsigned long a, s; char nm[200];
    while (ns < 256 && fscanf(f, "%lx %lu %199s", &a, &s, nm) == 3) { sym[ns].addr = a; sym[ns].size = s; strcpy(sym[ns].name, nm); ns++; }
    fclose(f);
    // static initialisers have run (we are in main): take the snapshot now
    for (int i = 0; i < ns; i++) { sym[i].copy = (uint8_t*) malloc(sym[i].size); memcpy(sym[i].copy, (void*) sym[i].addr, sym[i].size); }
    init_shared(seed);
    uint64_t acc = 0;
    for (int i = 0; i < n; i++) for (int fa = 0; fa < NFAM; fa++) acc ^= run_op(fa, seed + (uint64_t) i * 131 + (uint64_t) fa);
    int changed = 0;
    for (int i = 0; i < ns; i++) if (memcmp(sym[i].copy, (void*) sym[i].addr, sym[i].size) != 0) { printf("CHANGED %s size=%zu\n", sym[i].name, sym[i].size); changed++; }
    int ic = check_inputs("sequential");
    printf("symbols=%d changed=%d ops=%d digest=%016llx inputs_changed=%d\n", ns, changed, n * NFAM, (unsigned long long) acc, ic);
    return 0;
}

struct Rec { int fam; uint64_t seed, digest; uint64_t t0, t1; };
static uint64_t g_clock;
static pthread_barrier_t g_bar;
struct TArg { int id, n; uint64_t seed; Rec* recs; };

static void* worker(void* p) {
    TArg* a = (TArg*) p;
    pthread_barrier_wait(&g_bar);
    uint64_t x = a->seed * 77 + (uint64_t) a->id;
    for (int i = 0; i < a->n; i++) {
        Rec& r = a->recs[i];
        r.t0 = __atomic_fetch_add(&g_clock, 1, __ATOMIC_SEQ_CST);
        r.digest = run_op(r.fam, r.seed);
        r.t1 = __atomic_fetch_add(&g_clock, 1, __ATOMIC_SEQ_CST);
        x ^= x << 13; x ^= x >> 7; x ^= x << 17;
        if ((x & 7) == 0) sched_yield(); else if ((x & 15) == 1) usleep((useconds_t) (x >> 60));
    }
    return NULL;
}

static int mode_threads(int T, int n, uint64_t seed, bool ro) {
    init_shared(seed);
    if (ro) protect_shared();
    Rec* recs = (Rec*) calloc((size_t) T * (size_t) n, sizeof(Rec));
    uint64_t x = seed * 0x9e3779b97f4a7c15ull | 1;
    for (int t = 0; t < T; t++) for (int i = 0; i < n; i++) {
        x ^= x << 13; x ^= x >> 7; x ^= x << 17;
        recs[t * n + i].fam = (int) ((x >> 33) % NFAM);
        // few distinct seeds: different threads regularly run the very same operation at the same time
        recs[t * n + i].seed = seed + ((x >> 8) % 5);
    }
    // sequential replay first: expected digests
    uint64_t* expect = (uint64_t*) malloc(sizeof(uint64_t) * (size_t) T * (size_t) n);
    if (ro) for (int rep = 0; rep < 2; rep++) for (int f = 0; f < NFAM; f++) run_op(f, seed + (uint64_t) rep);     // every family at least twice
    for (int j = 0; j < T * n; j++) expect[j] = run_op(recs[j].fam, recs[j].seed);
    int ic = check_inputs("sequential");
    // start the concurrent phase from pristine inputs, so that a first-use write to an input happens while other threads read it
    if (!ro) restore_shared();
    pthread_barrier_init(&g_bar, NULL, (unsigned) T);
    pthread_t th[64]; TArg args[64];
    for (int t = 0; t < T; t++) { args[t].id = t; args[t].n = n; args[t].seed = seed; args[t].recs = recs + t * n; pthread_create(&th[t], NULL, worker, &args[t]); }
    for (int t = 0; t < T; t++) pthread_join(th[t], NULL);
    int bad = 0;
    for (int j = 0; j < T * n; j++) if (recs[j].digest != expect[j]) { if (bad < 5) printf("MISMATCH thread=%d op=%d family=%s seed=%llu\n", j / n, j % n, FAM[recs[j].fam], (unsigned long long) recs[j].seed); bad++; }
    // which operation pairs were actually observed overlapping in time
    static int overlap[NFAM][NFAM];
    long pairs = 0;
    for (int a = 0; a < T * n; a++) for (int b = a + 1; b < T * n; b++) {
        if (a / n == b / n) continue;
        if (recs[a].t0 < recs[b].t1 && recs[b].t0 < recs[a].t1) { overlap[recs[a].fam][recs[b].fam]++; overlap[recs[b].fam][recs[a].fam]++; pairs++; }
    }
    int distinct = 0;
    printf("overlap");
    for (int i = 0; i < NFAM; i++) for (int j = i; j < NFAM; j++) if (overlap[i][j]) { distinct++; printf(" %s+%s=%d", FAM[i], FAM[j], overlap[i][j]); }
    ic += check_inputs("concurrent");
    printf("\nthreads=%d ops=%d mismatches=%d overlapping_pairs=%ld distinct_family_pairs=%d inputs_changed=%d readonly=%d\n", T, T * n, bad, pairs, distinct, ic, (int) ro);
    return 0;
}

int main(int argc, char** argv) {
    if (argc >= 4 && !strcmp(argv[1], "--syscalls")) return mode_syscalls(atoi(argv[2]), strtoull(argv[3], NULL, 10));
    if (argc >= 5 && !strcmp(argv[1], "--snapshot")) return mode_snapshot(argv[2], atoi(argv[3]), strtoull(argv[4], NULL, 10));
    if (argc >= 5 && !strcmp(argv[1], "--threads")) return mode_threads(atoi(argv[2]), atoi(argv[3]), strtoull(argv[4], NULL, 10), false);
    if (argc >= 5 && !strcmp(argv[1], "--roinputs")) return mode_threads(atoi(argv[2]), atoi(argv[3]), strtoull(argv[4], NULL, 10), true);
    fprintf(stderr, "usage\n");
    return 3;
}
