// C20 hosted driver: (a) system-call bracket for strace, (b) writable-state snapshot, (c) multi-threaded re-entrancy run.
//   --syscalls N SEED            run N operations of every family between two marker writes
//   --snapshot FILE N SEED       FILE: lines "hexaddr size name" of the library's writable symbols; compare before/after workload
//   --threads T N SEED           T threads x N operations on private outputs sharing const inputs; compare with sequential replay
#include <pthread.h>
#include <sched.h>
#include <stdint.h>
#include <stdio.h>
#include <stdlib.h>
#include <string.h>
#include <unistd.h>

#include "bls12_381/bls12_381.h"
#include "wkdibe/wkdibe.h"
#include "lqibe/lqibe.h"

#define NFAM 12
static const char* FAM[NFAM] = {"pairing", "g1-arith", "g2-arith", "gt-exp", "encoding", "hashing", "wkdibe-keys-enc-dec", "wkdibe-sign-verify", "wkdibe-marshal", "lqibe", "prepared-pairing", "pairing-sum"};
#define L 3

// per-thread PRNG (the library callback has no context argument)
static thread_local uint64_t t_rng;
static void prng(void* buf, size_t n) {
    uint8_t* b = (uint8_t*) buf;
    for (size_t i = 0; i < n; i++) { t_rng ^= t_rng << 13; t_rng ^= t_rng >> 7; t_rng ^= t_rng << 17; b[i] = (uint8_t) ((t_rng * 0x2545F4914F6CDD1Dull) >> 56); }
}
static void hashf(void* out, size_t outlen, const void* in, size_t inlen) {
    uint8_t* o = (uint8_t*) out; const uint8_t* p = (const uint8_t*) in;
    for (size_t i = 0; i < outlen; i++) o[i] = (uint8_t) i;
    if (outlen) for (size_t i = 0; i < inlen; i++) o[i % outlen] ^= (uint8_t) (p[i] * 7 + i);
}
static uint64_t fnv(uint64_t h, const void* p, size_t n) { const uint8_t* b = (const uint8_t*) p; for (size_t i = 0; i < n; i++) { h ^= b[i]; h *= 0x100000001b3ull; } return h; }

// ---------------------------------------------------------------- shared, read-only after init
struct Shared {
    embedded_pairing_wkdibe_params_t p; embedded_pairing_wkdibe_g1_t h[L]; embedded_pairing_wkdibe_masterkey_t m;
    embedded_pairing_wkdibe_secretkey_t sk; embedded_pairing_wkdibe_freeslot_t b[L];
    embedded_pairing_wkdibe_attribute_t at[1]; embedded_pairing_wkdibe_attributelist_t al;
    embedded_pairing_bls12_381_g2prepared_t prep; embedded_pairing_bls12_381_g2affine_t q; embedded_pairing_bls12_381_g1affine_t pt;
    embedded_pairing_lqibe_params_t lp; embedded_pairing_lqibe_masterkey_t lm; embedded_pairing_lqibe_id_t id; embedded_pairing_lqibe_secretkey_t lsk;
    uint8_t params_bytes[4096]; size_t params_len;
};
static Shared S;

static void init_shared(uint64_t seed) {
    t_rng = seed | 1;
    memset(&S, 0, sizeof S);
    S.p.h = S.h; S.sk.b = S.b;
    embedded_pairing_wkdibe_setup(&S.p, &S.m, L, true, prng);
    memset(&S.at[0], 0, sizeof S.at[0]); S.at[0].idx = 1; prng(&S.at[0].id, 32);
    S.al.attrs = S.at; S.al.length = 1; S.al.omitAllFromKeysUnlessPresent = false;
    embedded_pairing_wkdibe_keygen(&S.sk, &S.p, &S.m, &S.al, prng);
    embedded_pairing_bls12_381_g2_t q; embedded_pairing_bls12_381_g2_random(&q, prng);
    embedded_pairing_bls12_381_g2affine_from_projective(&S.q, &q);
    embedded_pairing_bls12_381_g2prepared_prepare(&S.prep, &S.q);
    embedded_pairing_bls12_381_g1_t g; embedded_pairing_bls12_381_g1_random(&g, prng);
    embedded_pairing_bls12_381_g1affine_from_projective(&S.pt, &g);
    embedded_pairing_lqibe_setup(&S.lp, &S.lm, prng);
    embedded_pairing_lqibe_idhash_t ih; prng(ih.hash, sizeof ih.hash);
    embedded_pairing_lqibe_compute_id_from_hash(&S.id, &ih);
    embedded_pairing_lqibe_keygen(&S.lsk, &S.lm, &S.id);
    S.params_len = embedded_pairing_wkdibe_params_get_marshalled_length(&S.p, true);
    embedded_pairing_wkdibe_params_marshal(S.params_bytes, &S.p, true);
}

// ---------------------------------------------------------------- one operation on thread-private outputs
static uint64_t run_op(int fam, uint64_t seed) {
    t_rng = seed * 0x9e3779b97f4a7c15ull | 1;
    uint64_t d = 0xcbf29ce484222325ull;
    embedded_pairing_core_bigint_256_t k; prng(&k, sizeof k);
    switch (fam) {
    case 0: {
        embedded_pairing_bls12_381_g1_t a; embedded_pairing_bls12_381_g1affine_t aa; embedded_pairing_bls12_381_fq12_t e;
        embedded_pairing_bls12_381_g1_multiply_affine(&a, embedded_pairing_bls12_381_g1affine_generator, &k);
        embedded_pairing_bls12_381_g1affine_from_projective(&aa, &a);
        embedded_pairing_bls12_381_pairing(&e, &aa, &S.q);
        d = fnv(d, &e, sizeof e); break;
    }
    case 1: {
        embedded_pairing_bls12_381_g1_t a, b; embedded_pairing_bls12_381_g1affine_t aa;
        embedded_pairing_bls12_381_g1_multiply_affine(&a, &S.pt, &k);
        embedded_pairing_bls12_381_g1_double(&b, &a); embedded_pairing_bls12_381_g1_add(&b, &b, &a); embedded_pairing_bls12_381_g1_add_mixed(&b, &b, &S.pt);
        embedded_pairing_bls12_381_g1affine_from_projective(&aa, &b);
        d = fnv(d, &aa.x, sizeof aa.x); d = fnv(d, &aa.y, sizeof aa.y); break;
    }
    case 2: {
        embedded_pairing_bls12_381_g2_t a, b; embedded_pairing_bls12_381_g2affine_t aa;
        embedded_pairing_bls12_381_g2_multiply_affine(&a, &S.q, &k);
        embedded_pairing_bls12_381_g2_double(&b, &a); embedded_pairing_bls12_381_g2_add(&b, &b, &a);
        embedded_pairing_bls12_381_g2affine_from_projective(&aa, &b);
        d = fnv(d, &aa.x, sizeof aa.x); d = fnv(d, &aa.y, sizeof aa.y); break;
    }
    case 3: {
        embedded_pairing_bls12_381_fq12_t e, f; embedded_pairing_core_bigint_256_t y;
        embedded_pairing_bls12_381_gt_multiply(&e, embedded_pairing_bls12_381_gt_generator, &k);
        embedded_pairing_bls12_381_gt_multiply_random(&f, &y, &e, prng);
        embedded_pairing_bls12_381_gt_add(&e, &e, &f); embedded_pairing_bls12_381_gt_double(&e, &e);
        d = fnv(d, &e, sizeof e); d = fnv(d, &y, sizeof y); break;
    }
    case 4: {
        embedded_pairing_bls12_381_g2_t a; embedded_pairing_bls12_381_g2affine_t aa, bb; uint8_t buf[192];
        embedded_pairing_bls12_381_g2_multiply_affine(&a, embedded_pairing_bls12_381_g2affine_generator, &k);
        embedded_pairing_bls12_381_g2affine_from_projective(&aa, &a);
        bool c = (seed & 1) != 0;
        embedded_pairing_bls12_381_g2_marshal(buf, &aa, c);
        bool ok = embedded_pairing_bls12_381_g2_unmarshal(&bb, buf, c, true);
        d = fnv(d, buf, c ? 96 : 192); d = fnv(d, &ok, 1); d = fnv(d, &bb.x, sizeof bb.x); break;
    }
    case 5: {
        uint8_t h[96]; prng(h, sizeof h);
        embedded_pairing_bls12_381_g1affine_t a; embedded_pairing_bls12_381_g2affine_t b; embedded_pairing_core_bigint_256_t z; embedded_pairing_lqibe_id_t id; embedded_pairing_lqibe_idhash_t ih;
        embedded_pairing_bls12_381_g1affine_from_hash(&a, h); embedded_pairing_bls12_381_g2affine_from_hash(&b, h); embedded_pairing_bls12_381_zp_from_hash(&z, h);
        memcpy(ih.hash, h, 48); embedded_pairing_lqibe_compute_id_from_hash(&id, &ih);
        d = fnv(d, &a.x, sizeof a.x); d = fnv(d, &b.y, sizeof b.y); d = fnv(d, &z, sizeof z); d = fnv(d, &id.q.x, sizeof id.q.x); break;
    }
    case 6: {
        embedded_pairing_wkdibe_secretkey_t sk, q; embedded_pairing_wkdibe_freeslot_t b1[L], b2[L]; sk.b = b1; q.b = b2;
        embedded_pairing_wkdibe_keygen(&sk, &S.p, &S.m, &S.al, prng);
        embedded_pairing_wkdibe_qualifykey(&q, &S.p, &sk, &S.al, prng);
        embedded_pairing_wkdibe_gt_t msg, dec; embedded_pairing_wkdibe_random_gt(&msg, prng);
        embedded_pairing_wkdibe_ciphertext_t ct; embedded_pairing_wkdibe_encrypt(&ct, &msg, &S.p, &S.al, prng);
        embedded_pairing_wkdibe_decrypt(&dec, &ct, &q);
        bool ok = embedded_pairing_bls12_381_gt_equal(&dec, &msg);
        embedded_pairing_wkdibe_decrypt(&dec, &ct, &S.sk);
        bool ok2 = embedded_pairing_bls12_381_gt_equal(&dec, &msg);
        d = fnv(d, &ct, sizeof ct); d = fnv(d, &ok, 1); d = fnv(d, &ok2, 1); d = fnv(d, &q.a0, sizeof q.a0); break;
    }
    case 7: {
        embedded_pairing_wkdibe_signature_t sg; embedded_pairing_wkdibe_sign(&sg, &S.p, &S.sk, &S.al, &k, prng);
        bool ok = embedded_pairing_wkdibe_verify(&S.p, &S.al, &sg, &k);
        d = fnv(d, &sg, sizeof sg); d = fnv(d, &ok, 1); break;
    }
    case 8: {
        embedded_pairing_wkdibe_params_t p; embedded_pairing_wkdibe_g1_t h[L]; p.h = h;
        int n = embedded_pairing_wkdibe_params_set_length(&p, S.params_bytes, S.params_len, true);
        bool ok = n == L && embedded_pairing_wkdibe_params_unmarshal(&p, S.params_bytes, true, (seed & 1) != 0);
        uint8_t buf[4096]; embedded_pairing_wkdibe_secretkey_marshal(buf, &S.sk, false);
        d = fnv(d, &ok, 1); d = fnv(d, &p.pairing, sizeof p.pairing); d = fnv(d, buf, embedded_pairing_wkdibe_secretkey_get_marshalled_length(&S.sk, false)); break;
    }
    case 9: {
        embedded_pairing_lqibe_ciphertext_t ct; uint8_t k1[32], k2[32];
        embedded_pairing_lqibe_encrypt(&ct, k1, 32, &S.lp, &S.id, hashf, prng);
        embedded_pairing_lqibe_decrypt(k2, 32, &ct, &S.lsk, &S.id, hashf);
        bool ok = memcmp(k1, k2, 32) == 0;
        d = fnv(d, k1, 32); d = fnv(d, &ok, 1); break;
    }
    case 10: {
        embedded_pairing_bls12_381_g1_t a; embedded_pairing_bls12_381_g1affine_t aa; embedded_pairing_bls12_381_fq12_t e;
        embedded_pairing_bls12_381_g1_multiply_affine(&a, &S.pt, &k);
        embedded_pairing_bls12_381_g1affine_from_projective(&aa, &a);
        embedded_pairing_bls12_381_prepared_pairing(&e, &aa, &S.prep);
        d = fnv(d, &e, sizeof e); break;
    }
    default: {
        embedded_pairing_bls12_381_affine_pair_t ap; embedded_pairing_bls12_381_prepared_pair_t pp; embedded_pairing_bls12_381_fq12_t e;
        ap.g1 = &S.pt; ap.g2 = (embedded_pairing_bls12_381_g2affine_t*) embedded_pairing_bls12_381_g2affine_generator;
        pp.g1 = (embedded_pairing_bls12_381_g1affine_t*) embedded_pairing_bls12_381_g1affine_generator; pp.g2 = &S.prep;
        embedded_pairing_bls12_381_pairing_sum(&e, &ap, 1, &pp, 1);
        d = fnv(d, &e, sizeof e); break;
    }
    }
    return d;
}

// ---------------------------------------------------------------- modes
static int mode_syscalls(int n, uint64_t seed) {
    init_shared(seed);
    uint64_t acc = 0;
    static const char b[] = "C20-MARK-BEGIN\n", e[] = "C20-MARK-END\n";
    ssize_t r = write(2, b, sizeof b - 1); (void) r;
    for (int i = 0; i < n; i++) for (int f = 0; f < NFAM; f++) acc ^= run_op(f, seed + (uint64_t) i * 131 + (uint64_t) f);
    r = write(2, e, sizeof e - 1); (void) r;
    printf("ops=%d digest=%016llx\n", n * NFAM, (unsigned long long) acc);
    return 0;
}

static int mode_snapshot(const char* file, int n, uint64_t seed) {
    FILE* f = fopen(file, "r");
    if (!f) { fprintf(stderr, "cannot open %s\n", file); return 3; }
    static struct { uintptr_t addr; size_t size; char name[200]; uint8_t* copy; } sym[256];
    int ns = 0; unsigned long a, s; char nm[200];
    while (ns < 256 && fscanf(f, "%lx %lu %199s", &a, &s, nm) == 3) { sym[ns].addr = a; sym[ns].size = s; strcpy(sym[ns].name, nm); ns++; }
    fclose(f);
    // static initialisers have run (we are in main): take the snapshot now
    for (int i = 0; i < ns; i++) { sym[i].copy = (uint8_t*) malloc(sym[i].size); memcpy(sym[i].copy, (void*) sym[i].addr, sym[i].size); }
    init_shared(seed);
    uint64_t acc = 0;
    for (int i = 0; i < n; i++) for (int fa = 0; fa < NFAM; fa++) acc ^= run_op(fa, seed + (uint64_t) i * 131 + (uint64_t) fa);
    int changed = 0;
    for (int i = 0; i < ns; i++) if (memcmp(sym[i].copy, (void*) sym[i].addr, sym[i].size) != 0) { printf("CHANGED %s size=%zu\n", sym[i].name, sym[i].size); changed++; }
    printf("symbols=%d changed=%d ops=%d digest=%016llx\n", ns, changed, n * NFAM, (unsigned long long) acc);
    return 0;
}

struct Rec { int fam; uint64_t seed, digest; uint64_t t0, t1; };
static uint64_t g_clock;
static pthread_barrier_t g_bar;
struct TArg { int id, n; uint64_t seed; Rec* recs; };

static void* worker(void* p) {
    TArg* a = (TArg*) p;
    pthread_barrier_wait(&g_bar);
    uint64_t x = a->seed * 77 + (uint64_t) a->id;
    for (int i = 0; i < a->n; i++) {
        Rec& r = a->recs[i];
        r.t0 = __atomic_fetch_add(&g_clock, 1, __ATOMIC_SEQ_CST);
        r.digest = run_op(r.fam, r.seed);
        r.t1 = __atomic_fetch_add(&g_clock, 1, __ATOMIC_SEQ_CST);
        x ^= x << 13; x ^= x >> 7; x ^= x << 17;
        if ((x & 7) == 0) sched_yield(); else if ((x & 15) == 1) usleep((useconds_t) (x >> 60));
    }
    return NULL;
}

static int mode_threads(int T, int n, uint64_t seed) {
    init_shared(seed);
    Rec* recs = (Rec*) calloc((size_t) T * (size_t) n, sizeof(Rec));
    uint64_t x = seed * 0x9e3779b97f4a7c15ull | 1;
    for (int t = 0; t < T; t++) for (int i = 0; i < n; i++) {
        x ^= x << 13; x ^= x >> 7; x ^= x << 17;
        recs[t * n + i].fam = (int) ((x >> 33) % NFAM);
        // few distinct seeds: different threads regularly run the very same operation at the same time
        recs[t * n + i].seed = seed + ((x >> 8) % 5);
    }
    // sequential replay first: expected digests
    uint64_t* expect = (uint64_t*) malloc(sizeof(uint64_t) * (size_t) T * (size_t) n);
    for (int j = 0; j < T * n; j++) expect[j] = run_op(recs[j].fam, recs[j].seed);
    pthread_barrier_init(&g_bar, NULL, (unsigned) T);
    pthread_t th[64]; TArg args[64];
    for (int t = 0; t < T; t++) { args[t].id = t; args[t].n = n; args[t].seed = seed; args[t].recs = recs + t * n; pthread_create(&th[t], NULL, worker, &args[t]); }
    for (int t = 0; t < T; t++) pthread_join(th[t], NULL);
    int bad = 0;
    for (int j = 0; j < T * n; j++) if (recs[j].digest != expect[j]) { if (bad < 5) printf("MISMATCH thread=%d op=%d family=%s seed=%llu\n", j / n, j % n, FAM[recs[j].fam], (unsigned long long) recs[j].seed); bad++; }
    // which operation pairs were actually observed overlapping in time
    static int overlap[NFAM][NFAM];
    long pairs = 0;
    for (int a = 0; a < T * n; a++) for (int b = a + 1; b < T * n; b++) {
        if (a / n == b / n) continue;
        if (recs[a].t0 < recs[b].t1 && recs[b].t0 < recs[a].t1) { overlap[recs[a].fam][recs[b].fam]++; overlap[recs[b].fam][recs[a].fam]++; pairs++; }
    }
    int distinct = 0;
    printf("overlap");
    for (int i = 0; i < NFAM; i++) for (int j = i; j < NFAM; j++) if (overlap[i][j]) { distinct++; printf(" %s+%s=%d", FAM[i], FAM[j], overlap[i][j]); }
    printf("\nthreads=%d ops=%d mismatches=%d overlapping_pairs=%ld distinct_family_pairs=%d\n", T, T * n, bad, pairs, distinct);
    return 0;
}

int main(int argc, char** argv) {
    if (argc >= 4 && !strcmp(argv[1], "--syscalls")) return mode_syscalls(atoi(argv[2]), strtoull(argv[3], NULL, 10));
    if (argc >= 5 && !strcmp(argv[1], "--snapshot")) return mode_snapshot(argv[2], atoi(argv[3]), strtoull(argv[4], NULL, 10));
    if (argc >= 5 && !strcmp(argv[1], "--threads")) return mode_threads(atoi(argv[2]), atoi(argv[3]), strtoull(argv[4], NULL, 10));
    fprintf(stderr, "usage\n");
    return 3;
}
