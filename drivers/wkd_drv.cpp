// WKD-IBE history executor with in-process monitors.  The slot-pattern model lives outside (Python);
// this driver executes API calls exactly the way the Go binding does (heap arrays of exactly the size the
// binding allocates, so one slot too many is an ASan report) and evaluates the scheme's pairing equations
// on the resulting objects.  One answer line per command.
#include "common.h"
#include "x86base.h"

#include "wkdibe/wkdibe.h"
#include "wkdibe/api.hpp"
#include "bls12_381/pairing.hpp"

using namespace embedded_pairing::bls12_381;
using embedded_pairing::core::BigInt;
namespace wk = embedded_pairing::wkdibe;

#define MAXP 8
#define MAXK 1024
#define MAXS 64
#define MAXATTR 64

struct ParamSet {
    embedded_pairing_wkdibe_params_t p;
    embedded_pairing_wkdibe_masterkey_t msk;
    bool used;
};
struct KeySlot {
    embedded_pairing_wkdibe_secretkey_t k;
    int alloc;      // number of slots allocated for k.b
    bool used;
};
static ParamSet P[MAXP];
static KeySlot K[MAXK];
static embedded_pairing_wkdibe_signature_t S[MAXS];

static wk::Params& PP(int i) { return *reinterpret_cast<wk::Params*>(&P[i].p); }
static wk::MasterKey& MK(int i) { return *reinterpret_cast<wk::MasterKey*>(&P[i].msk); }
static wk::SecretKey& SK(int i) { return *reinterpret_cast<wk::SecretKey*>(&K[i].k); }

struct AList {
    embedded_pairing_wkdibe_attributelist_t list;
    embedded_pairing_wkdibe_attribute_t* heap;   // exact-size heap array
    bool is_null;
    bool want_share;                             // token started with '=': make this list a view of the related list's array where it can be one
};
static int g_shared;                             // calls in this command that received two lists with shared storage

// o<0|1>[,idx:hex64:omit]*   or   null
static void parse_alist(const char* tok, AList& a) {
    a.heap = NULL;
    a.is_null = false;
    a.want_share = tok[0] == '=';
    if (a.want_share) tok++;
    memset(&a.list, 0, sizeof a.list);
    if (!strcmp(tok, "null")) { a.is_null = true; return; }
    if (tok[0] != 'o') die("bad attribute list", tok);
    a.list.omitAllFromKeysUnlessPresent = tok[1] == '1';
    int n = 0;
    for (const char* p = tok; *p; p++) if (*p == ',') n++;
    a.list.length = (size_t) n;
    if (n) a.heap = (embedded_pairing_wkdibe_attribute_t*) malloc(sizeof(embedded_pairing_wkdibe_attribute_t) * n);
    a.list.attrs = a.heap;
    const char* p = tok + 2;
    for (int i = 0; i < n; i++) {
        if (*p != ',') die("bad attribute list", tok);
        p++;
        char* end;
        unsigned long idx = strtoul(p, &end, 10);
        if (*end != ':') die("bad attribute", tok);
        p = end + 1;
        char hex[65];
        memcpy(hex, p, 64); hex[64] = 0;
        memset(&a.heap[i], 0, sizeof a.heap[i]);
        unhex(hex, &a.heap[i].id, 32);
        p += 64;
        if (*p != ':') die("bad attribute", tok);
        a.heap[i].omitFromKeys = p[1] == '1';
        a.heap[i].idx = (uint32_t) idx;
        p += 2;
    }
}
static void free_alist(AList& a) { free(a.heap); a.heap = NULL; }
// A caller that keeps one attribute array and passes two views of it (the same list twice, a list and its first or last k entries):
// when `b` asks for it and its entries are bytewise a prefix, a suffix or all of `a`'s (or the other way round), the shorter list
// becomes a view into the longer one's array.  Both heaps stay owned by their AList and are freed as before.
static void share_storage(AList& a, AList& b) {
    if (!b.want_share || a.is_null || b.is_null || !a.list.length || !b.list.length) return;
    AList& lo = a.list.length >= b.list.length ? a : b;
    AList& sh = (&lo == &a) ? b : a;
    size_t n = sh.list.length, m = lo.list.length;
    if (memcmp(sh.heap, lo.heap, n * sizeof *sh.heap) == 0) { sh.list.attrs = lo.heap; g_shared++; }
    else if (memcmp(sh.heap, lo.heap + (m - n), n * sizeof *sh.heap) == 0) { sh.list.attrs = lo.heap + (m - n); g_shared++; }
}
static const embedded_pairing_wkdibe_attributelist_t* LP(AList& a) { return a.is_null ? NULL : &a.list; }

// Under ASan the arrays have exactly the size the Go binding allocates (an extra slot is a report).  Without ASan a
// few spare slots keep an overrun from corrupting the heap; the overrun is then reported through overflow=1.
#if defined(__has_feature)
#if __has_feature(address_sanitizer)
#define EXACT_ALLOC 1
#endif
#endif
#ifdef EXACT_ALLOC
#define SLACK 0
#else
#define SLACK 40
#endif

// A fresh output key object starts DIRTY: its previous content (valid-looking points of some other key, a wrong slot count, the
// opposite signature flag - or plain junk bytes) must have no influence on what the library writes into it.
static unsigned g_dirty;
static void alloc_b(int kid, int n) {
    free(K[kid].k.b);
    K[kid].k.b = (n + SLACK) > 0 ? (embedded_pairing_wkdibe_freeslot_t*) malloc(sizeof(embedded_pairing_wkdibe_freeslot_t) * (size_t) (n + SLACK)) : NULL;
    K[kid].alloc = n;
    K[kid].used = true;
    embedded_pairing_wkdibe_freeslot_t* b = K[kid].k.b;
    g_dirty++;
    if (g_dirty % 3 == 0) {
        memset(&K[kid].k, 0xA5, sizeof K[kid].k);
        if (b) memset(b, 0xA5, sizeof(embedded_pairing_wkdibe_freeslot_t) * (size_t) (n + SLACK));
    } else {
        G1 j1; G2 j2; BigInt<256> k; memset(&k, 0, sizeof k); k.std_words[0] = 0x1234567 + g_dirty;
        j1.multiply_doubleadd(G1::one, k); j2.multiply_doubleadd(G2::one, k);
        wk::SecretKey& d = *reinterpret_cast<wk::SecretKey*>(&K[kid].k);
        d.a0.copy(j1); d.a1.copy(j2); d.bsig.copy(j1);
        d.l = (g_dirty % 3 == 1) ? n + 3 : 0;
        d.signatures = (g_dirty & 1) != 0;
        // stale slot records as an earlier key in the same object would have left them: slot i at position i (all slots were free), or
        // shifted by one or two (some low slots were fixed), or unrelated indices
        unsigned shape = (g_dirty / 3) % 4;
        for (int i = 0; i < n + SLACK; i++) { b[i].idx = shape == 3 ? (uint32_t) (i * 2 + 1) : (uint32_t) i + shape; memcpy(&b[i].hexp, &j1, sizeof j1); }
    }
    K[kid].k.b = b;
}

// ------------------------------------------------------------------ monitor helpers (library arithmetic as instrument)
static bool gt_is_one(const Fq12& a) { return Fq12::equal(a, Fq12::one); }

// e(p1,q1) * e(p2,q2) via two single pairings (deliberately not the product routine)
static void pair2(Fq12& out, const G1& p1, const G2& q1, const G1& p2, const G2& q2) {
    G1Affine a1, a2; G2Affine b1, b2;
    a1.from_projective(p1); a2.from_projective(p2); b1.from_projective(q1); b2.from_projective(q2);
    Fq12 e1, e2;
    pairing<G2Affine>(e1, a1, b1);
    pairing<G2Affine>(e2, a2, b2);
    out.multiply(e1, e2);
}

static bool in_g1(const G1& p) {
    G1Affine a; a.from_projective(p);
    if (a.is_zero()) return true;
    return a.is_on_curve() && a.is_in_correct_subgroup_assuming_on_curve();
}
static bool in_g2(const G2& p) {
    G2Affine a; a.from_projective(p);
    if (a.is_zero()) return true;
    return a.is_on_curve() && a.is_in_correct_subgroup_assuming_on_curve();
}

// g3 * prod h_idx^id over the listed attributes (monitor's own loop, double-and-add)
static void attr_product(G1& out, const wk::Params& pp, const embedded_pairing_wkdibe_attributelist_t* l, bool skip_omitted) {
    out.copy(pp.g3);
    if (!l) return;
    for (size_t i = 0; i < l->length; i++) {
        if (skip_omitted && l->attrs[i].omitFromKeys) continue;
        G1 t;
        t.multiply_doubleadd(pp.h[l->attrs[i].idx], *reinterpret_cast<const BigInt<256>*>(&l->attrs[i].id));
        out.add(out, t);
    }
}

static void random_gt(Fq12& m) {
    BigInt<256> s;
    m.random_gt(s, generator_pairing, rng_cb);
}

// seed token: decimal PRNG seed, or x<hex>: the random source first returns these bytes (then PRNG output seeded from the token)
static void seed_from(const char* tok, bool script_now = true) {
    if (tok[0] != 'x') { rng_seed(strtoull(tok, NULL, 10)); return; }
    uint64_t h = 1469598103934665603ull;
    for (const char* p = tok; *p; p++) h = (h ^ (uint8_t) *p) * 1099511628211ull;
    rng_seed(h);
    if (script_now) rng_script(tok + 1);
}

// ------------------------------------------------------------------ commands
static void cmd_setup(void) {
    int pid = (int) argi(1), l = (int) argi(2), sig = (int) argi(3);
    seed_from(arg(4));
    free(P[pid].p.h);
    memset(&P[pid], 0, sizeof P[pid]);
    P[pid].p.h = l > 0 ? (embedded_pairing_wkdibe_g1_t*) malloc(sizeof(embedded_pairing_wkdibe_g1_t) * (size_t) l) : NULL;
    embedded_pairing_wkdibe_setup(&P[pid].p, &P[pid].msk, l, sig != 0, rng_cb);
    P[pid].used = true;
    wk::Params& pp = PP(pid);
    // invariants: e(g2^alpha, g) = e(g2, g1) = params.pairing ; generators in their subgroups and non-trivial
    Fq12 e1, e2;
    G1 ng2; ng2.negate(pp.g2);
    pair2(e1, MK(pid).g2alpha, pp.g, ng2, pp.g1);
    G1Affine g2a; G2Affine g1a; g2a.from_projective(pp.g2); g1a.from_projective(pp.g1);
    pairing<G2Affine>(e2, g2a, g1a);
    bool gens = in_g2(pp.g) && in_g2(pp.g1) && in_g1(pp.g2) && in_g1(pp.g3) && !pp.g.is_zero() && !pp.g2.is_zero() && !pp.g3.is_zero();
    for (int i = 0; i < l; i++) gens = gens && in_g1(pp.h[i]) && !pp.h[i].is_zero();
    bool hsig_ok = sig ? (in_g1(pp.hsig) && !pp.hsig.is_zero()) : pp.hsig.is_zero();
    printf(" l=%d sig=%d msk=%d pairing=%d gens=%d hsig=%d", pp.l, (int) pp.signatures, (int) gt_is_one(e1), (int) Fq12::equal(e2, pp.pairing), (int) gens, (int) hsig_ok);
}

// Whenever the driver needs precompute(list) as an INPUT to another operation it obtains it by one of three routes, in turn: directly;
// precompute(another list) adjusted to the list; precompute(list) adjusted away and back.  A Precomputed value is the same group element
// whichever route produced it, so every consumer (encrypt_precomputed, sign_precomputed, verify_precomputed, resamplekey) must behave the same.
static unsigned g_route;
static void get_precomputed(embedded_pairing_wkdibe_precomputed_t* pre, int pid, AList& al) {
    unsigned route = g_route++ % 3;
    if (route == 0 || al.is_null) { embedded_pairing_wkdibe_precompute(pre, &P[pid].p, LP(al)); return; }
    // the "other" list: every value + 1, first entry dropped when there are several, flags kept; for an empty list one entry at slot 0
    AList o; o.is_null = false; memset(&o.list, 0, sizeof o.list);
    size_t n = al.list.length;
    size_t on = n > 1 ? n - 1 : (n == 1 ? 1 : (P[pid].p.l > 0 ? 1 : 0));
    o.heap = on ? (embedded_pairing_wkdibe_attribute_t*) malloc(sizeof(embedded_pairing_wkdibe_attribute_t) * on) : NULL;
    o.list.attrs = o.heap; o.list.length = on; o.list.omitAllFromKeysUnlessPresent = al.list.omitAllFromKeysUnlessPresent;
    for (size_t i = 0; i < on; i++) {
        if (n == 0) { memset(&o.heap[i], 0, sizeof o.heap[i]); o.heap[i].idx = 0; ((uint8_t*) &o.heap[i].id)[0] = 5; continue; }
        o.heap[i] = al.heap[n > 1 ? i + 1 : i];
        uint8_t* b = (uint8_t*) &o.heap[i].id; for (int k = 0; k < 32; k++) { if (++b[k] != 0) break; }
    }
    if (route == 1) {
        embedded_pairing_wkdibe_precompute(pre, &P[pid].p, LP(o));
        embedded_pairing_wkdibe_adjust_precomputed(pre, &P[pid].p, LP(o), LP(al));
    } else {
        embedded_pairing_wkdibe_precompute(pre, &P[pid].p, LP(al));
        embedded_pairing_wkdibe_adjust_precomputed(pre, &P[pid].p, LP(al), LP(o));
        embedded_pairing_wkdibe_adjust_precomputed(pre, &P[pid].p, LP(o), LP(al));
    }
    free(o.heap);
}

static void cmd_keyop(const char* op) {
    // keygen|ndkeygen kid pid alloc alist seed ; qualify|ndqualify kid pid parent alloc alist seed
    int kid = (int) argi(1), pid = (int) argi(2);
    bool from_parent = !strcmp(op, "qualify") || !strcmp(op, "ndqualify");
    int i = 3;
    int parent = -1;
    if (from_parent) parent = (int) argi(i++);
    int alloc = (int) argi(i++);
    AList al; parse_alist(arg(i++), al);
    seed_from(arg(i++));
    if (kid == parent) die("output key aliases parent", op);
    alloc_b(kid, alloc);
    if (!strcmp(op, "keygen")) embedded_pairing_wkdibe_keygen(&K[kid].k, &P[pid].p, &P[pid].msk, LP(al), rng_cb);
    else if (!strcmp(op, "ndkeygen")) embedded_pairing_wkdibe_nondelegable_keygen(&K[kid].k, &P[pid].p, &P[pid].msk, LP(al));
    else if (!strcmp(op, "qualify")) embedded_pairing_wkdibe_qualifykey(&K[kid].k, &P[pid].p, &K[parent].k, LP(al), rng_cb);
    else embedded_pairing_wkdibe_nondelegable_qualifykey(&K[kid].k, &P[pid].p, &K[parent].k, LP(al));
    printf(" l=%d alloc=%d overflow=%d", K[kid].k.l, alloc, (int) (K[kid].k.l > alloc));
    if (parent >= 0) printf(" a1same=%d", (int) G2::equal(SK(kid).a1, SK(parent).a1));
    free_alist(al);
}

static void cmd_adjust(void) {
    // adjust kid parent from to   (Go: b is reallocated to parent.l slots)
    int kid = (int) argi(1), parent = (int) argi(2);
    AList f, t; parse_alist(arg(3), f); parse_alist(arg(4), t); share_storage(f, t);
    int length = K[parent].k.l;
    if (length != K[kid].k.l) {
        K[kid].k.b = (length + SLACK) > 0 ? (embedded_pairing_wkdibe_freeslot_t*) realloc(K[kid].k.b, sizeof(embedded_pairing_wkdibe_freeslot_t) * (size_t) (length + SLACK)) : (free(K[kid].k.b), (embedded_pairing_wkdibe_freeslot_t*) NULL);
        // the slots gained by the reallocation hold STALE records, as they do when the object (or the allocator's block) held another
        // key before: a foreign valid point under the index the parent has at that position or one or two positions further on -
        // what an implementation that trusts "the index is already right" would be fooled by
        int old = K[kid].alloc < K[kid].k.l ? K[kid].alloc : K[kid].k.l;
        if (old < 0) old = 0;
        G1 junk; BigInt<256> jk; memset(&jk, 0, sizeof jk); jk.std_words[0] = 0x7654321 + g_dirty; junk.multiply_doubleadd(G1::one, jk);
        unsigned shift = g_dirty++ % 3;
        for (int i = old; i < length + SLACK && K[kid].k.b; i++) {
            int pi = i + (int) shift;
            K[kid].k.b[i].idx = (length > 0) ? K[parent].k.b[pi < length ? pi : length - 1].idx : (uint32_t) i;
            memcpy(&K[kid].k.b[i].hexp, &junk, sizeof junk);
        }
        K[kid].alloc = length;
    }
    embedded_pairing_wkdibe_adjust_nondelegable(&K[kid].k, &K[parent].k, LP(f), LP(t));
    printf(" l=%d alloc=%d overflow=%d a1same=%d", K[kid].k.l, K[kid].alloc, (int) (K[kid].k.l > K[kid].alloc), (int) G2::equal(SK(kid).a1, SK(parent).a1));
    free_alist(f); free_alist(t);
}

static void cmd_resample(void) {
    // resample kid pid src further alist(for precompute: the key's fixed pattern) seed
    int kid = (int) argi(1), pid = (int) argi(2), src = (int) argi(3), further = (int) argi(4);
    AList al; parse_alist(arg(5), al);
    seed_from(arg(6));
    embedded_pairing_wkdibe_precomputed_t pre;
    get_precomputed(&pre, pid, al);
    alloc_b(kid, further ? K[src].k.l : 0);
    embedded_pairing_wkdibe_resamplekey(&K[kid].k, &P[pid].p, &pre, &K[src].k, further != 0, rng_cb);
    printf(" l=%d alloc=%d overflow=%d a1same=%d", K[kid].k.l, K[kid].alloc, (int) (K[kid].k.l > K[kid].alloc), (int) G2::equal(SK(kid).a1, SK(src).a1));
    free_alist(al);
}

static void cmd_checkkey(void) {
    // checkkey kid pid alist(fixed pattern: exactly the fixed slots with their values) seed
    // prints: l, idx list, eqA (a0 equation), per-slot equation flags, bsig flag, decrypt flags, subgroup membership
    int kid = (int) argi(1), pid = (int) argi(2);
    AList al; parse_alist(arg(3), al);
    rng_seed(strtoull(arg(4), NULL, 10));
    wk::Params& pp = PP(pid);
    wk::SecretKey& sk = SK(kid);
    printf(" l=%d idx=", sk.l);
    int lim = sk.l < K[kid].alloc + SLACK ? sk.l : K[kid].alloc + SLACK;
    if (lim <= 0) putchar('-');
    for (int i = 0; i < lim; i++) printf(i ? ",%u" : "%u", sk.b[i].idx);
    // (2) e(a0, g) * e(-(g3 * prod h^v), a1) == e(g2, g1)
    G1 prod; attr_product(prod, pp, LP(al), false);
    prod.negate(prod);
    Fq12 e;
    pair2(e, sk.a0, pp.g, prod, sk.a1);
    printf(" eqA=%d", (int) Fq12::equal(e, pp.pairing));
    // (3) e(b_i, g) == e(h_i, a1)
    printf(" eqB=");
    int nb = lim;
    if (nb <= 0) putchar('-');
    for (int i = 0; i < nb; i++) {
        bool ok = false;
        if (sk.b[i].idx < (uint32_t) pp.l) {
            G1 nh; nh.negate(pp.h[sk.b[i].idx]);
            pair2(e, sk.b[i].hexp, pp.g, nh, sk.a1);
            ok = gt_is_one(e) && in_g1(sk.b[i].hexp);
        }
        putchar(ok ? '1' : '0');
    }
    bool bs;
    if (pp.signatures) {
        G1 nh; nh.negate(pp.hsig);
        pair2(e, sk.bsig, pp.g, nh, sk.a1);
        bs = gt_is_one(e) && sk.signatures;
    } else {
        // without signature support the stored bsig is the implementation's business; what must hold is that the key still signs
        // (the message is then not bound, the list is): judged by behaviour
        embedded_pairing_wkdibe_signature_t sg; embedded_pairing_wkdibe_scalar_t m7; memset(&m7, 0, sizeof m7); ((uint8_t*) &m7)[0] = 7;
        embedded_pairing_wkdibe_sign(&sg, &P[pid].p, &K[kid].k, LP(al), &m7, rng_cb);
        bs = !sk.signatures && embedded_pairing_wkdibe_verify(&P[pid].p, LP(al), &sg, &m7);
    }
    printf(" bsig=%d member=%d", (int) bs, (int) (in_g1(sk.a0) && in_g2(sk.a1)));
    // (4) a fresh ciphertext for exactly the fixed pattern decrypts with the key and with the master key
    Fq12 m, d1, d2;
    random_gt(m);
    embedded_pairing_wkdibe_ciphertext_t ct;
    embedded_pairing_wkdibe_encrypt(&ct, (embedded_pairing_wkdibe_gt_t*) &m, &P[pid].p, LP(al), rng_cb);
    embedded_pairing_wkdibe_decrypt((embedded_pairing_wkdibe_gt_t*) &d1, &ct, &K[kid].k);
    embedded_pairing_wkdibe_decrypt_master((embedded_pairing_wkdibe_gt_t*) &d2, &ct, &P[pid].msk);
    printf(" dec=%d decmaster=%d", (int) Fq12::equal(d1, m), (int) Fq12::equal(d2, m));
    free_alist(al);
}

static void cmd_dec(void) {
    // dec kid pid alist seed mod   : encrypt a random message to alist, optionally modify one ciphertext component, decrypt with key
    // mod: 0 none, 1 a*=gen, 2 b+=gen, 3 c+=gen, 4 a<->other message, 5 b negated, 6 c doubled ; 10+ = encrypt_precomputed path
    int kid = (int) argi(1), pid = (int) argi(2);
    AList al; parse_alist(arg(3), al);
    seed_from(arg(4), false);
    int mod = (int) argi(5);
    Fq12 m, d;
    random_gt(m);
    if (arg(4)[0] == 'x') rng_script(arg(4) + 1);           // the crafted stream is for the encryption, not for the driver's message draw
    embedded_pairing_wkdibe_ciphertext_t ct;
    if (mod >= 10) {
        embedded_pairing_wkdibe_precomputed_t pre;
        get_precomputed(&pre, pid, al);
        embedded_pairing_wkdibe_encrypt_precomputed(&ct, (embedded_pairing_wkdibe_gt_t*) &m, &P[pid].p, &pre, rng_cb);
        mod -= 10;
    } else {
        embedded_pairing_wkdibe_encrypt(&ct, (embedded_pairing_wkdibe_gt_t*) &m, &P[pid].p, LP(al), rng_cb);
    }
    wk::Ciphertext& c = *reinterpret_cast<wk::Ciphertext*>(&ct);
    bool well = in_g2(c.b) && in_g1(c.c);
    switch (mod) {
    case 1: c.a.multiply(c.a, generator_pairing); break;
    case 2: c.b.add(c.b, G2::one); break;
    case 3: c.c.add(c.c, G1::one); break;
    case 4: { Fq12 o; random_gt(o); c.a.multiply(c.a, o); break; }
    case 5: c.b.negate(c.b); break;
    case 6: c.c.multiply2(c.c); break;
    default: break;
    }
    embedded_pairing_wkdibe_decrypt((embedded_pairing_wkdibe_gt_t*) &d, &ct, &K[kid].k);
    Fq12 dm;
    embedded_pairing_wkdibe_decrypt_master((embedded_pairing_wkdibe_gt_t*) &dm, &ct, &P[pid].msk);
    printf(" dec=%d decmaster=%d ctmember=%d", (int) Fq12::equal(d, m), (int) Fq12::equal(dm, m), (int) well);
    free_alist(al);
}

static void cmd_sign(void) {
    // sign sid kid pid alist|null msg seed mode prelist   mode 0: sign ; 1: sign_precomputed with precompute(prelist)
    int sid = (int) argi(1), kid = (int) argi(2), pid = (int) argi(3);
    AList al; parse_alist(arg(4), al);
    embedded_pairing_wkdibe_scalar_t msg; unhex(arg(5), &msg, 32);
    seed_from(arg(6));
    int mode = (int) argi(7);
    if (mode == 0) {
        embedded_pairing_wkdibe_sign(&S[sid], &P[pid].p, &K[kid].k, LP(al), &msg, rng_cb);
    } else {
        AList pl; parse_alist(arg(8), pl);
        embedded_pairing_wkdibe_precomputed_t pre;
        get_precomputed(&pre, pid, pl);
        embedded_pairing_wkdibe_sign_precomputed(&S[sid], &P[pid].p, &K[kid].k, LP(al), &pre, &msg, rng_cb);
        free_alist(pl);
    }
    wk::Signature& s = *reinterpret_cast<wk::Signature*>(&S[sid]);
    printf(" member=%d", (int) (in_g1(s.a0) && in_g2(s.a1)));
    free_alist(al);
}

static void cmd_verify(void) {
    // verify sid pid alist msg : library verify, verify_precomputed, and the verification equation evaluated by the monitor
    int sid = (int) argi(1), pid = (int) argi(2);
    AList al; parse_alist(arg(3), al);
    embedded_pairing_wkdibe_scalar_t msg; unhex(arg(4), &msg, 32);
    bool v1 = embedded_pairing_wkdibe_verify(&P[pid].p, LP(al), &S[sid], &msg);
    embedded_pairing_wkdibe_precomputed_t pre;
    get_precomputed(&pre, pid, al);
    bool v2 = embedded_pairing_wkdibe_verify_precomputed(&P[pid].p, &pre, &S[sid], &msg);
    wk::Params& pp = PP(pid);
    wk::Signature& s = *reinterpret_cast<wk::Signature*>(&S[sid]);
    G1 prod; attr_product(prod, pp, LP(al), false);
    G1 hm; hm.multiply_doubleadd(pp.hsig, *reinterpret_cast<const BigInt<256>*>(&msg));
    prod.add(prod, hm);
    prod.negate(prod);
    Fq12 e;
    pair2(e, s.a0, pp.g, prod, s.a1);
    printf(" verify=%d verifypre=%d equation=%d", (int) v1, (int) v2, (int) Fq12::equal(e, pp.pairing));
    free_alist(al);
}

static void cmd_sigmod(void) {
    // sigmod dst src which : 1 a0+=G1 ; 2 a1+=G2 ; 3 a0 negated ; 4 a1 doubled ; 0 copy
    int dst = (int) argi(1), src = (int) argi(2), which = (int) argi(3);
    S[dst] = S[src];
    wk::Signature& s = *reinterpret_cast<wk::Signature*>(&S[dst]);
    switch (which) {
    case 1: s.a0.add(s.a0, G1::one); break;
    case 2: s.a1.add(s.a1, G2::one); break;
    case 3: s.a0.negate(s.a0); break;
    case 4: s.a1.multiply2(s.a1); break;
    default: break;
    }
}

static void cmd_keymod(void) {
    // keymod kid which : perturb a key component in place (for negative signature tests) 1 a0+=G 2 a1+=G
    int kid = (int) argi(1), which = (int) argi(2);
    if (which == 1) SK(kid).a0.add(SK(kid).a0, G1::one);
    else SK(kid).a1.add(SK(kid).a1, G2::one);
}

static void cmd_precmp(void) {
    // precmp pid list0 list1 ... listN : precompute(list0) adjusted along the chain must equal precompute(listN) at every step
    int pid = (int) argi(1);
    int n = g_ntok - 2;
    embedded_pairing_wkdibe_precomputed_t cur;
    AList prev; parse_alist(arg(2), prev);
    embedded_pairing_wkdibe_precompute(&cur, &P[pid].p, LP(prev));
    G1 mine; attr_product(mine, PP(pid), LP(prev), false);
    printf(" pre0=%d steps=", (int) G1::equal(*reinterpret_cast<G1*>(&cur.prodexp), mine));
    if (n == 1) putchar('-');
    for (int i = 1; i < n; i++) {
        AList next; parse_alist(arg(2 + i), next);
        prev.list.attrs = prev.heap;             // a view taken for the previous step ends with it
        share_storage(prev, next);
        embedded_pairing_wkdibe_adjust_precomputed(&cur, &P[pid].p, LP(prev), LP(next));
        next.list.attrs = next.heap;
        embedded_pairing_wkdibe_precomputed_t direct;
        embedded_pairing_wkdibe_precompute(&direct, &P[pid].p, LP(next));
        putchar(G1::equal(*reinterpret_cast<G1*>(&cur.prodexp), *reinterpret_cast<G1*>(&direct.prodexp)) ? '1' : '0');
        free_alist(prev);
        prev = next;
    }
    free_alist(prev);
}

static void cmd_adjcmp(void) {
    // adjcmp pid parent from to : ndqualify(parent, from) adjusted to 'to'  vs  ndqualify(parent, to), component for component
    int pid = (int) argi(1), parent = (int) argi(2);
    AList f, t; parse_alist(arg(3), f); parse_alist(arg(4), t); share_storage(f, t);
    int l = PP(pid).l;
    embedded_pairing_wkdibe_secretkey_t a, b;
    memset(&a, 0, sizeof a); memset(&b, 0, sizeof b);
    int alloc_f = l - (int) f.list.length, alloc_t = l - (int) t.list.length;
    if (alloc_f < 0) alloc_f = 0;
    if (alloc_t < 0) alloc_t = 0;
    a.b = (alloc_f + SLACK) ? (embedded_pairing_wkdibe_freeslot_t*) malloc(sizeof(*a.b) * (size_t) (alloc_f + SLACK)) : NULL;
    b.b = (alloc_t + SLACK) ? (embedded_pairing_wkdibe_freeslot_t*) malloc(sizeof(*b.b) * (size_t) (alloc_t + SLACK)) : NULL;
    embedded_pairing_wkdibe_nondelegable_qualifykey(&a, &P[pid].p, &K[parent].k, LP(f));
    embedded_pairing_wkdibe_nondelegable_qualifykey(&b, &P[pid].p, &K[parent].k, LP(t));
    int over = (a.l > alloc_f) || (b.l > alloc_t);
    // Go: AdjustNonDelegable reallocates sk.b to parent.l slots
    int plen = K[parent].k.l;
    if (plen != a.l) {
        if (plen + SLACK == 0) { free(a.b); a.b = NULL; }
        else a.b = (embedded_pairing_wkdibe_freeslot_t*) realloc(a.b, sizeof(*a.b) * (size_t) (plen + SLACK));
    }
    embedded_pairing_wkdibe_adjust_nondelegable(&a, &K[parent].k, LP(f), LP(t));
    wk::SecretKey& x = *reinterpret_cast<wk::SecretKey*>(&a);
    wk::SecretKey& y = *reinterpret_cast<wk::SecretKey*>(&b);
    bool slots = x.l == y.l;
    for (int i = 0; slots && i < x.l; i++) slots = x.b[i].idx == y.b[i].idx && G1::equal(x.b[i].hexp, y.b[i].hexp);
    printf(" a0=%d a1=%d l=%d/%d slots=%d bsig=%d overflow=%d", (int) G1::equal(x.a0, y.a0), (int) G2::equal(x.a1, y.a1), x.l, y.l, (int) slots,
           (int) (G1::equal(x.bsig, y.bsig) && x.signatures == y.signatures), over || x.l > plen);
    free(a.b); free(b.b);
    free_alist(f); free_alist(t);
}

// rekey kid c / reparams pid c : the object goes through marshal + validating unmarshal (as it does between two processes) and
// replaces itself; afterwards it holds normalised representatives (z = 1), which is what a long-lived service works with
static void cmd_rekey(void) {
    int kid = (int) argi(1); bool c = argi(2) != 0;
    size_t n = embedded_pairing_wkdibe_secretkey_get_marshalled_length(&K[kid].k, c);
    uint8_t* buf = (uint8_t*) malloc(n ? n : 1);
    embedded_pairing_wkdibe_secretkey_marshal(buf, &K[kid].k, c);
    int before = K[kid].k.l;
    int l = embedded_pairing_wkdibe_secretkey_set_length(&K[kid].k, buf, n, c);
    bool ok = l == before && embedded_pairing_wkdibe_secretkey_unmarshal(&K[kid].k, buf, c, true);
    printf(" ok=%d l=%d/%d", (int) ok, l, before);
    free(buf);
}
static void cmd_reparams(void) {
    int pid = (int) argi(1); bool c = argi(2) != 0;
    size_t n = embedded_pairing_wkdibe_params_get_marshalled_length(&P[pid].p, c);
    uint8_t* buf = (uint8_t*) malloc(n ? n : 1);
    embedded_pairing_wkdibe_params_marshal(buf, &P[pid].p, c);
    int before = P[pid].p.l;
    int l = embedded_pairing_wkdibe_params_set_length(&P[pid].p, buf, n, c);
    bool ok = l == before && embedded_pairing_wkdibe_params_unmarshal(&P[pid].p, buf, c, true);
    uint8_t mb[200];
    embedded_pairing_wkdibe_masterkey_marshal(mb, &P[pid].msk, c);
    ok = ok && embedded_pairing_wkdibe_masterkey_unmarshal(&P[pid].msk, mb, c, true);
    printf(" ok=%d l=%d/%d", (int) ok, l, before);
    free(buf);
}

int main(int argc, char** argv) {
    (void) argc; (void) argv;
    static char outbuf[1 << 16];
    setvbuf(stdout, outbuf, _IOFBF, sizeof outbuf);
    verif_install_death_flush();
    verif_snapshot_option(argc, argv);
    verif_x86base_option(argc, argv);
    while (read_line(stdin)) {
        if (g_ntok == 0) { printf("\n"); continue; }
        const char* op = g_tok[0];
        printf("%s", op);
        if (!strcmp(op, "setup")) cmd_setup();
        else if (!strcmp(op, "keygen") || !strcmp(op, "ndkeygen") || !strcmp(op, "qualify") || !strcmp(op, "ndqualify")) cmd_keyop(op);
        else if (!strcmp(op, "adjust")) cmd_adjust();
        else if (!strcmp(op, "resample")) cmd_resample();
        else if (!strcmp(op, "checkkey")) cmd_checkkey();
        else if (!strcmp(op, "dec")) cmd_dec();
        else if (!strcmp(op, "sign")) cmd_sign();
        else if (!strcmp(op, "verify")) cmd_verify();
        else if (!strcmp(op, "sigmod")) cmd_sigmod();
        else if (!strcmp(op, "keymod")) cmd_keymod();
        else if (!strcmp(op, "precmp")) cmd_precmp();
        else if (!strcmp(op, "adjcmp")) cmd_adjcmp();
        else if (!strcmp(op, "rekey")) cmd_rekey();
        else if (!strcmp(op, "reparams")) cmd_reparams();
        else die("unknown op", op);
        if (g_shared) { printf(" shared=%d", g_shared); g_shared = 0; }
        putchar('\n');
        fflush(stdout);
    }
    return 0;
}
