// Marshalling / untrusted-buffer / LQ-IBE driver (C15, C16, C17).
//  gen  l sig freemask seed      -> one line per (kind, encoding): round-trip monitor results + bytes + embedded elements
//  unm  kind c checked hex       -> Go-binding protocol on an arbitrary buffer (exact-size heap copies; --guard: flush against PROT_NONE pages)
//  lq   seed idhash keylen mode  -> LQ-IBE encrypt/decrypt with the hash callback as recorder
#include "common.h"
#include "x86base.h"

#include <signal.h>
#include <sys/mman.h>
#include <unistd.h>

#include "wkdibe/wkdibe.h"
#include "lqibe/lqibe.h"
#include "wkdibe/api.hpp"
#include "lqibe/api.hpp"
#include "bls12_381/pairing.hpp"

using namespace embedded_pairing::bls12_381;
using embedded_pairing::core::BigInt;
namespace wk = embedded_pairing::wkdibe;
namespace lq = embedded_pairing::lqibe;

static int g_guard = 0;      // 0: malloc exact ; 1: end flush against a guard page ; 2: start flush after a guard page

// ------------------------------------------------------------------ buffers
struct Buf { uint8_t* p; size_t n; void* base; size_t maplen; uint8_t* raw; };
static size_t g_shift = 0;   // malloc mode: the buffer starts g_shift bytes into its block (still ends flush with the block), so that
                             // embedded elements are seen at every alignment, not only at the offsets a 16-aligned malloc gives

static Buf buf_alloc(size_t n) {
    Buf b; b.n = n; b.base = NULL; b.maplen = 0; b.raw = NULL;
    if (!g_guard) { b.raw = (uint8_t*) malloc((n ? n : 1) + g_shift); b.p = b.raw + g_shift; return b; }
    size_t pg = (size_t) sysconf(_SC_PAGESIZE);
    size_t body = ((n + pg - 1) / pg) * pg;
    if (body == 0) body = pg;
    b.maplen = body + 2 * pg;
    uint8_t* m = (uint8_t*) mmap(NULL, b.maplen, PROT_READ | PROT_WRITE, MAP_PRIVATE | MAP_ANONYMOUS, -1, 0);
    if (m == MAP_FAILED) die("mmap failed", "");
    mprotect(m, pg, PROT_NONE);
    mprotect(m + pg + body, pg, PROT_NONE);
    b.base = m;
    b.p = (g_guard == 1) ? m + pg + body - n : m + pg;
    return b;
}
static void buf_free(Buf& b) {
    if (b.base) munmap(b.base, b.maplen); else free(b.raw);
    b.p = NULL;
}

static void on_segv(int sig) {
    (void) sig;
    static const char msg[] = "\nGUARD-PAGE-FAULT\n";
    ssize_t r = write(2, msg, sizeof msg - 1); (void) r;
    r = write(1, msg, sizeof msg - 1); (void) r;
    _exit(77);
}

// ------------------------------------------------------------------ objects
struct Objects {
    embedded_pairing_wkdibe_params_t wp; embedded_pairing_wkdibe_masterkey_t wm;
    embedded_pairing_wkdibe_secretkey_t wsk; embedded_pairing_wkdibe_ciphertext_t wct; embedded_pairing_wkdibe_signature_t wsig;
    embedded_pairing_lqibe_params_t lp; embedded_pairing_lqibe_id_t lid; embedded_pairing_lqibe_masterkey_t lm;
    embedded_pairing_lqibe_secretkey_t lsk; embedded_pairing_lqibe_ciphertext_t lct;
    int l; bool sig;
    // the list and message the stored signature was made for (kept so that behaviour after a round trip can be checked)
    embedded_pairing_wkdibe_attribute_t* at; embedded_pairing_wkdibe_attributelist_t al; embedded_pairing_wkdibe_scalar_t msg;
};

enum Kind { WPARAMS, WMASTER, WSK, WCT, WSIG, LPARAMS, LID, LMASTER, LSK, LCT, NKIND };
static const char* KNAME[NKIND] = {"wparams", "wmaster", "wsk", "wct", "wsig", "lparams", "lid", "lmaster", "lsk", "lct"};

static int kind_of(const char* s) {
    for (int i = 0; i < NKIND; i++) if (!strcmp(s, KNAME[i])) return i;
    die("unknown kind", s); return -1;
}

static void st_g1(const G1& p) { G1Affine a; a.from_projective(p); uint8_t b[97]; memcpy(b, &a.x, 48); memcpy(b + 48, &a.y, 48); b[96] = a.infinity; printf("1:"); put(b, 97); }
static void st_g1a(const G1Affine& a) { uint8_t b[97]; memcpy(b, &a.x, 48); memcpy(b + 48, &a.y, 48); b[96] = a.infinity; printf("1:"); put(b, 97); }
static void st_g2(const G2& p) { G2Affine a; a.from_projective(p); uint8_t b[193]; memcpy(b, &a.x, 96); memcpy(b + 96, &a.y, 96); b[192] = a.infinity; printf("2:"); put(b, 193); }
static void st_g2a(const G2Affine& a) { uint8_t b[193]; memcpy(b, &a.x, 96); memcpy(b + 96, &a.y, 96); b[192] = a.infinity; printf("2:"); put(b, 193); }

static size_t get_len(int kind, const Objects& o, bool c) {
    switch (kind) {
    case WPARAMS: return embedded_pairing_wkdibe_params_get_marshalled_length(&o.wp, c);
    case WMASTER: return embedded_pairing_wkdibe_masterkey_get_marshalled_length(c);
    case WSK: return embedded_pairing_wkdibe_secretkey_get_marshalled_length(&o.wsk, c);
    case WCT: return embedded_pairing_wkdibe_ciphertext_get_marshalled_length(c);
    case WSIG: return embedded_pairing_wkdibe_signature_get_marshalled_length(c);
    case LPARAMS: return embedded_pairing_lqibe_params_get_marshalled_length(c);
    case LID: return embedded_pairing_lqibe_id_get_marshalled_length(c);
    case LMASTER: return embedded_pairing_lqibe_masterkey_get_marshalled_length(c);
    case LSK: return embedded_pairing_lqibe_secretkey_get_marshalled_length(c);
    case LCT: return embedded_pairing_lqibe_ciphertext_get_marshalled_length(c);
    }
    return 0;
}

static void do_marshal(int kind, const Objects& o, void* buf, bool c) {
    switch (kind) {
    case WPARAMS: embedded_pairing_wkdibe_params_marshal(buf, &o.wp, c); break;
    case WMASTER: embedded_pairing_wkdibe_masterkey_marshal(buf, &o.wm, c); break;
    case WSK: embedded_pairing_wkdibe_secretkey_marshal(buf, &o.wsk, c); break;
    case WCT: embedded_pairing_wkdibe_ciphertext_marshal(buf, &o.wct, c); break;
    case WSIG: embedded_pairing_wkdibe_signature_marshal(buf, &o.wsig, c); break;
    case LPARAMS: embedded_pairing_lqibe_params_marshal(buf, &o.lp, c); break;
    case LID: embedded_pairing_lqibe_id_marshal(buf, &o.lid, c); break;
    case LMASTER: embedded_pairing_lqibe_masterkey_marshal(buf, &o.lm, c); break;
    case LSK: embedded_pairing_lqibe_secretkey_marshal(buf, &o.lsk, c); break;
    case LCT: embedded_pairing_lqibe_ciphertext_marshal(buf, &o.lct, c); break;
    }
}

// Go-binding protocol: returns -2 if the binding itself rejects (length mismatch / set_length -1), else 0/1 = unmarshal result.
// Slot arrays are allocated with exactly the reported size.
// Length discovery has two equivalent spellings: set_length (what the Go binding uses), or the stand-alone *_unmarshalled_length followed
// by the caller storing the slot count itself (set_length is defined as exactly that).  Every third call uses the second spelling.
static unsigned g_proto;
static int do_unmarshal(int kind, Objects& o, const uint8_t* buf, size_t len, bool c, bool checked, int* setlen_out) {
    *setlen_out = -3;
    if (len == 0) return -2;
    bool by_hand = (g_proto++ % 3) == 2;
    switch (kind) {
    case WPARAMS: {
        int n2 = embedded_pairing_wkdibe_params_unmarshalled_length(buf, len, c);
        int n = n2;
        if (by_hand) { if (n != -1) o.wp.l = n; } else n = embedded_pairing_wkdibe_params_set_length(&o.wp, buf, len, c);
        *setlen_out = n;
        if (n2 != n) *setlen_out = -4;
        if (n == -1) return -2;
        free(o.wp.h);
        o.wp.h = n ? (embedded_pairing_wkdibe_g1_t*) malloc(sizeof(embedded_pairing_wkdibe_g1_t) * (size_t) n) : NULL;
        return embedded_pairing_wkdibe_params_unmarshal(&o.wp, buf, c, checked);
    }
    case WSK: {
        int n2 = embedded_pairing_wkdibe_secretkey_unmarshalled_length(buf, len, c);
        int n = n2;
        if (by_hand) { if (n != -1) o.wsk.l = n; } else n = embedded_pairing_wkdibe_secretkey_set_length(&o.wsk, buf, len, c);
        *setlen_out = n;
        if (n2 != n) *setlen_out = -4;
        if (n == -1) return -2;
        free(o.wsk.b);
        o.wsk.b = n ? (embedded_pairing_wkdibe_freeslot_t*) malloc(sizeof(embedded_pairing_wkdibe_freeslot_t) * (size_t) n) : NULL;
        return embedded_pairing_wkdibe_secretkey_unmarshal(&o.wsk, buf, c, checked);
    }
    default: break;
    }
    if (get_len(kind, o, c) != len) return -2;
    switch (kind) {
    case WMASTER: return embedded_pairing_wkdibe_masterkey_unmarshal(&o.wm, buf, c, checked);
    case WCT: return embedded_pairing_wkdibe_ciphertext_unmarshal(&o.wct, buf, c, checked);
    case WSIG: return embedded_pairing_wkdibe_signature_unmarshal(&o.wsig, buf, c, checked);
    case LPARAMS: return embedded_pairing_lqibe_params_unmarshal(&o.lp, buf, c, checked);
    case LID: return embedded_pairing_lqibe_id_unmarshal(&o.lid, buf, c, checked);
    case LMASTER: return embedded_pairing_lqibe_masterkey_unmarshal(&o.lm, buf, c, checked);
    case LSK: return embedded_pairing_lqibe_secretkey_unmarshal(&o.lsk, buf, c, checked);
    case LCT: return embedded_pairing_lqibe_ciphertext_unmarshal(&o.lct, buf, c, checked);
    }
    return -2;
}

static bool g1eq(const embedded_pairing_wkdibe_g1_t& a, const embedded_pairing_wkdibe_g1_t& b) { return G1::equal(*(const G1*) &a, *(const G1*) &b); }
static bool g2eq(const embedded_pairing_wkdibe_g2_t& a, const embedded_pairing_wkdibe_g2_t& b) { return G2::equal(*(const G2*) &a, *(const G2*) &b); }
static bool gteq(const embedded_pairing_wkdibe_gt_t& a, const embedded_pairing_wkdibe_gt_t& b) { return Fq12::equal(*(const Fq12*) &a, *(const Fq12*) &b); }
static bool g1aeq(const embedded_pairing_bls12_381_g1affine_t& a, const embedded_pairing_bls12_381_g1affine_t& b) { return G1Affine::equal(*(const G1Affine*) &a, *(const G1Affine*) &b); }
static bool g2aeq(const embedded_pairing_bls12_381_g2affine_t& a, const embedded_pairing_bls12_381_g2affine_t& b) { return G2Affine::equal(*(const G2Affine*) &a, *(const G2Affine*) &b); }

static bool objects_equal(int kind, const Objects& a, const Objects& b) {
    switch (kind) {
    case WPARAMS: {
        if (a.wp.l != b.wp.l || a.wp.signatures != b.wp.signatures) return false;
        if (!g2eq(a.wp.g, b.wp.g) || !g2eq(a.wp.g1, b.wp.g1) || !g1eq(a.wp.g2, b.wp.g2) || !g1eq(a.wp.g3, b.wp.g3) || !gteq(a.wp.pairing, b.wp.pairing)) return false;
        if (a.wp.signatures && !g1eq(a.wp.hsig, b.wp.hsig)) return false;       // without signature support: judged by behaviour, see roundtrip_behaves()
        for (int i = 0; i < a.wp.l; i++) if (!g1eq(a.wp.h[i], b.wp.h[i])) return false;
        return true;
    }
    case WMASTER: return g1eq(a.wm.g2alpha, b.wm.g2alpha);
    case WSK: {
        if (a.wsk.l != b.wsk.l || a.wsk.signatures != b.wsk.signatures) return false;
        if (!g1eq(a.wsk.a0, b.wsk.a0) || !g2eq(a.wsk.a1, b.wsk.a1)) return false;
        if (a.wsk.signatures && !g1eq(a.wsk.bsig, b.wsk.bsig)) return false;
        for (int i = 0; i < a.wsk.l; i++) if (a.wsk.b[i].idx != b.wsk.b[i].idx || !g1eq(a.wsk.b[i].hexp, b.wsk.b[i].hexp)) return false;
        return true;
    }
    case WCT: return gteq(a.wct.a, b.wct.a) && g2eq(a.wct.b, b.wct.b) && g1eq(a.wct.c, b.wct.c);
    case WSIG: return g1eq(a.wsig.a0, b.wsig.a0) && g2eq(a.wsig.a1, b.wsig.a1);
    case LPARAMS: return g2eq(a.lp.p, b.lp.p) && g2eq(a.lp.sp, b.lp.sp);
    case LID: return g1aeq(a.lid.q, b.lid.q);
    case LMASTER: return memcmp(&a.lm.s, &b.lm.s, 32) == 0;
    case LSK: return g1aeq(a.lsk.sq, b.lsk.sq);
    case LCT: return g2aeq(a.lct.rp, b.lct.rp);
    }
    return false;
}

// What a user relies on after a round trip, whatever the object stores in fields it does not marshal: the unmarshalled parameters accept
// the original signature, and a signature made with the unmarshalled key verifies (with and without signature support).
static bool roundtrip_behaves(int kind, const Objects& o, const Objects& r) {
    if (kind == WPARAMS) return embedded_pairing_wkdibe_verify(&r.wp, &o.al, &o.wsig, &o.msg);
    if (kind == WSK) {
        embedded_pairing_wkdibe_signature_t sg;
        embedded_pairing_wkdibe_sign(&sg, &o.wp, &r.wsk, &o.al, &o.msg, rng_cb);
        return embedded_pairing_wkdibe_verify(&o.wp, &o.al, &sg, &o.msg);
    }
    return true;
}

static void print_elems(int kind, const Objects& o) {
    printf(" elems=");
    switch (kind) {
    case WPARAMS:
        printf("B%d,", o.wp.signatures ? 1 : 0);
        st_g2(*(const G2*) &o.wp.g); putchar(','); st_g2(*(const G2*) &o.wp.g1); putchar(','); st_g1(*(const G1*) &o.wp.g2); putchar(','); st_g1(*(const G1*) &o.wp.g3);
        printf(",T:"); put(&o.wp.pairing, 576);
        if (o.wp.signatures) { putchar(','); st_g1(*(const G1*) &o.wp.hsig); }
        for (int i = 0; i < o.wp.l; i++) { putchar(','); st_g1(*(const G1*) &o.wp.h[i]); }
        break;
    case WMASTER: st_g1(*(const G1*) &o.wm.g2alpha); break;
    case WSK:
        printf("B%d,", o.wsk.signatures ? 1 : 0);
        st_g1(*(const G1*) &o.wsk.a0); putchar(','); st_g2(*(const G2*) &o.wsk.a1);
        if (o.wsk.signatures) { putchar(','); st_g1(*(const G1*) &o.wsk.bsig); }
        for (int i = 0; i < o.wsk.l; i++) { putchar(','); st_g1(*(const G1*) &o.wsk.b[i].hexp); printf(",I%u", o.wsk.b[i].idx); }
        break;
    case WCT: printf("T:"); put(&o.wct.a, 576); putchar(','); st_g2(*(const G2*) &o.wct.b); putchar(','); st_g1(*(const G1*) &o.wct.c); break;
    case WSIG: st_g1(*(const G1*) &o.wsig.a0); putchar(','); st_g2(*(const G2*) &o.wsig.a1); break;
    case LPARAMS: st_g2(*(const G2*) &o.lp.p); putchar(','); st_g2(*(const G2*) &o.lp.sp); break;
    case LID: st_g1a(*(const G1Affine*) &o.lid.q); break;
    case LMASTER: printf("S:"); put(&o.lm.s, 32); break;
    case LSK: st_g1a(*(const G1Affine*) &o.lsk.sq); break;
    case LCT: st_g2a(*(const G2Affine*) &o.lct.rp); break;
    }
}

static void make_objects(Objects& o, int l, bool sig, unsigned long freemask, bool highfree = false) {
#define ISFREE(i) ((i) < 64 ? ((freemask >> (i)) & 1) != 0 : highfree)
    memset(&o, 0, sizeof o);
    o.l = l; o.sig = sig;
    o.wp.h = l ? (embedded_pairing_wkdibe_g1_t*) malloc(sizeof(embedded_pairing_wkdibe_g1_t) * (size_t) l) : NULL;
    embedded_pairing_wkdibe_setup(&o.wp, &o.wm, l, sig, rng_cb);
    // secret key: slots in freemask stay free, the others are fixed to random values
    int nfix = 0;
    for (int i = 0; i < l; i++) if (!ISFREE(i)) nfix++;
    embedded_pairing_wkdibe_attribute_t* at = nfix ? (embedded_pairing_wkdibe_attribute_t*) malloc(sizeof(*at) * (size_t) nfix) : NULL;
    int k = 0;
    for (int i = 0; i < l; i++) if (!ISFREE(i)) { memset(&at[k], 0, sizeof at[k]); rng_cb(&at[k].id, 32); at[k].idx = (uint32_t) i; at[k].omitFromKeys = false; k++; }
    embedded_pairing_wkdibe_attributelist_t al; al.attrs = at; al.length = (size_t) nfix; al.omitAllFromKeysUnlessPresent = false;
    int nfree = l - nfix;
    o.wsk.b = nfree ? (embedded_pairing_wkdibe_freeslot_t*) malloc(sizeof(embedded_pairing_wkdibe_freeslot_t) * (size_t) nfree) : NULL;
    embedded_pairing_wkdibe_keygen(&o.wsk, &o.wp, &o.wm, &al, rng_cb);
    embedded_pairing_wkdibe_gt_t msg;
    embedded_pairing_wkdibe_random_gt(&msg, rng_cb);
    embedded_pairing_wkdibe_encrypt(&o.wct, &msg, &o.wp, &al, rng_cb);
    embedded_pairing_wkdibe_scalar_t m; rng_cb(&m, 32);
    embedded_pairing_wkdibe_sign(&o.wsig, &o.wp, &o.wsk, &al, &m, rng_cb);
    o.at = at; o.al = al; o.msg = m;
    embedded_pairing_lqibe_setup(&o.lp, &o.lm, rng_cb);
    embedded_pairing_lqibe_idhash_t h; rng_cb(h.hash, sizeof h.hash);
    embedded_pairing_lqibe_compute_id_from_hash(&o.lid, &h);
    embedded_pairing_lqibe_keygen(&o.lsk, &o.lm, &o.lid);
    uint8_t sym[32];
    extern void hash_rec(void*, size_t, const void*, size_t);
    embedded_pairing_lqibe_encrypt(&o.lct, sym, sizeof sym, &o.lp, &o.lid, hash_rec, rng_cb);
}

static void free_objects(Objects& o) { free(o.wp.h); free(o.wsk.b); free(o.at); o.wp.h = NULL; o.wsk.b = NULL; o.at = NULL; }

// ------------------------------------------------------------------ hash callback recorder (C16)
static uint8_t g_hash_in[2][4096];
static size_t g_hash_inlen[2], g_hash_outlen[2];
static void* g_hash_outptr[2];
static int g_hash_calls, g_hash_slot;

// mode 5 of `lq`: the caller's hash function itself uses the library (a complete decrypt for another identity) before it
// reads its input - legal for a re-entrant library; the bytes it was handed must not change under it
struct Nested { bool on; embedded_pairing_lqibe_ciphertext_t ct; embedded_pairing_lqibe_secretkey_t sk; embedded_pairing_lqibe_id_t id;
                embedded_pairing_lqibe_params_t p; };
static Nested g_nested;
static void hash_plain(void* out, size_t outlen, const void* in, size_t inlen) {
    uint8_t* o = (uint8_t*) out; const uint8_t* p = (const uint8_t*) in;
    for (size_t i = 0; i < outlen; i++) o[i] = 0;
    if (outlen) for (size_t i = 0; i < inlen; i++) o[i % outlen] ^= p[i];
}

void hash_rec(void* out, size_t outlen, const void* in, size_t inlen) {
    if (g_nested.on) {
        g_nested.on = false;
        uint8_t k[16]; embedded_pairing_lqibe_ciphertext_t c2;
        embedded_pairing_lqibe_decrypt(k, sizeof k, &g_nested.ct, &g_nested.sk, &g_nested.id, hash_plain);
        embedded_pairing_lqibe_encrypt(&c2, k, sizeof k, &g_nested.p, &g_nested.id, hash_plain, rng_cb);
        g_nested.on = true;
    }
    int s = g_hash_slot & 1;
    g_hash_calls++;
    g_hash_inlen[s] = inlen; g_hash_outlen[s] = outlen; g_hash_outptr[s] = out;
    memcpy(g_hash_in[s], in, inlen < sizeof g_hash_in[s] ? inlen : sizeof g_hash_in[s]);
    // a toy "hash": xor-fold the input into the output so equal inputs give equal keys
    uint8_t* o = (uint8_t*) out;
    for (size_t i = 0; i < outlen; i++) o[i] = (uint8_t) (i * 131);
    const uint8_t* p = (const uint8_t*) in;
    if (outlen) for (size_t i = 0; i < inlen; i++) o[i % outlen] ^= (uint8_t) (p[i] + i);
}

// ------------------------------------------------------------------ commands
struct Objects; static void dirty_objects(Objects& o);
// Objects that contain the group identity (reachable through the API: a re-randomisation that cancels, an unmarshalled identity
// element): sel's bits choose the elements, the identity comes in the representations group arithmetic produces -
// the constant, P + (-P) (z = 0 with whatever x, y the formulas leave), and z = 0 with random x, y.
template <typename G> static void put_identity(G& dst, unsigned form) {
    if (form % 3 == 0) { dst.copy(G::zero); return; }
    G p; BigInt<256> k; rng_cb(k.bytes, 32); p.multiply_doubleadd(G::one, k);
    if (form % 3 == 1) { G n; n.negate(p); dst.add(p, n); return; }
    dst.copy(p); dst.z.copy(G::zero.z);
}
static void substitute_identity(Objects& o, unsigned long sel) {
    unsigned f = (unsigned) (sel >> 16);
    if (sel & 1) put_identity(*(G1*) &o.wm.g2alpha, f);
    if (sel & 2) put_identity(*(G1*) &o.wsk.a0, f + 1);
    if (sel & 4) put_identity(*(G2*) &o.wsk.a1, f + 2);
    if ((sel & 8) && o.wsk.signatures) put_identity(*(G1*) &o.wsk.bsig, f);
    if ((sel & 16) && o.wsk.l > 0) put_identity(*(G1*) &o.wsk.b[(sel >> 8) % (unsigned) o.wsk.l].hexp, f + 1);
    if (sel & 32) put_identity(*(G2*) &o.wct.b, f);
    if (sel & 64) put_identity(*(G1*) &o.wct.c, f + 2);
    if (sel & 128) put_identity(*(G1*) &o.wsig.a0, f + 1);
    if (sel & 256) put_identity(*(G2*) &o.wsig.a1, f);
    if ((sel & 512) && o.wp.l > 0) put_identity(*(G1*) &o.wp.h[(sel >> 8) % (unsigned) o.wp.l], f + 2);
    if (sel & 1024) put_identity(*(G1*) &o.wp.g3, f);
    if ((sel & 2048) && o.wp.signatures) put_identity(*(G1*) &o.wp.hsig, f + 1);
    if (sel & 4096) put_identity(*(G2*) &o.lp.sp, f);
}

static void cmd_gen(void) {
    int l = (int) argi(1); bool sig = argi(2) != 0; unsigned long mask = strtoul(arg(3), NULL, 10);
    rng_seed(strtoull(arg(4), NULL, 10));
    bool highfree = g_ntok > 5 && argi(5) != 0;
    unsigned long idsel = g_ntok > 6 ? strtoul(arg(6), NULL, 10) : 0;
    Objects o; make_objects(o, l, sig, mask, highfree);
    if (idsel & 0xffff) substitute_identity(o, idsel);
#define BEHAVES(kind, a, b) ((idsel & 0xffff) ? true : roundtrip_behaves(kind, a, b))   // objects with substituted elements are not working keys
    for (int kind = 0; kind < NKIND; kind++) {
        for (int c = 1; c >= 0; c--) {
            size_t len = get_len(kind, o, c != 0);
            size_t lenfn = len;
            if (kind == WPARAMS) lenfn = embedded_pairing_wkdibe_params_marshalled_length(o.wp.l, o.wp.signatures, c != 0);
            if (kind == WSK) lenfn = embedded_pairing_wkdibe_secretkey_marshalled_length(o.wsk.l, o.wsk.signatures, c != 0);
            // marshal twice over different fill bytes: every byte of the buffer must be written, none beyond
            Buf b1 = buf_alloc(len), b2 = buf_alloc(len);
            memset(b1.p, 0x00, len); memset(b2.p, 0xff, len);
            do_marshal(kind, o, b1.p, c != 0); do_marshal(kind, o, b2.p, c != 0);
            bool allwritten = memcmp(b1.p, b2.p, len) == 0;
            // round trip through the binding protocol into fresh objects
            Objects r; memset(&r, 0, sizeof r); dirty_objects(r);
            int sl = 0, sl2 = 0;
            int okc = do_unmarshal(kind, r, b1.p, len, c != 0, true, &sl);
            bool eqc = okc == 1 && objects_equal(kind, o, r) && BEHAVES(kind, o, r);
            size_t relen = okc == 1 ? get_len(kind, r, c != 0) : 0;
            bool resame = false;
            if (okc == 1 && relen == len) { Buf b3 = buf_alloc(len); do_marshal(kind, r, b3.p, c != 0); resame = memcmp(b3.p, b1.p, len) == 0; buf_free(b3); }
            Objects u; memset(&u, 0, sizeof u); dirty_objects(u);
            int oku = do_unmarshal(kind, u, b1.p, len, c != 0, false, &sl2);
            bool equ = oku == 1 && objects_equal(kind, o, u) && BEHAVES(kind, o, u);
            int slots = kind == WPARAMS ? o.wp.l : (kind == WSK ? o.wsk.l : -3);
            printf("%s kind=%s c=%d len=%zu lenfn=%zu allwritten=%d setlen=%d slots=%d checked=%d equal=%d relen=%zu resame=%d unchecked=%d uequal=%d bytes=",
                   kind == 0 && c == 1 ? "" : "| ", KNAME[kind], c, len, lenfn, (int) allwritten, sl, slots, okc, (int) eqc, relen, (int) resame, oku, (int) equ);
            put(b1.p, len);
            print_elems(kind, o);
            putchar(' ');
            buf_free(b1); buf_free(b2); free_objects(r); free_objects(u);
        }
    }
    free_objects(o);
}

// destination objects start dirty but valid (bools are real bools): what an unmarshal writes must not depend on what was there
static unsigned g_dirty_obj;
static void dirty_objects(Objects& o) {
    unsigned mode = g_dirty_obj++ % 3;
    if (mode == 0) return;                                  // all-zero (as before)
    embedded_pairing_wkdibe_g1_t* h = o.wp.h; embedded_pairing_wkdibe_freeslot_t* b = o.wsk.b;
    memset(&o, mode == 1 ? 0x5a : 0xc3, sizeof o);
    o.wp.h = h; o.wsk.b = b; o.at = NULL; memset(&o.al, 0, sizeof o.al);
    o.wp.signatures = mode == 1; o.wsk.signatures = mode != 1; o.sig = false;
    o.wp.l = 7; o.wsk.l = 5; o.l = 0;
    G1Affine& q = *reinterpret_cast<G1Affine*>(&o.lid.q); G1Affine& sq = *reinterpret_cast<G1Affine*>(&o.lsk.sq); G2Affine& rp = *reinterpret_cast<G2Affine*>(&o.lct.rp);
    if (mode == 1) { q.infinity = true; sq.infinity = true; rp.infinity = true; }       // "the identity" with arbitrary coordinates
    else { q.copy(G1Affine::generator); sq.copy(G1Affine::generator); rp.copy(G2Affine::generator); }
    G2Affine& lp1 = *reinterpret_cast<G2Affine*>(&o.lp.p); (void) lp1;
}

static void cmd_unm(void) {
    int kind = kind_of(arg(1)); bool c = argi(2) != 0, checked = argi(3) != 0;
    size_t n; uint8_t* raw = unhex_var(arg(4), &n);
    g_shift = g_ntok > 5 ? (size_t) argi(5) : 0;
    Buf b = buf_alloc(n); memcpy(b.p, raw, n); free(raw);
    g_shift = 0;
    Objects o; memset(&o, 0, sizeof o); dirty_objects(o);
    int sl;
    int ok = do_unmarshal(kind, o, b.p, n, c, checked, &sl);
    printf(" setlen=%d accepted=%d", sl, ok);
    if (ok == 1) {
        size_t len = get_len(kind, o, c);
        printf(" getlen=%zu", len);
        // an accepted object must be marshallable again into a buffer of the length it reports
        Buf b3 = buf_alloc(len);
        do_marshal(kind, o, b3.p, c);
        printf(" resame=%d", (int) (len == n && memcmp(b3.p, b.p, n) == 0));
        buf_free(b3);
    }
    buf_free(b); free_objects(o);
}

// unmseq kind c K chk1 hex1 ... chkK hexK : K unmarshals one after another into the SAME destination objects (as a caller that
// retries after a rejected buffer does); the last result must equal what a fresh destination gives for the last buffer
static void cmd_unmseq(void) {
    int kind = kind_of(arg(1)); bool c = argi(2) != 0; int K = (int) argi(3);
    Objects o; memset(&o, 0, sizeof o);
    printf(" acc=");
    int last = -9; size_t ln = 0; uint8_t* lraw = NULL; bool lchk = false;
    for (int i = 0; i < K; i++) {
        bool chk = argi(4 + 2 * i) != 0;
        size_t n; uint8_t* raw = unhex_var(arg(5 + 2 * i), &n);
        Buf b = buf_alloc(n); memcpy(b.p, raw, n);
        int sl; last = do_unmarshal(kind, o, b.p, n, c, chk, &sl);
        printf("%s%d", i ? "," : "", last);
        buf_free(b);
        if (i == K - 1) { lraw = raw; ln = n; lchk = chk; } else free(raw);
    }
    Objects f; memset(&f, 0, sizeof f);
    Buf b = buf_alloc(ln); memcpy(b.p, lraw, ln); free(lraw);
    int sl; int fr = do_unmarshal(kind, f, b.p, ln, c, lchk, &sl);
    bool same = fr == last && (fr != 1 || (objects_equal(kind, o, f) && objects_equal(kind, f, o)));
    bool pairing_ok = true;
    if (fr == 1 && last == 1 && kind == WPARAMS) {
        // the stored pairing value is e(g2, g1) whatever the destination held before
        Fq12 e; G1Affine a; G2Affine q; a.from_projective(*(const G1*) &o.wp.g2); q.from_projective(*(const G2*) &o.wp.g1);
        pairing(e, a, q);
        pairing_ok = Fq12::equal(e, *(const Fq12*) &o.wp.pairing);
    }
    printf(" fresh=%d same=%d pairing=%d", fr, (int) same, (int) pairing_ok);
    buf_free(b); free_objects(o); free_objects(f);
}

static void cmd_lq(void) {
    // lq seed idhash(96 hex) keylen mode masterhex|- [encrypt-stream-hex|- [setup-stream-hex|-]]
    // the optional streams are the first bytes the random source returns during the measured encrypt / during setup (then the PRNG)
    // mode 0 honest ; 1 decrypt with key of another identity ; 2 other master key ; 3 ciphertext replaced ; 4 id object of another identity at decrypt
    rng_seed(strtoull(arg(1), NULL, 10));
    embedded_pairing_lqibe_idhash_t h; unhex(arg(2), h.hash, 48);
    size_t keylen = (size_t) argu(3); int mode = (int) argi(4);
    embedded_pairing_lqibe_params_t p; embedded_pairing_lqibe_masterkey_t m; embedded_pairing_lqibe_id_t id; embedded_pairing_lqibe_secretkey_t sk; embedded_pairing_lqibe_ciphertext_t ct;
    if (g_ntok > 7 && strcmp(arg(7), "-")) rng_script(arg(7));
    embedded_pairing_lqibe_setup(&p, &m, rng_cb);
    if (strcmp(arg(5), "-")) {
        // master scalar supplied by the caller (possibly >= r), through the marshalling interface; public key recomputed accordingly
        uint8_t mb[32]; unhex(arg(5), mb, 32);
        embedded_pairing_lqibe_masterkey_unmarshal(&m, mb, true, true);
        ((G2*) &p.sp)->multiply(*(G2*) &p.p, *(BigInt<256>*) &m.s);
    }
    embedded_pairing_lqibe_compute_id_from_hash(&id, &h);
    embedded_pairing_lqibe_keygen(&sk, &m, &id);
    Buf k1 = buf_alloc(keylen), k2 = buf_alloc(keylen);
    g_nested.on = false;
    if (mode == 5) {
        // material for the nested calls: another identity under the same master key
        embedded_pairing_lqibe_idhash_t h3 = h; h3.hash[20] ^= 0x5a; h3.hash[3] ^= 0x11;
        embedded_pairing_lqibe_compute_id_from_hash(&g_nested.id, &h3);
        embedded_pairing_lqibe_keygen(&g_nested.sk, &m, &g_nested.id);
        uint8_t kk[16];
        embedded_pairing_lqibe_encrypt(&g_nested.ct, kk, sizeof kk, &p, &g_nested.id, hash_plain, rng_cb);
        g_nested.p = p;
        g_nested.on = true;
    }
    g_hash_calls = 0; g_hash_slot = 0;
    if (g_ntok > 6 && strcmp(arg(6), "-")) rng_script(arg(6));
    embedded_pairing_lqibe_encrypt(&ct, k1.p, keylen, &p, &id, hash_rec, rng_cb);
    embedded_pairing_lqibe_secretkey_t sk2 = sk; embedded_pairing_lqibe_id_t id2 = id; embedded_pairing_lqibe_ciphertext_t ct2 = ct;
    if (mode == 1 || mode == 4) {
        embedded_pairing_lqibe_idhash_t h2 = h; h2.hash[20] ^= 0x5a;
        embedded_pairing_lqibe_id_t other; embedded_pairing_lqibe_compute_id_from_hash(&other, &h2);
        if (mode == 1) embedded_pairing_lqibe_keygen(&sk2, &m, &other); else id2 = other;
    } else if (mode == 2) {
        embedded_pairing_lqibe_masterkey_t m2 = m; ((uint8_t*) &m2.s)[0] ^= 1;
        embedded_pairing_lqibe_keygen(&sk2, &m2, &id);
    } else if (mode == 3) {
        G2 t; t.from_affine(*(G2Affine*) &ct.rp); t.add(t, G2::one); ((G2Affine*) &ct2.rp)->from_projective(t);
    }
    g_hash_slot = 1;
    embedded_pairing_lqibe_decrypt(k2.p, keylen, &ct2, &sk2, &id2, hash_rec);
    g_nested.on = false;
    printf(" calls=%d inlen=%zu,%zu outlen=%zu,%zu outptr=%d,%d same_input=%d same_key=%d", g_hash_calls, g_hash_inlen[0], g_hash_inlen[1], g_hash_outlen[0], g_hash_outlen[1],
           (int) (g_hash_outptr[0] == k1.p), (int) (g_hash_outptr[1] == k2.p),
           (int) (g_hash_inlen[0] == g_hash_inlen[1] && memcmp(g_hash_in[0], g_hash_in[1], g_hash_inlen[0]) == 0), (int) (memcmp(k1.p, k2.p, keylen) == 0));
    printf(" enc_input="); put(g_hash_in[0], g_hash_inlen[0] < 4096 ? g_hash_inlen[0] : 4096);
    printf(" s="); put(&m.s, 32);
    printf(" id="); st_g1a(*(G1Affine*) &id.q);
    printf(" sk="); st_g1a(*(G1Affine*) &sk.sq);
    printf(" rp="); st_g2a(*(G2Affine*) &ct.rp);
    // library pairing e(sk, rP) as instrument
    Fq12 e; pairing<G2Affine>(e, *(G1Affine*) &sk.sq, *(G2Affine*) &ct.rp);
    uint8_t eb[576]; e.write_big_endian(eb);
    printf(" pairing_matches=%d", (int) (g_hash_inlen[0] == 720 && memcmp(eb, g_hash_in[0] + 144, 576) == 0));
    buf_free(k1); buf_free(k2);
}

// length discovery alone, for every buffer length 1..maxlen (first byte given, rest zero)
static void cmd_lens(void) {
    int kind = kind_of(arg(1)); bool c = argi(2) != 0; int fb = (int) argi(3); size_t maxlen = (size_t) argu(4);
    size_t first = g_ntok > 5 ? (size_t) argu(5) : 1;
    for (size_t n = first; n <= maxlen; n++) {
        Buf b = buf_alloc(n); memset(b.p, 0, n); b.p[0] = (uint8_t) fb;
        int r = kind == WPARAMS ? embedded_pairing_wkdibe_params_unmarshalled_length(b.p, n, c) : embedded_pairing_wkdibe_secretkey_unmarshalled_length(b.p, n, c);
        Objects o; memset(&o, 0, sizeof o); o.wp.l = -9; o.wsk.l = -9;
        int r2 = kind == WPARAMS ? embedded_pairing_wkdibe_params_set_length(&o.wp, b.p, n, c) : embedded_pairing_wkdibe_secretkey_set_length(&o.wsk, b.p, n, c);
        int stored = kind == WPARAMS ? o.wp.l : o.wsk.l;
        // set_length must agree with unmarshalled_length and store the count only on success
        if (r2 != r || stored != (r == -1 ? -9 : r)) printf(n == first ? " X%d" : ",X%d", r); else printf(n == first ? " %d" : ",%d", r);
        buf_free(b);
    }
}

// a single free slot with an arbitrary 32-bit index through the secret-key marshalling code
static void cmd_slot(void) {
    unsigned long idx = strtoul(arg(1), NULL, 10); bool c = argi(2) != 0;
    embedded_pairing_wkdibe_secretkey_t sk; memset(&sk, 0, sizeof sk);
    embedded_pairing_wkdibe_freeslot_t fs; memset(&fs, 0, sizeof fs);
    *(G1*) &sk.a0 = G1::one; *(G2*) &sk.a1 = G2::one; *(G1*) &fs.hexp = G1::one; fs.idx = (uint32_t) idx;
    sk.l = 1; sk.signatures = false; sk.b = &fs; *(G1*) &sk.bsig = G1::zero;
    size_t len = embedded_pairing_wkdibe_secretkey_get_marshalled_length(&sk, c);
    Buf b = buf_alloc(len); memset(b.p, 0xee, len);
    embedded_pairing_wkdibe_secretkey_marshal(b.p, &sk, c);
    embedded_pairing_wkdibe_secretkey_t r; embedded_pairing_wkdibe_freeslot_t rs; memset(&r, 0, sizeof r); memset(&rs, 0, sizeof rs);
    int n = embedded_pairing_wkdibe_secretkey_set_length(&r, b.p, len, c);
    r.b = &rs;
    bool ok = n == 1 && embedded_pairing_wkdibe_secretkey_unmarshal(&r, b.p, c, true);
    printf(" len=%zu ok=%d idx_back=%lu tail=", len, (int) ok, (unsigned long) rs.idx);
    put(b.p + len - 4, 4);
    buf_free(b);
}

// field / group / pairing operations on operands and results placed flush against guard pages: the assembly
// routines are invisible to ASan, an out-of-bounds access faults instead
static void cmd_fieldguard(void) {
    rng_seed(strtoull(arg(1), NULL, 10));
    int n = (int) argi(2);
    int saved = g_guard;
    for (int it = 0; it < n; it++) {
        g_guard = 1 + (it & 1);
        Buf ba = buf_alloc(sizeof(Fq)), bb = buf_alloc(sizeof(Fq)), bo = buf_alloc(sizeof(Fq));
        Fq& a = *(Fq*) ba.p; Fq& b = *(Fq*) bb.p; Fq& o = *(Fq*) bo.p;
        a.random(rng_cb); b.random(rng_cb);
        o.add(a, b); o.subtract(o, b); o.multiply(o, b); o.square(o); o.multiply2(o); o.negate(o); o.inverse(o);
        BigInt<384> v; o.get(v); o.set(v);
        buf_free(ba); buf_free(bb); buf_free(bo);
        Buf b12a = buf_alloc(sizeof(Fq12)), b12o = buf_alloc(sizeof(Fq12));
        Fq12& x = *(Fq12*) b12a.p; Fq12& y = *(Fq12*) b12o.p;
        x.random(rng_cb);
        y.multiply(x, x); y.square(y); y.inverse(y); y.frobenius_map(y, 1 + it % 11);
        Buf bg = buf_alloc(sizeof(G1)), bh = buf_alloc(sizeof(G2));
        G1& p = *(G1*) bg.p; G2& q = *(G2*) bh.p;
        BigInt<256> k; rng_cb(k.bytes, 32);
        p.multiply(G1::one, k); q.multiply(G2::one, k);
        p.add(p, p); q.multiply2(q);
        Buf bpa = buf_alloc(sizeof(G1Affine)), bqa = buf_alloc(sizeof(G2Affine));
        G1Affine& pa = *(G1Affine*) bpa.p; G2Affine& qa = *(G2Affine*) bqa.p;
        pa.from_projective(p); qa.from_projective(q);
        pairing<G2Affine>(y, pa, qa);
        buf_free(b12a); buf_free(b12o); buf_free(bg); buf_free(bh); buf_free(bpa); buf_free(bqa);
    }
    g_guard = saved;
    printf(" iterations=%d", n);
}

#ifndef SCHEME_NO_MAIN
int main(int argc, char** argv) {
    for (int i = 1; i < argc; i++) {
        if (!strcmp(argv[i], "--guard-end")) g_guard = 1;
        else if (!strcmp(argv[i], "--guard-start")) g_guard = 2;
    }
    if (g_guard) { signal(SIGSEGV, on_segv); signal(SIGBUS, on_segv); }
    static char outbuf[1 << 16];
    setvbuf(stdout, outbuf, _IOFBF, sizeof outbuf);
    verif_install_death_flush();
    verif_snapshot_option(argc, argv);
    verif_x86base_option(argc, argv);
    while (read_line(stdin)) {
        if (g_ntok == 0) { printf("\n"); continue; }
        const char* op = g_tok[0];
        printf("%s ", op);
        fflush(stdout);
        if (!strcmp(op, "gen")) cmd_gen();
        else if (!strcmp(op, "unm")) cmd_unm();
        else if (!strcmp(op, "unmseq")) cmd_unmseq();
        else if (!strcmp(op, "lq")) cmd_lq();
        else if (!strcmp(op, "fieldguard")) cmd_fieldguard();
        else if (!strcmp(op, "lens")) cmd_lens();
        else if (!strcmp(op, "slot")) cmd_slot();
        else die("unknown op", op);
        putchar('\n');
        fflush(stdout);
    }
    return 0;
}
#endif
