// Aliasing monitor (C18): for every operation whose signature does not mark an operand __restrict, run it once with a
// distinct output object and once with the output being the same object as one or several inputs, on the same operand
// values, and compare.  Restrict-qualified operands are never aliased (that would be the monitor manufacturing UB).
// Output: one line per (operation, pattern):  row <op> <pattern> tried=<n> mismatches=<m> first=<trial index or -1>
#include "common.h"

#include "bls12_381/bls12_381.h"
#include "bls12_381/fr.hpp"
#include "bls12_381/fq.hpp"
#include "bls12_381/fq2.hpp"
#include "bls12_381/fq6.hpp"
#include "bls12_381/fq12.hpp"
#include "bls12_381/curve.hpp"
#include "bls12_381/pairing.hpp"
#include "bls12_381/decomposition.hpp"

using namespace embedded_pairing::bls12_381;
using embedded_pairing::core::BigInt;

static int g_trials = 8;
static uint64_t g_seed = 1;

// ---------------------------------------------------------------- operand generation (trial index selects special values)
static void gen(Fq& a, int t) {
    switch (t % 8) { case 0: a.copy(Fq::zero); break; case 1: a.copy(Fq::one); break; case 2: a.copy(Fq::negative_one); break; default: a.random(rng_cb); }
}
static void gen(Fr& a, int t) {
    switch (t % 8) { case 0: a.copy(Fr::zero); break; case 1: a.copy(Fr::one); break; default: a.random(rng_cb); }
}
static void gen(Fq2& a, int t) { gen(a.c0, t); gen(a.c1, t / 2 + 3); }
static void gen(Fq6& a, int t) { gen(a.c0, t); gen(a.c1, t + 3); gen(a.c2, t + 5); }
static void gen(Fq12& a, int t) { gen(a.c0, t); gen(a.c1, t + 3); }
template <int bits> static void gen(BigInt<bits>& a, int t) {
    memset(&a, 0, sizeof a);
    // zero, all ones, one, a small value, |x|-1 (the largest single base-|x| digit), 2^64, the rest random
    switch (t % 10) {
    case 0: break;
    case 1: memset(a.bytes, 0xff, bits / 8); break;
    case 2: a.bytes[0] = 1; break;
    case 3: a.bytes[0] = 5; break;
    case 4: { const uint64_t xm1 = 0xd20100000000ffffull; memcpy(a.bytes, &xm1, 8); break; }
    case 5: if (bits > 64) a.bytes[8] = 1; else a.bytes[7] = 0x80; break;
    default: rng_cb(a.bytes, bits / 8); }
}
static void gen(G1& p, int t) {
    if (t % 8 == 0) { p.copy(G1::zero); return; }
    BigInt<256> k; rng_cb(k.bytes, 32);
    p.multiply_doubleadd(G1::one, k);
    if (t % 8 == 1) { G1Affine a; a.from_projective(p); p.from_affine(a); }   // z = 1
}
static void gen(G2& p, int t) {
    if (t % 8 == 0) { p.copy(G2::zero); return; }
    BigInt<256> k; rng_cb(k.bytes, 32);
    p.multiply_doubleadd(G2::one, k);
    if (t % 8 == 1) { G2Affine a; a.from_projective(p); p.from_affine(a); }
}
static void gen(G1Affine& a, int t) { G1 p; gen(p, t); a.from_projective(p); }
static void gen(G2Affine& a, int t) { G2 p; gen(p, t); a.from_projective(p); }
static void gen_gt(Fq12& a, int t) {
    if (t % 8 == 0) { a.copy(Fq12::one); return; }
    BigInt<256> k; rng_cb(k.bytes, 32);
    a.exponentiate_gt_nodiv(generator_pairing, k);
}

// ---------------------------------------------------------------- comparison
template <typename T> static bool same(const T& a, const T& b) { return memcmp(&a, &b, sizeof(T)) == 0; }
static bool same(const G1& a, const G1& b) { return G1::equal(a, b); }
static bool same(const G2& a, const G2& b) { return G2::equal(a, b); }
static bool same(const G1Affine& a, const G1Affine& b) { return G1Affine::equal(a, b); }
static bool same(const G2Affine& a, const G2Affine& b) { return G2Affine::equal(a, b); }

static void row(const char* op, const char* pattern, int tried, int bad, int first) {
    printf("row %s %s tried=%d mismatches=%d first=%d\n", op, pattern, tried, bad, first);
}

// unary: f(out, a).  pattern out=a
template <typename T, typename GenF, typename F>
static void unary_g(const char* name, GenF g, F f) {
    int bad = 0, first = -1;
    for (int t = 0; t < g_trials; t++) {
        T a, ref, x;
        g(a, t);
        memset(&ref, 0xa5, sizeof ref);
        f(ref, a);
        memcpy(&x, &a, sizeof(T));
        f(x, x);
        if (!same(ref, x)) { bad++; if (first < 0) first = t; }
    }
    row(name, "out=a", g_trials, bad, first);
}
template <typename T, typename F> static void unary(const char* name, F f) { unary_g<T>(name, [](T& a, int t) { gen(a, t); }, f); }

// binary: f(out, a, b) with a and out of type T, b of type U.  mask: 1 out=a, 2 out=b (T==U), 4 out=a=b (T==U)
template <typename T, typename U, typename GA, typename GB, typename F>
static void binary_g(const char* name, int mask, GA ga, GB gb, F f) {
    int bad[3] = {0, 0, 0}, first[3] = {-1, -1, -1};
    for (int t = 0; t < g_trials; t++) {
        T a; U b; T ref, x;
        ga(a, t); gb(b, t * 7 + 1);      // 7 is coprime to every special-value period (6, 8, 10): all combinations of residues occur
        memset(&ref, 0xa5, sizeof ref);
        f(ref, a, b);
        if (mask & 1) {
            memcpy(&x, &a, sizeof(T));
            f(x, x, b);
            if (!same(ref, x)) { bad[0]++; if (first[0] < 0) first[0] = t; }
        }
        if constexpr (sizeof(T) == sizeof(U)) {
            if (mask & 2) {
                U y; memcpy(&y, &b, sizeof(U));
                T& yo = *reinterpret_cast<T*>(&y);
                f(yo, a, y);
                if (!same(ref, yo)) { bad[1]++; if (first[1] < 0) first[1] = t; }
            }
            if (mask & 4) {
                T ref2; memset(&ref2, 0xa5, sizeof ref2);
                const U& au = *reinterpret_cast<const U*>(&a);
                f(ref2, a, au);
                memcpy(&x, &a, sizeof(T));
                f(x, x, *reinterpret_cast<U*>(&x));
                if (!same(ref2, x)) { bad[2]++; if (first[2] < 0) first[2] = t; }
            }
        }
    }
    if (mask & 1) row(name, "out=a", g_trials, bad[0], first[0]);
    if (mask & 2) row(name, "out=b", g_trials, bad[1], first[1]);
    if (mask & 4) row(name, "out=a=b", g_trials, bad[2], first[2]);
}
template <typename T, typename U, typename F> static void binary(const char* name, int mask, F f) {
    binary_g<T, U>(name, mask, [](T& a, int t) { gen(a, t); }, [](U& b, int t) { gen(b, t); }, f);
}

template <typename F> static void field_rows(const char* n) {
    char nm[64];
#define NM(s) (snprintf(nm, sizeof nm, "%s::%s", n, s), nm)
    binary<F, F>(NM("add"), 1, [](F& o, const F& a, const F& b) { o.add(a, b); });
    binary<F, F>(NM("subtract"), 1, [](F& o, const F& a, const F& b) { o.subtract(a, b); });
    binary<F, F>(NM("multiply"), 7, [](F& o, const F& a, const F& b) { o.multiply(a, b); });
    unary<F>(NM("square"), [](F& o, const F& a) { o.square(a); });
    unary<F>(NM("multiply2"), [](F& o, const F& a) { o.multiply2(a); });
    unary<F>(NM("negate"), [](F& o, const F& a) { o.negate(a); });
    unary<F>(NM("copy"), [](F& o, const F& a) { o.copy(a); });
#undef NM
}

template <typename F> static void ext_rows(const char* n) {
    char nm[64];
#define NM(s) (snprintf(nm, sizeof nm, "%s::%s", n, s), nm)
    field_rows<F>(n);
    unary<F>(NM("inverse"), [](F& o, const F& a) { o.inverse(a); });
    unary<F>(NM("frobenius_map(1)"), [](F& o, const F& a) { o.frobenius_map(a, 1); });
    unary<F>(NM("frobenius_map(5)"), [](F& o, const F& a) { o.frobenius_map(a, 5); });
    binary<F, BigInt<256>>(NM("exponentiate"), 1, [](F& o, const F& a, const BigInt<256>& e) { embedded_pairing::core::exponentiate(o, a, e); });
#undef NM
}

template <int bits> static void bigint_rows(const char* n) {
    typedef BigInt<bits> B;
    char nm[64];
#define NM(s) (snprintf(nm, sizeof nm, "%s::%s", n, s), nm)
    binary<B, B>(NM("add"), 1, [](B& o, const B& a, const B& b) { o.add(a, b); });
    binary<B, B>(NM("subtract"), 1, [](B& o, const B& a, const B& b) { o.subtract(a, b); });
    unary<B>(NM("shift_left_in_word<1>"), [](B& o, const B& a) { o.template shift_left_in_word<1>(a); });
    unary<B>(NM("shift_right_in_word<1>"), [](B& o, const B& a) { o.template shift_right_in_word<1>(a); });
    unary<B>(NM("shift_left(7)"), [](B& o, const B& a) { o.shift_left(a, 7); });
    unary<B>(NM("shift_left(64)"), [](B& o, const B& a) { o.shift_left(a, 64); });
    unary<B>(NM("shift_left(100)"), [](B& o, const B& a) { o.shift_left(a, 100); });
    unary<B>(NM("shift_right(7)"), [](B& o, const B& a) { o.shift_right(a, 7); });
    unary<B>(NM("shift_right(64)"), [](B& o, const B& a) { o.shift_right(a, 64); });
    unary<B>(NM("shift_right(100)"), [](B& o, const B& a) { o.shift_right(a, 100); });
    unary<B>(NM("copy"), [](B& o, const B& a) { o.copy(a); });
    unary<B>(NM("divide_word<10>"), [](B& o, const B& a) { o.template divide_word<10>(a); });
    unary<B>(NM("divide_std_dword<|x|>"), [](B& o, const B& a) { o.template divide_std_dword<0xd201000000010000ull>(a); });
#undef NM
}

// another representative of the same point: (x l^2, y l^3, z l) with l taken from the point's own coordinates (non-zero unless degenerate)
template <typename G> static void rescale(G& c, const G& a) {
    auto l = a.y; l.add(l, a.x);
    if (l.is_zero()) l.copy(decltype(l)::one);
    auto l2 = l; l2.square(l);
    auto l3 = l2; l3.multiply(l2, l);
    c.x.multiply(a.x, l2); c.y.multiply(a.y, l3); c.z.multiply(a.z, l);
}

template <typename G, typename GA> static void curve_rows(const char* n) {
    char nm[64];
#define NM(s) (snprintf(nm, sizeof nm, "%s::%s", n, s), nm)
    binary<G, G>(NM("add"), 1, [](G& o, const G& a, const G& b) { o.add(a, b); });
    // P + P and P + (-P) through add with out = a
    binary_g<G, G>(NM("add(P,P)"), 1, [](G& a, int t) { gen(a, t + 1); }, [](G& b, int t) { (void) t; b.copy(G::zero); },
                   [](G& o, const G& a, const G& b) { (void) b; G c; c.copy(a); o.add(a, c); });
    // ... and the same point / its negative in ANOTHER Jacobian representative (x l^2, y l^3, z l): the equal-points detour of the addition
    // is then reached through the computed U1 == U2, S1 == S2 comparison, not through byte equality
    binary_g<G, G>(NM("add(P,P')"), 1, [](G& a, int t) { gen(a, t + 1); }, [](G& b, int t) { (void) t; b.copy(G::zero); },
                   [](G& o, const G& a, const G& b) { (void) b; G c; rescale(c, a); o.add(a, c); });
    binary_g<G, G>(NM("add(P',P)"), 1, [](G& a, int t) { G p; gen(p, t + 1); rescale(a, p); }, [](G& b, int t) { (void) t; b.copy(G::zero); },
                   [](G& o, const G& a, const G& b) { (void) b; GA n; n.from_projective(a); G c; c.from_affine(n); o.add(a, c); });
    binary_g<G, G>(NM("add(P,-P')"), 1, [](G& a, int t) { gen(a, t + 1); }, [](G& b, int t) { (void) t; b.copy(G::zero); },
                   [](G& o, const G& a, const G& b) { (void) b; G c; rescale(c, a); c.negate(c); o.add(a, c); });
    binary_g<G, G>(NM("add_mixed(P,P)"), 1, [](G& a, int t) { gen(a, t + 1); }, [](G& b, int t) { (void) t; b.copy(G::zero); },
                   [](G& o, const G& a, const G& b) { (void) b; GA c; c.from_projective(a); o.add(a, c); });
    binary_g<G, G>(NM("add_mixed(P,-P)"), 1, [](G& a, int t) { gen(a, t + 1); }, [](G& b, int t) { (void) t; b.copy(G::zero); },
                   [](G& o, const G& a, const G& b) { (void) b; GA c; c.from_projective(a); c.negate(c); o.add(a, c); });
    binary<G, GA>(NM("add_mixed"), 1, [](G& o, const G& a, const GA& b) { o.add(a, b); });
    unary<G>(NM("multiply2"), [](G& o, const G& a) { o.multiply2(a); });
    unary<G>(NM("negate"), [](G& o, const G& a) { o.negate(a); });
    unary<G>(NM("copy"), [](G& o, const G& a) { o.copy(a); });
    binary<G, BigInt<256>>(NM("multiply"), 1, [](G& o, const G& a, const BigInt<256>& k) { o.multiply(a, k); });
    binary<G, BigInt<256>>(NM("multiply_doubleadd"), 1, [](G& o, const G& a, const BigInt<256>& k) { o.multiply_doubleadd(a, k); });
    binary<G, BigInt<256>>(NM("multiply_wnaf"), 1, [](G& o, const G& a, const BigInt<256>& k) { o.template multiply_wnaf<G, BigInt<256>, 4>(a, k); });
    unary<GA>(NM("Affine::negate"), [](GA& o, const GA& a) { o.negate(a); });
    unary<GA>(NM("Affine::copy"), [](GA& o, const GA& a) { o.copy(a); });
#undef NM
}

#define C1(p) ((embedded_pairing_bls12_381_g1_t*) (p))
#define C2(p) ((embedded_pairing_bls12_381_g2_t*) (p))
#define CT(p) ((embedded_pairing_bls12_381_fq12_t*) (p))
#define CKK(p) ((const embedded_pairing_core_bigint_256_t*) (p))

static void capi_rows(void) {
    binary<G1, G1>("embedded_pairing_bls12_381_g1_add", 1, [](G1& o, const G1& a, const G1& b) { embedded_pairing_bls12_381_g1_add(C1(&o), C1(&a), C1(&b)); });
    binary<G1, G1Affine>("embedded_pairing_bls12_381_g1_add_mixed", 1, [](G1& o, const G1& a, const G1Affine& b) { embedded_pairing_bls12_381_g1_add_mixed(C1(&o), C1(&a), (const embedded_pairing_bls12_381_g1affine_t*) &b); });
    unary<G1>("embedded_pairing_bls12_381_g1_negate", [](G1& o, const G1& a) { embedded_pairing_bls12_381_g1_negate(C1(&o), C1(&a)); });
    unary<G1>("embedded_pairing_bls12_381_g1_double", [](G1& o, const G1& a) { embedded_pairing_bls12_381_g1_double(C1(&o), C1(&a)); });
    binary<G1, BigInt<256>>("embedded_pairing_bls12_381_g1_multiply", 1, [](G1& o, const G1& a, const BigInt<256>& k) { embedded_pairing_bls12_381_g1_multiply(C1(&o), C1(&a), CKK(&k)); });
    unary<G1Affine>("embedded_pairing_bls12_381_g1affine_negate", [](G1Affine& o, const G1Affine& a) { embedded_pairing_bls12_381_g1affine_negate((embedded_pairing_bls12_381_g1affine_t*) &o, (const embedded_pairing_bls12_381_g1affine_t*) &a); });
    binary<G2, G2>("embedded_pairing_bls12_381_g2_add", 1, [](G2& o, const G2& a, const G2& b) { embedded_pairing_bls12_381_g2_add(C2(&o), C2(&a), C2(&b)); });
    binary<G2, G2Affine>("embedded_pairing_bls12_381_g2_add_mixed", 1, [](G2& o, const G2& a, const G2Affine& b) { embedded_pairing_bls12_381_g2_add_mixed(C2(&o), C2(&a), (const embedded_pairing_bls12_381_g2affine_t*) &b); });
    unary<G2>("embedded_pairing_bls12_381_g2_negate", [](G2& o, const G2& a) { embedded_pairing_bls12_381_g2_negate(C2(&o), C2(&a)); });
    unary<G2>("embedded_pairing_bls12_381_g2_double", [](G2& o, const G2& a) { embedded_pairing_bls12_381_g2_double(C2(&o), C2(&a)); });
    binary<G2, BigInt<256>>("embedded_pairing_bls12_381_g2_multiply", 1, [](G2& o, const G2& a, const BigInt<256>& k) { embedded_pairing_bls12_381_g2_multiply(C2(&o), C2(&a), CKK(&k)); });
    unary<G2Affine>("embedded_pairing_bls12_381_g2affine_negate", [](G2Affine& o, const G2Affine& a) { embedded_pairing_bls12_381_g2affine_negate((embedded_pairing_bls12_381_g2affine_t*) &o, (const embedded_pairing_bls12_381_g2affine_t*) &a); });
    auto ggt = [](Fq12& a, int t) { gen_gt(a, t); };
    binary_g<Fq12, Fq12>("embedded_pairing_bls12_381_gt_add", 7, ggt, ggt, [](Fq12& o, const Fq12& a, const Fq12& b) { embedded_pairing_bls12_381_gt_add(CT(&o), CT(&a), CT(&b)); });
    unary_g<Fq12>("embedded_pairing_bls12_381_gt_negate", ggt, [](Fq12& o, const Fq12& a) { embedded_pairing_bls12_381_gt_negate(CT(&o), CT(&a)); });
    unary_g<Fq12>("embedded_pairing_bls12_381_gt_double", ggt, [](Fq12& o, const Fq12& a) { embedded_pairing_bls12_381_gt_double(CT(&o), CT(&a)); });
    binary_g<Fq12, BigInt<256>>("embedded_pairing_bls12_381_gt_multiply", 1, ggt, [](BigInt<256>& k, int t) { gen(k, t); },
                                [](Fq12& o, const Fq12& a, const BigInt<256>& k) { embedded_pairing_bls12_381_gt_multiply(CT(&o), CT(&a), CKK(&k)); });
    // gt_multiply_random with result == base: same scripted random stream for both runs
    unary_g<Fq12>("embedded_pairing_bls12_381_gt_multiply_random(result==base)", ggt, [](Fq12& o, const Fq12& a) {
        uint64_t save = g_rng_fallback; g_rng_fallback = 0x1234abcdull;
        embedded_pairing_core_bigint_256_t y;
        embedded_pairing_bls12_381_gt_multiply_random(CT(&o), &y, CT(&a), rng_cb);
        g_rng_fallback = save;
    });
}

int main(int argc, char** argv) {
    for (int i = 1; i < argc; i++) {
        if (!strcmp(argv[i], "--trials") && i + 1 < argc) g_trials = atoi(argv[++i]);
        else if (!strcmp(argv[i], "--seed") && i + 1 < argc) g_seed = strtoull(argv[++i], NULL, 10);
    }
    rng_seed(g_seed);
    bigint_rows<256>("BigInt<256>");
    bigint_rows<384>("BigInt<384>");
    bigint_rows<128>("BigInt<128>");
    field_rows<Fq>("Fq");
    field_rows<Fr>("Fr");
    unary<Fq>("Fq::inverse", [](Fq& o, const Fq& a) { o.inverse(a); });
    unary<Fr>("fp_inverse<Fr>", [](Fr& o, const Fr& a) { embedded_pairing::core::fp_inverse(o, a); });
    unary<Fq>("Fq::square_root", [](Fq& o, const Fq& a) { o.square_root(a); });
    binary<Fq, BigInt<384>>("exponentiate<Fq>", 1, [](Fq& o, const Fq& a, const BigInt<384>& e) { embedded_pairing::core::exponentiate(o, a, e); });
    binary<Fr, BigInt<256>>("exponentiate<Fr>", 1, [](Fr& o, const Fr& a, const BigInt<256>& e) { embedded_pairing::core::exponentiate(o, a, e); });
    ext_rows<Fq2>("Fq2");
    ext_rows<Fq6>("Fq6");
    ext_rows<Fq12>("Fq12");
    unary<Fq2>("Fq2::multiply_by_nonresidue", [](Fq2& o, const Fq2& a) { o.multiply_by_nonresidue(a); });
    unary<Fq6>("Fq6::multiply_by_nonresidue", [](Fq6& o, const Fq6& a) { o.multiply_by_nonresidue(a); });
    binary<Fq6, Fq2>("Fq6::multiply_by_c1", 1, [](Fq6& o, const Fq6& a, const Fq2& c) { o.multiply_by_c1(a, c); });
    binary<Fq6, Fq2>("Fq6::multiply_by_c01", 1, [](Fq6& o, const Fq6& a, const Fq2& c) { Fq2 d; d.square(c); o.multiply_by_c01(a, c, d); });
    binary<Fq12, Fq2>("Fq12::multiply_by_c014", 1, [](Fq12& o, const Fq12& a, const Fq2& c) { Fq2 d, e; d.square(c); e.multiply2(c); o.multiply_by_c014(a, c, d, e); });
    unary<Fq12>("Fq12::conjugate", [](Fq12& o, const Fq12& a) { o.conjugate(a); });
    unary<Fq12>("Fq12::map_to_cyclotomic", [](Fq12& o, const Fq12& a) { if (a.is_zero()) { o.copy(a); return; } o.map_to_cyclotomic(a); });
    unary<Fq12>("final_exponentiation", [](Fq12& o, const Fq12& a) { if (a.is_zero()) { o.copy(a); return; } final_exponentiation(o, a); });
    auto ggt = [](Fq12& a, int t) { gen_gt(a, t); };
    unary_g<Fq12>("Fq12::square_cyclotomic", ggt, [](Fq12& o, const Fq12& a) { o.square_cyclotomic(a); });
    binary_g<Fq12, BigInt<256>>("Fq12::exponentiate_gt_div", 1, ggt, [](BigInt<256>& k, int t) { gen(k, t); }, [](Fq12& o, const Fq12& a, const BigInt<256>& k) { o.exponentiate_gt_div(a, k); });
    binary_g<Fq12, BigInt<256>>("Fq12::exponentiate_gt_nodiv", 1, ggt, [](BigInt<256>& k, int t) { gen(k, t); }, [](Fq12& o, const Fq12& a, const BigInt<256>& k) { o.exponentiate_gt_nodiv(a, k); });
    binary_g<Fq12, BigInt<256>>("Fq12::exponentiate_gt(PowersOfX)", 1, ggt, [](BigInt<256>& k, int t) { gen(k, t); },
                                [](Fq12& o, const Fq12& a, const BigInt<256>& k) { PowersOfX s; s.decompose(k); o.exponentiate_gt(a, s); });
    curve_rows<G1, G1Affine>("G1");
    curve_rows<G2, G2Affine>("G2");
    unary<G1>("G1::endomorphism", [](G1& o, const G1& a) { o.endomorphism(a); });
    unary<G2>("G2::frobenius_map(1)", [](G2& o, const G2& a) { o.frobenius_map(a, 1); });
    binary<G1, BigInt<128>>("G1::multiply<BigInt<128>>", 1, [](G1& o, const G1& a, const BigInt<128>& k) { o.multiply(a, k); });
    binary<G2, BigInt<512>>("G2::multiply<BigInt<512>>", 1, [](G2& o, const G2& a, const BigInt<512>& k) { o.multiply(a, k); });
    capi_rows();
    fflush(stdout);
    return 0;
}
