// Shared helpers for workload drivers. C library headers only, so the drivers also
// compile in the 32-bit-word configuration (-U__SIZEOF_INT128__).
#ifndef VERIF_COMMON_H_
#define VERIF_COMMON_H_

#include <stdint.h>
#include <stdio.h>
#include <stdlib.h>
#include <string.h>

#include <signal.h>
#include <unistd.h>

// When a sanitizer kills the process (or a fatal signal arrives) the buffered stdout still names the operation in flight: flush it,
// so that the harness attributes the report to the right driver line.
extern "C" void __sanitizer_set_death_callback(void (*)(void)) __attribute__((weak));
static void verif_flush_on_death(void) { fflush(stdout); }
static void verif_flush_on_signal(int sig) { fflush(stdout); signal(sig, SIG_DFL); raise(sig); }
static void verif_install_death_flush(void) {
    if (__sanitizer_set_death_callback) __sanitizer_set_death_callback(verif_flush_on_death);
    // only where nobody else handles the signal (the guard-page drivers and the sanitizer runtimes install their own handlers)
    int sigs[] = {SIGSEGV, SIGBUS, SIGABRT, SIGFPE, SIGILL};
    for (unsigned i = 0; i < sizeof sigs / sizeof sigs[0]; i++) {
        struct sigaction old;
        if (sigaction(sigs[i], NULL, &old) == 0 && old.sa_handler == SIG_DFL && !(old.sa_flags & SA_SIGINFO)) signal(sigs[i], verif_flush_on_signal);
    }
}

// --snapshot FILE (any driver that calls verif_snapshot_option): FILE lists "hexaddr size name" of the library's writable symbols in this
// executable.  They are copied when main starts (static initialisers have run) and compared when the process exits: a library that keeps
// state between calls in ANY of its entry points - also the C++-only ones the C20 driver never calls - changes one of them.
static struct { uintptr_t addr; size_t size; char name[200]; uint8_t* copy; } g_snap_sym[512];
static int g_snap_n;
static void verif_snapshot_compare(void) {
    int changed = 0;
    fflush(stdout);
    for (int i = 0; i < g_snap_n; i++) if (memcmp(g_snap_sym[i].copy, (void*) g_snap_sym[i].addr, g_snap_sym[i].size) != 0) { fprintf(stderr, "WRITABLE-SYMBOL-CHANGED %s size=%zu\n", g_snap_sym[i].name, g_snap_sym[i].size); changed++; }
    fflush(stderr);
    if (changed) _exit(95);
}
static void verif_snapshot_option(int argc, char** argv) {
    for (int i = 1; i + 1 < argc; i++) if (!strcmp(argv[i], "--snapshot")) {
        FILE* f = fopen(argv[i + 1], "r");
        if (!f) { fprintf(stderr, "DRIVER-ERROR: cannot open %s\n", argv[i + 1]); exit(3); }
        unsigned long a, sz; char nm[200];
        while (g_snap_n < 512 && fscanf(f, "%lx %lu %199s", &a, &sz, nm) == 3) {
            g_snap_sym[g_snap_n].addr = a; g_snap_sym[g_snap_n].size = sz; strcpy(g_snap_sym[g_snap_n].name, nm);
            g_snap_sym[g_snap_n].copy = (uint8_t*) malloc(sz); memcpy(g_snap_sym[g_snap_n].copy, (void*) a, sz); g_snap_n++;
        }
        fclose(f);
        atexit(verif_snapshot_compare);
    }
}

#define MAXTOK 8192
#define LINEBUF (1 << 20)

static char* g_line;
static char* g_tok[MAXTOK];
static int g_ntok;

static void die(const char* msg, const char* detail) {
    fprintf(stderr, "DRIVER-ERROR: %s %s\n", msg, detail ? detail : "");
    fflush(stderr);
    exit(3);
}

static int hexval(char c) {
    if (c >= '0' && c <= '9') return c - '0';
    if (c >= 'a' && c <= 'f') return c - 'a' + 10;
    if (c >= 'A' && c <= 'F') return c - 'A' + 10;
    return -1;
}

// parse exactly n bytes
static void unhex(const char* s, void* dst, size_t n) {
    size_t len = strlen(s);
    if (len != 2 * n) {
        char buf[128];
        snprintf(buf, sizeof buf, "expected %zu hex bytes, got %zu chars (op %s)", n, len, g_tok[0]);
        die("bad token length", buf);
    }
    uint8_t* d = (uint8_t*) dst;
    for (size_t i = 0; i < n; i++) {
        int h = hexval(s[2 * i]), l = hexval(s[2 * i + 1]);
        if (h < 0 || l < 0) die("bad hex", s);
        d[i] = (uint8_t) ((h << 4) | l);
    }
}

// parse variable number of bytes into malloc'd buffer
static uint8_t* unhex_var(const char* s, size_t* n_out) {
    size_t len = strlen(s);
    if (len == 1 && s[0] == '-') { *n_out = 0; return (uint8_t*) malloc(1); }
    if (len % 2) die("odd hex length", s);
    size_t n = len / 2;
    uint8_t* d = (uint8_t*) malloc(n ? n : 1);
    for (size_t i = 0; i < n; i++) {
        int h = hexval(s[2 * i]), l = hexval(s[2 * i + 1]);
        if (h < 0 || l < 0) die("bad hex", s);
        d[i] = (uint8_t) ((h << 4) | l);
    }
    *n_out = n;
    return d;
}

static void put(const void* src, size_t n) {
    static const char* hx = "0123456789abcdef";
    const uint8_t* s = (const uint8_t*) src;
    putchar(' ');
    if (n == 0) { putchar('-'); return; }
    for (size_t i = 0; i < n; i++) {
        putchar(hx[s[i] >> 4]);
        putchar(hx[s[i] & 15]);
    }
}

static void puti(long long v) { printf(" %lld", v); }

static const char* arg(int i) {
    if (i >= g_ntok) die("missing argument for op", g_tok[0]);
    return g_tok[i];
}
static long argi(int i) { return strtol(arg(i), NULL, 10); }
static unsigned long argu(int i) { return strtoul(arg(i), NULL, 10); }

static int read_line(FILE* f) {
    if (!g_line) g_line = (char*) malloc(LINEBUF);
    if (!fgets(g_line, LINEBUF, f)) return 0;
    size_t len = strlen(g_line);
    while (len && (g_line[len - 1] == '\n' || g_line[len - 1] == '\r')) g_line[--len] = 0;
    g_ntok = 0;
    char* p = g_line;
    while (*p) {
        while (*p == ' ') p++;
        if (!*p) break;
        if (g_ntok == MAXTOK) die("too many tokens", g_line);
        g_tok[g_ntok++] = p;
        while (*p && *p != ' ') p++;
        if (*p) *p++ = 0;
    }
    return 1;
}

// ------------------------------------------------------------------ scripted RNG
static uint8_t* g_rng_buf;
static size_t g_rng_len, g_rng_pos;
static size_t g_rng_reqs[4096];
static int g_rng_nreq;
static int g_rng_exhausted;
static uint64_t g_rng_fallback = 0x9e3779b97f4a7c15ull;

static void rng_script(const char* hex) {
    free(g_rng_buf);
    g_rng_buf = unhex_var(hex, &g_rng_len);
    g_rng_pos = 0;
    g_rng_nreq = 0;
    g_rng_exhausted = 0;
}

static void rng_seed(uint64_t s) {
    free(g_rng_buf);
    g_rng_buf = NULL;
    g_rng_len = g_rng_pos = 0;
    g_rng_nreq = 0;
    g_rng_exhausted = 0;
    g_rng_fallback = s * 0x9e3779b97f4a7c15ull + 0x1234567;
}

static uint64_t xs64(void) {
    uint64_t x = g_rng_fallback;
    x ^= x << 13; x ^= x >> 7; x ^= x << 17;
    g_rng_fallback = x;
    return x * 0x2545F4914F6CDD1Dull;
}

static void rng_cb(void* buf, size_t n) {
    uint8_t* b = (uint8_t*) buf;
    if (g_rng_nreq < 4096) g_rng_reqs[g_rng_nreq] = n;
    g_rng_nreq++;
    for (size_t i = 0; i < n; i++) {
        if (g_rng_pos < g_rng_len) {
            b[i] = g_rng_buf[g_rng_pos++];
        } else {
            if (g_rng_buf) g_rng_exhausted = 1;
            b[i] = (uint8_t) (xs64() >> 32);
        }
    }
}

// prints: consumed exhausted nreq sizes(comma separated, first 64)
static void put_rng_log(void) {
    printf(" %zu %d %d ", g_rng_pos, g_rng_exhausted, g_rng_nreq);
    int n = g_rng_nreq < 200 ? g_rng_nreq : 200;
    if (n == 0) putchar('-');
    for (int i = 0; i < n; i++) printf(i ? ",%zu" : "%zu", g_rng_reqs[i]);
}

#endif
