// Smoke workload executed inside the freestanding closure link (C20): pairing of the generators equals the exported
// constant; one WKD-IBE and one LQ-IBE round trip with a PRNG callback.  No headers beyond the library's own.
#include "bls12_381/bls12_381.h"
#include "wkdibe/wkdibe.h"
#include "lqibe/lqibe.h"

static unsigned long long st = 0x243f6a8885a308d3ull;
static void prng(void* buf, size_t n) {
    unsigned char* b = (unsigned char*) buf;
    for (size_t i = 0; i < n; i++) { st ^= st << 13; st ^= st >> 7; st ^= st << 17; b[i] = (unsigned char) (st >> 24); }
}
static void hashf(void* out, size_t outlen, const void* in, size_t inlen) {
    unsigned char* o = (unsigned char*) out; const unsigned char* p = (const unsigned char*) in;
    for (size_t i = 0; i < outlen; i++) o[i] = (unsigned char) i;
    if (outlen) for (size_t i = 0; i < inlen; i++) o[i % outlen] ^= (unsigned char) (p[i] + i);
}

extern "C" int smoke(void) {
    embedded_pairing_bls12_381_fq12_t e;
    embedded_pairing_bls12_381_pairing(&e, embedded_pairing_bls12_381_g1affine_generator, embedded_pairing_bls12_381_g2affine_generator);
    if (!embedded_pairing_bls12_381_gt_equal(&e, embedded_pairing_bls12_381_gt_generator)) return 1;

    static embedded_pairing_wkdibe_g1_t h[2];
    static embedded_pairing_wkdibe_freeslot_t b[2];
    embedded_pairing_wkdibe_params_t p; embedded_pairing_wkdibe_masterkey_t m; embedded_pairing_wkdibe_secretkey_t sk;
    p.h = h; sk.b = b;
    embedded_pairing_wkdibe_setup(&p, &m, 2, true, prng);
    embedded_pairing_wkdibe_attribute_t at[1];
    for (unsigned i = 0; i < sizeof at[0].id; i++) ((unsigned char*) &at[0].id)[i] = (unsigned char) (i + 1);
    at[0].idx = 1; at[0].omitFromKeys = false;
    embedded_pairing_wkdibe_attributelist_t al; al.attrs = at; al.length = 1; al.omitAllFromKeysUnlessPresent = false;
    embedded_pairing_wkdibe_keygen(&sk, &p, &m, &al, prng);
    embedded_pairing_wkdibe_gt_t msg, dec;
    embedded_pairing_wkdibe_random_gt(&msg, prng);
    embedded_pairing_wkdibe_ciphertext_t ct;
    embedded_pairing_wkdibe_encrypt(&ct, &msg, &p, &al, prng);
    embedded_pairing_wkdibe_decrypt(&dec, &ct, &sk);
    if (!embedded_pairing_bls12_381_gt_equal(&dec, &msg)) return 2;
    embedded_pairing_wkdibe_signature_t sg; embedded_pairing_wkdibe_scalar_t ms;
    prng(&ms, sizeof ms);
    embedded_pairing_wkdibe_sign(&sg, &p, &sk, &al, &ms, prng);
    if (!embedded_pairing_wkdibe_verify(&p, &al, &sg, &ms)) return 3;
    static unsigned char mb[2048];
    if (embedded_pairing_wkdibe_secretkey_get_marshalled_length(&sk, true) > sizeof mb) return 4;
    embedded_pairing_wkdibe_secretkey_marshal(mb, &sk, true);
    embedded_pairing_wkdibe_secretkey_t sk2; static embedded_pairing_wkdibe_freeslot_t b2[2]; sk2.b = b2;
    if (embedded_pairing_wkdibe_secretkey_set_length(&sk2, mb, embedded_pairing_wkdibe_secretkey_get_marshalled_length(&sk, true), true) != 1) return 5;
    if (!embedded_pairing_wkdibe_secretkey_unmarshal(&sk2, mb, true, true)) return 6;

    embedded_pairing_lqibe_params_t lp; embedded_pairing_lqibe_masterkey_t lm; embedded_pairing_lqibe_id_t id; embedded_pairing_lqibe_secretkey_t lsk; embedded_pairing_lqibe_ciphertext_t lct;
    embedded_pairing_lqibe_idhash_t ih; prng(ih.hash, sizeof ih.hash);
    embedded_pairing_lqibe_setup(&lp, &lm, prng);
    embedded_pairing_lqibe_compute_id_from_hash(&id, &ih);
    embedded_pairing_lqibe_keygen(&lsk, &lm, &id);
    unsigned char k1[32], k2[32];
    embedded_pairing_lqibe_encrypt(&lct, k1, 32, &lp, &id, hashf, prng);
    embedded_pairing_lqibe_decrypt(k2, 32, &lct, &lsk, &id, hashf);
    for (int i = 0; i < 32; i++) if (k1[i] != k2[i]) return 7;
    return 0;
}
