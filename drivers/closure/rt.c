/* Minimal freestanding runtime for the closure monitor (C20): only the C memory primitives the library is
 * documented to need, an entry point that runs the static initialisers, the smoke workload, and exits through
 * a raw system call.  Anything else the library references fails the link. */
typedef unsigned long size_t;

void* memcpy(void* d, const void* s, size_t n) { unsigned char* a = d; const unsigned char* b = s; while (n--) *a++ = *b++; return d; }
void* memmove(void* d, const void* s, size_t n) {
    unsigned char* a = d; const unsigned char* b = s;
    if (a < b) { while (n--) *a++ = *b++; } else { a += n; b += n; while (n--) *--a = *--b; }
    return d;
}
void* memset(void* d, int c, size_t n) { unsigned char* a = d; while (n--) *a++ = (unsigned char) c; return d; }
int memcmp(const void* x, const void* y, size_t n) { const unsigned char* a = x; const unsigned char* b = y; while (n--) { if (*a != *b) return *a - *b; a++; b++; } return 0; }
int bcmp(const void* x, const void* y, size_t n) { return memcmp(x, y, n); }

extern void (*__init_array_start[])(void);
extern void (*__init_array_end[])(void);
int smoke(void);

static void sys_exit(int code) { __asm__ volatile("syscall" : : "a"(231L), "D"((long) code) : "rcx", "r11", "memory"); for (;;) {} }
static long sys_write(int fd, const void* buf, size_t n) { long r; __asm__ volatile("syscall" : "=a"(r) : "a"(1L), "D"((long) fd), "S"(buf), "d"(n) : "rcx", "r11", "memory"); return r; }

void start_c(void) {
    for (void (**p)(void) = __init_array_start; p < __init_array_end; p++) (*p)();
    int rc = smoke();
    const char ok[] = "CLOSURE-SMOKE-OK\n", bad[] = "CLOSURE-SMOKE-FAILED\n";
    if (rc == 0) sys_write(1, ok, sizeof ok - 1); else sys_write(1, bad, sizeof bad - 1);
    sys_exit(rc);
}

__attribute__((naked)) void _start(void) {
    __asm__ volatile("xor %rbp, %rbp\n\tand $-16, %rsp\n\tcall start_c\n\thlt");
}
