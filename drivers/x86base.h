// --x86base for drivers that do not otherwise touch the raw routines: re-point the run-time dispatch table at the baseline
// (non-BMI2/ADX) x86-64 assembly routines, the family a CPU without those extensions would use.
#ifndef VERIF_X86BASE_H_
#define VERIF_X86BASE_H_
#include "core/bigint.hpp"
#include "core/fp.hpp"
#if !defined(DISABLE_ASM) && defined(__x86_64__)
extern "C" {
    void embedded_pairing_core_arch_x86_64_fpbase_384_montgomery_reduce(void* res, void* a, const void* p, uint64_t inv_word);
    void embedded_pairing_core_arch_x86_64_bigint_768_multiply(void* res, const void* a, const void* b);
    void embedded_pairing_core_arch_x86_64_bigint_768_square(void* res, const void* a);
}
static bool verif_x86base_option(int argc, char** argv) {
    for (int i = 1; i < argc; i++) if (!strcmp(argv[i], "--x86base")) {
        embedded_pairing::core::runtime_fpbase_384_montgomery_reduce = embedded_pairing_core_arch_x86_64_fpbase_384_montgomery_reduce;
        embedded_pairing::core::runtime_bigint_768_multiply = embedded_pairing_core_arch_x86_64_bigint_768_multiply;
        embedded_pairing::core::runtime_bigint_768_square = embedded_pairing_core_arch_x86_64_bigint_768_square;
        return true;
    }
    return false;
}
#else
static bool verif_x86base_option(int argc, char** argv) {
    for (int i = 1; i < argc; i++) if (!strcmp(argv[i], "--x86base")) { fprintf(stderr, "DRIVER-ERROR: --x86base needs an assembly build\n"); exit(3); }
    return false;
}
#endif
#endif
