// libFuzzer target (C17 thorough tier): the Go-binding unmarshal protocol on arbitrary bytes.
// byte 0 selects object kind, encoding and validation; the rest is the untrusted buffer (copied to an exact-size heap block).
#define SCHEME_NO_MAIN
#include "scheme_drv.cpp"

extern "C" int LLVMFuzzerTestOneInput(const uint8_t* data, size_t size) {
    if (size < 2) return 0;
    int kind = (data[0] & 0x0f) % NKIND;
    bool c = (data[0] & 0x10) != 0, checked = (data[0] & 0x20) != 0;
    size_t n = size - 1;
    uint8_t* buf = (uint8_t*) malloc(n);
    memcpy(buf, data + 1, n);
    Objects o; memset(&o, 0, sizeof o);
    int sl;
    int ok = do_unmarshal(kind, o, buf, n, c, checked, &sl);
    if (ok == 1) {
        size_t len = get_len(kind, o, c);
        if (len != n) __builtin_trap();                 // accepted object must report the length it was parsed from
        uint8_t* re = (uint8_t*) malloc(len ? len : 1);
        do_marshal(kind, o, re, c);
        free(re);
    }
    free(buf);
    free_objects(o);
    return 0;
}
