// C19 behavioural monitor: every extern "C" function is called next to the C++ operation it is documented to forward to,
// on the same inputs (same PRNG state for the callbacks); outputs must be identical.  One row per C symbol:
//   row <symbol> tried=<n> mismatches=<m>
// The check compares the set of rows with the symbol table of the built objects, so a wrapper without a row fails the run.
#include "common.h"

#include "bls12_381/bls12_381.h"
#include "wkdibe/wkdibe.h"
#include "lqibe/lqibe.h"
#include "bls12_381/pairing.hpp"
#include "bls12_381/curve.hpp"
#include "wkdibe/api.hpp"
#include "lqibe/api.hpp"

using namespace embedded_pairing::bls12_381;
using embedded_pairing::core::BigInt;
namespace wk = embedded_pairing::wkdibe;
namespace lq = embedded_pairing::lqibe;

static int g_n = 6;
static uint64_t g_seed = 1;

typedef embedded_pairing_bls12_381_g1_t cg1; typedef embedded_pairing_bls12_381_g2_t cg2;
typedef embedded_pairing_bls12_381_g1affine_t cg1a; typedef embedded_pairing_bls12_381_g2affine_t cg2a;
typedef embedded_pairing_bls12_381_fq12_t cgt; typedef embedded_pairing_core_bigint_256_t ck;

static void gen(G1& p, int t) { if (t % 5 == 0) { p.copy(G1::zero); return; } BigInt<256> k; rng_cb(k.bytes, 32); p.multiply_doubleadd(G1::one, k); }
static void gen(G2& p, int t) { if (t % 5 == 0) { p.copy(G2::zero); return; } BigInt<256> k; rng_cb(k.bytes, 32); p.multiply_doubleadd(G2::one, k); }
static void gen(G1Affine& a, int t) { G1 p; gen(p, t); memset(&a, 0, sizeof a); a.from_projective(p); }
static void gen(G2Affine& a, int t) { G2 p; gen(p, t); memset(&a, 0, sizeof a); a.from_projective(p); }
static void gen(Fq12& a, int t) { if (t % 5 == 0) { a.copy(Fq12::one); return; } if (t % 5 == 2) { a.random(rng_cb); return; }   // GT-typed arguments may hold any Fq12 value (gt_unmarshal checks nothing)
    BigInt<256> k; rng_cb(k.bytes, 32); a.exponentiate_gt_nodiv(generator_pairing, k); }
static void gen(BigInt<256>& k, int t) {
    if (t % 5 == 0) memset(&k, 0, sizeof k);
    else if (t % 5 == 1) memset(&k, 0xff, sizeof k);
    else if (t % 5 == 3) {
        // sparse scalars: whole 32- / 64- / 128-bit units equal to zero below or between the set bits
        static const int pat[][2] = {{128, -1}, {130, 192}, {64, -1}, {32, -1}, {200, 129}, {255, -1}, {96, 160}, {128, 0}};
        memset(&k, 0, sizeof k);
        const int* p = pat[(t / 5) % 8];
        for (int j = 0; j < 2; j++) if (p[j] >= 0) k.bytes[p[j] / 8] |= (uint8_t) (1u << (p[j] % 8));
        if ((t / 5) % 3 == 1) k.bytes[16] |= 7;        // 7 * 2^128 and friends
    } else rng_cb(k.bytes, 32);
}

template <typename T> static bool eq(const T& a, const T& b) { return memcmp(&a, &b, sizeof(T)) == 0; }
static bool eqa(const G1Affine& a, const G1Affine& b) { return a.infinity == b.infinity && eq(a.x, b.x) && eq(a.y, b.y); }
static bool eqa(const G2Affine& a, const G2Affine& b) { return a.infinity == b.infinity && eq(a.x, b.x) && eq(a.y, b.y); }

static void row(const char* sym, int tried, int bad) { printf("row %s tried=%d mismatches=%d\n", sym, tried, bad); }

#define ROW(sym, ...) { int bad = 0; for (int t = 0; t < g_n; t++) { bool ok = true; __VA_ARGS__; if (!ok) bad++; } row(#sym, g_n, bad); (void) &sym; }
#define RESEED(x) rng_seed(g_seed * 1000003ull + (uint64_t) (x))

static void bls_rows(void) {
    G1 a1, b1, o1, r1; G2 a2, b2, o2, r2; G1Affine p1, q1, po1, pr1; G2Affine p2, q2, po2, pr2; BigInt<256> k, ko, kr; Fq12 e, f, eo, er;
#define CLR() memset(&o1, 0x11, sizeof o1); memset(&r1, 0x11, sizeof r1); memset(&o2, 0x11, sizeof o2); memset(&r2, 0x11, sizeof r2); memset(&po1, 0x11, sizeof po1); memset(&pr1, 0x11, sizeof pr1); \
    memset(&po2, 0x11, sizeof po2); memset(&pr2, 0x11, sizeof pr2); memset(&eo, 0x11, sizeof eo); memset(&er, 0x11, sizeof er); memset(&ko, 0x11, sizeof ko); memset(&kr, 0x11, sizeof kr);
    ROW(embedded_pairing_bls12_381_g1_add, { CLR(); gen(a1, t + 1); gen(b1, t); int pat = (t / 5 + t) % 4; auto* pb = (pat & 2) ? &a1 : &b1; r1.add(a1, *pb); auto* po = (pat & 1) ? &a1 : &o1; embedded_pairing_bls12_381_g1_add((cg1*) po, (cg1*) &a1, (cg1*) pb); ok = eq(*po, r1); })   // aliasing: out=a, a=b (same object), out=a=b
    ROW(embedded_pairing_bls12_381_g1_add_mixed, { CLR(); gen(a1, t + 1); gen(q1, t); r1.add(a1, q1); auto* po = ((t / 5 + t) & 1) ? &a1 : &o1; embedded_pairing_bls12_381_g1_add_mixed((cg1*) po, (cg1*) &a1, (cg1a*) &q1); ok = eq(*po, r1); })   // odd trials in place
    ROW(embedded_pairing_bls12_381_g1_negate, { CLR(); gen(a1, t); r1.negate(a1); auto* po = ((t / 5 + t) & 1) ? &a1 : &o1; embedded_pairing_bls12_381_g1_negate((cg1*) po, (cg1*) &a1); ok = eq(*po, r1); })   // odd trials in place
    ROW(embedded_pairing_bls12_381_g1_double, { CLR(); gen(a1, t); r1.multiply2(a1); auto* po = ((t / 5 + t) & 1) ? &a1 : &o1; embedded_pairing_bls12_381_g1_double((cg1*) po, (cg1*) &a1); ok = eq(*po, r1); })   // odd trials in place
    ROW(embedded_pairing_bls12_381_g1_multiply, { CLR(); gen(a1, t + 1); gen(k, t); r1.multiply(a1, k); auto* po = ((t / 5 + t) & 1) ? &a1 : &o1; embedded_pairing_bls12_381_g1_multiply((cg1*) po, (cg1*) &a1, (ck*) &k); ok = eq(*po, r1); })   // odd trials in place
    ROW(embedded_pairing_bls12_381_g1_multiply_affine, { CLR(); gen(p1, t + 1); gen(k, t); embedded_pairing_bls12_381_g1_multiply_affine((cg1*) &o1, (cg1a*) &p1, (ck*) &k); r1.multiply(p1, k); ok = eq(o1, r1); })
    ROW(embedded_pairing_bls12_381_g1_random, { CLR(); RESEED(t); embedded_pairing_bls12_381_g1_random((cg1*) &o1, rng_cb); RESEED(t); r1.random_generator(rng_cb); ok = eq(o1, r1); })
    ROW(embedded_pairing_bls12_381_g1_equal, { gen(a1, t); gen(b1, t % 2 ? t : t + 1); if (t % 2) b1.copy(a1); ok = embedded_pairing_bls12_381_g1_equal((cg1*) &a1, (cg1*) &b1) == G1::equal(a1, b1); })
    ROW(embedded_pairing_bls12_381_g1_from_affine, { CLR(); gen(p1, t); embedded_pairing_bls12_381_g1_from_affine((cg1*) &o1, (cg1a*) &p1); r1.from_affine(p1); ok = eq(o1, r1); })
    ROW(embedded_pairing_bls12_381_g1affine_from_projective, { CLR(); gen(a1, t); embedded_pairing_bls12_381_g1affine_from_projective((cg1a*) &po1, (cg1*) &a1); pr1.from_projective(a1); ok = eqa(po1, pr1); })
    ROW(embedded_pairing_bls12_381_g1affine_negate, { CLR(); gen(p1, t); pr1.negate(p1); auto* po = ((t / 5 + t) & 1) ? &p1 : &po1; embedded_pairing_bls12_381_g1affine_negate((cg1a*) po, (cg1a*) &p1); ok = eqa(*po, pr1); })   // odd trials in place
    ROW(embedded_pairing_bls12_381_g1affine_from_hash, { CLR(); uint8_t h[48]; rng_cb(h, 48); embedded_pairing_bls12_381_g1affine_from_hash((cg1a*) &po1, h); pr1.from_hash(h); ok = eqa(po1, pr1); })
    ROW(embedded_pairing_bls12_381_g1affine_equal, { gen(p1, t); gen(q1, t + 1); if (t % 2) q1.copy(p1); ok = embedded_pairing_bls12_381_g1affine_equal((cg1a*) &p1, (cg1a*) &q1) == G1Affine::equal(p1, q1); })
    ROW(embedded_pairing_bls12_381_g2_add, { CLR(); gen(a2, t + 1); gen(b2, t); int pat = (t / 5 + t) % 4; auto* pb = (pat & 2) ? &a2 : &b2; r2.add(a2, *pb); auto* po = (pat & 1) ? &a2 : &o2; embedded_pairing_bls12_381_g2_add((cg2*) po, (cg2*) &a2, (cg2*) pb); ok = eq(*po, r2); })   // aliasing: out=a, a=b (same object), out=a=b
    ROW(embedded_pairing_bls12_381_g2_add_mixed, { CLR(); gen(a2, t + 1); gen(q2, t); r2.add(a2, q2); auto* po = ((t / 5 + t) & 1) ? &a2 : &o2; embedded_pairing_bls12_381_g2_add_mixed((cg2*) po, (cg2*) &a2, (cg2a*) &q2); ok = eq(*po, r2); })   // odd trials in place
    ROW(embedded_pairing_bls12_381_g2_negate, { CLR(); gen(a2, t); r2.negate(a2); auto* po = ((t / 5 + t) & 1) ? &a2 : &o2; embedded_pairing_bls12_381_g2_negate((cg2*) po, (cg2*) &a2); ok = eq(*po, r2); })   // odd trials in place
    ROW(embedded_pairing_bls12_381_g2_double, { CLR(); gen(a2, t); r2.multiply2(a2); auto* po = ((t / 5 + t) & 1) ? &a2 : &o2; embedded_pairing_bls12_381_g2_double((cg2*) po, (cg2*) &a2); ok = eq(*po, r2); })   // odd trials in place
    ROW(embedded_pairing_bls12_381_g2_multiply, { CLR(); gen(a2, t + 1); gen(k, t); r2.multiply(a2, k); auto* po = ((t / 5 + t) & 1) ? &a2 : &o2; embedded_pairing_bls12_381_g2_multiply((cg2*) po, (cg2*) &a2, (ck*) &k); ok = eq(*po, r2); })   // odd trials in place
    ROW(embedded_pairing_bls12_381_g2_multiply_affine, { CLR(); gen(p2, t + 1); gen(k, t); embedded_pairing_bls12_381_g2_multiply_affine((cg2*) &o2, (cg2a*) &p2, (ck*) &k); r2.multiply(p2, k); ok = eq(o2, r2); })
    ROW(embedded_pairing_bls12_381_g2_random, { CLR(); RESEED(t); embedded_pairing_bls12_381_g2_random((cg2*) &o2, rng_cb); RESEED(t); r2.random_generator(rng_cb); ok = eq(o2, r2); })
    ROW(embedded_pairing_bls12_381_g2_equal, { gen(a2, t); gen(b2, t + 1); if (t % 2) b2.copy(a2); ok = embedded_pairing_bls12_381_g2_equal((cg2*) &a2, (cg2*) &b2) == G2::equal(a2, b2); })
    ROW(embedded_pairing_bls12_381_g2_from_affine, { CLR(); gen(p2, t); embedded_pairing_bls12_381_g2_from_affine((cg2*) &o2, (cg2a*) &p2); r2.from_affine(p2); ok = eq(o2, r2); })
    ROW(embedded_pairing_bls12_381_g2affine_from_projective, { CLR(); gen(a2, t); embedded_pairing_bls12_381_g2affine_from_projective((cg2a*) &po2, (cg2*) &a2); pr2.from_projective(a2); ok = eqa(po2, pr2); })
    ROW(embedded_pairing_bls12_381_g2affine_negate, { CLR(); gen(p2, t); pr2.negate(p2); auto* po = ((t / 5 + t) & 1) ? &p2 : &po2; embedded_pairing_bls12_381_g2affine_negate((cg2a*) po, (cg2a*) &p2); ok = eqa(*po, pr2); })   // odd trials in place
    ROW(embedded_pairing_bls12_381_g2affine_from_hash, { CLR(); uint8_t h[96]; rng_cb(h, 96); embedded_pairing_bls12_381_g2affine_from_hash((cg2a*) &po2, h); pr2.from_hash(h); ok = eqa(po2, pr2); })
    ROW(embedded_pairing_bls12_381_g2affine_equal, { gen(p2, t); gen(q2, t + 1); if (t % 2) q2.copy(p2); ok = embedded_pairing_bls12_381_g2affine_equal((cg2a*) &p2, (cg2a*) &q2) == G2Affine::equal(p2, q2); })
    {
        G2Prepared* pc = (G2Prepared*) malloc(sizeof(G2Prepared)); G2Prepared* pp = (G2Prepared*) malloc(sizeof(G2Prepared));
        ROW(embedded_pairing_bls12_381_g2prepared_prepare, { memset(pc, 0x11, sizeof *pc); memset(pp, 0x11, sizeof *pp); gen(p2, t); embedded_pairing_bls12_381_g2prepared_prepare((embedded_pairing_bls12_381_g2prepared_t*) pc, (cg2a*) &p2); pp->prepare(p2);
            ok = memcmp(pc->coeffs, pp->coeffs, sizeof pc->coeffs) == 0 && pc->infinity == pp->infinity; })
        ROW(embedded_pairing_bls12_381_g2prepared_is_zero, { gen(p2, t); pp->prepare(p2); ok = embedded_pairing_bls12_381_g2prepared_is_zero((embedded_pairing_bls12_381_g2prepared_t*) pp) == pp->is_zero(); })
        ROW(embedded_pairing_bls12_381_prepared_pairing, { CLR(); gen(p1, t + 1); gen(p2, t + 2); pp->prepare(p2); embedded_pairing_bls12_381_prepared_pairing((cgt*) &eo, (cg1a*) &p1, (embedded_pairing_bls12_381_g2prepared_t*) pp); pairing(er, p1, *pp); ok = eq(eo, er); })
        ROW(embedded_pairing_bls12_381_pairing_sum, { CLR(); gen(p1, t + 1); gen(p2, t + 2); gen(q1, t + 3); gen(q2, t + 1); pp->prepare(q2);
            // list shapes by trial: (affine, prepared) counts over {0,1,2} x {0,1,2}, the empty list included, NULL arrays for empty lists
            int na = t % 3, np = (t / 3) % 3;
            embedded_pairing_bls12_381_affine_pair_t ap[2]; embedded_pairing_bls12_381_prepared_pair_t prp[2]; AffinePair a[2]; PreparedPair b[2];
            for (int i = 0; i < 2; i++) { ap[i].g1 = (cg1a*) (i ? &q1 : &p1); ap[i].g2 = (cg2a*) &p2; a[i].g1 = i ? &q1 : &p1; a[i].g2 = &p2;
                                          prp[i].g1 = (cg1a*) (i ? &p1 : &q1); prp[i].g2 = (embedded_pairing_bls12_381_g2prepared_t*) pp; b[i].g1 = i ? &p1 : &q1; b[i].g2 = pp; }
            embedded_pairing_bls12_381_pairing_sum((cgt*) &eo, na ? ap : NULL, (size_t) na, np ? prp : NULL, (size_t) np);
            pairing_product(er, na ? a : NULL, (size_t) na, np ? b : NULL, (size_t) np); ok = eq(eo, er); })
        free(pc); free(pp);
    }
    ROW(embedded_pairing_bls12_381_pairing, { CLR(); gen(p1, t + 1); gen(p2, t + 2); embedded_pairing_bls12_381_pairing((cgt*) &eo, (cg1a*) &p1, (cg2a*) &p2); pairing(er, p1, p2); ok = eq(eo, er); })
    ROW(embedded_pairing_bls12_381_gt_add, { CLR(); gen(e, t); gen(f, t + 1); int pat = (t / 5 + t) % 4; auto* pb = (pat & 2) ? &e : &f; er.multiply(e, *pb); auto* po = (pat & 1) ? &e : &eo; embedded_pairing_bls12_381_gt_add((cgt*) po, (cgt*) &e, (cgt*) pb); ok = eq(*po, er); })   // aliasing: out=a, a=b (same object), out=a=b
    ROW(embedded_pairing_bls12_381_gt_negate, { CLR(); gen(e, t); er.inverse(e); auto* po = ((t / 5 + t) & 1) ? &e : &eo; embedded_pairing_bls12_381_gt_negate((cgt*) po, (cgt*) &e); ok = eq(*po, er); })   // odd trials in place
    ROW(embedded_pairing_bls12_381_gt_double, { CLR(); gen(e, t); er.square_cyclotomic(e); auto* po = ((t / 5 + t) & 1) ? &e : &eo; embedded_pairing_bls12_381_gt_double((cgt*) po, (cgt*) &e); ok = eq(*po, er); })   // odd trials in place
    ROW(embedded_pairing_bls12_381_gt_multiply, { CLR(); gen(e, t + 1); gen(k, t); er.exponentiate_gt(e, k); auto* po = ((t / 5 + t) & 1) ? &e : &eo; embedded_pairing_bls12_381_gt_multiply((cgt*) po, (cgt*) &e, (ck*) &k); ok = eq(*po, er); })   // odd trials in place
    ROW(embedded_pairing_bls12_381_gt_multiply_random, { CLR(); gen(e, t + 1); RESEED(t); embedded_pairing_bls12_381_gt_multiply_random((cgt*) &eo, (ck*) &ko, (cgt*) &e, rng_cb); RESEED(t); er.random_gt(kr, e, rng_cb); ok = eq(eo, er) && eq(ko, kr); })
    ROW(embedded_pairing_bls12_381_gt_equal, { gen(e, t); gen(f, t + 1); if (t % 2) f.copy(e); ok = embedded_pairing_bls12_381_gt_equal((cgt*) &e, (cgt*) &f) == Fq12::equal(e, f); })
    ROW(embedded_pairing_bls12_381_gt_marshal, { uint8_t b1[576], b2[576]; gen(e, t); embedded_pairing_bls12_381_gt_marshal(b1, (cgt*) &e); e.write_big_endian(b2); ok = memcmp(b1, b2, 576) == 0; })
    ROW(embedded_pairing_bls12_381_gt_unmarshal, { CLR(); uint8_t b[576]; rng_cb(b, 576); embedded_pairing_bls12_381_gt_unmarshal((cgt*) &eo, b); er.read_big_endian(b); ok = eq(eo, er); })
    ROW(embedded_pairing_bls12_381_zp_random, { CLR(); RESEED(t); embedded_pairing_bls12_381_zp_random((ck*) &ko, rng_cb); RESEED(t); reinterpret_cast<Fr*>(&kr)->random(rng_cb); ok = eq(ko, kr); })
    ROW(embedded_pairing_bls12_381_zp_from_hash, { CLR(); uint8_t h[32]; rng_cb(h, 32); embedded_pairing_bls12_381_zp_from_hash((ck*) &ko, h); kr.read_big_endian(h); reinterpret_cast<Fr*>(&kr)->hash_reduce(); ok = eq(ko, kr); })
    for (int c = 0; c < 2; c++) { (void) c; }
    ROW(embedded_pairing_bls12_381_g1_marshal, { gen(p1, t); bool c = t & 1; uint8_t b1[96], b2[96]; memset(b1, 0, 96); memset(b2, 0, 96); embedded_pairing_bls12_381_g1_marshal(b1, (cg1a*) &p1, c);
        if (c) ((Encoding<G1Affine, true>*) b2)->encode(p1); else ((Encoding<G1Affine, false>*) b2)->encode(p1); ok = memcmp(b1, b2, 96) == 0; })
    ROW(embedded_pairing_bls12_381_g2_marshal, { gen(p2, t); bool c = t & 1; uint8_t b1[192], b2[192]; memset(b1, 0, 192); memset(b2, 0, 192); embedded_pairing_bls12_381_g2_marshal(b1, (cg2a*) &p2, c);
        if (c) ((Encoding<G2Affine, true>*) b2)->encode(p2); else ((Encoding<G2Affine, false>*) b2)->encode(p2); ok = memcmp(b1, b2, 192) == 0; })
    ROW(embedded_pairing_bls12_381_g1_unmarshal, { CLR(); gen(p1, t); bool c = t & 1; bool chk = (t >> 1) & 1; uint8_t b[96]; embedded_pairing_bls12_381_g1_marshal(b, (cg1a*) &p1, c); if (t % 3 == 0) b[10] ^= 4;
        bool ra = embedded_pairing_bls12_381_g1_unmarshal((cg1a*) &po1, b, c, chk); bool rb = c ? ((Encoding<G1Affine, true>*) b)->decode(pr1, chk) : ((Encoding<G1Affine, false>*) b)->decode(pr1, chk);
        ok = ra == rb && (!ra || eqa(po1, pr1)); })
    ROW(embedded_pairing_bls12_381_g2_unmarshal, { CLR(); gen(p2, t); bool c = t & 1; bool chk = (t >> 1) & 1; uint8_t b[192]; embedded_pairing_bls12_381_g2_marshal(b, (cg2a*) &p2, c); if (t % 3 == 0) b[10] ^= 4;
        bool ra = embedded_pairing_bls12_381_g2_unmarshal((cg2a*) &po2, b, c, chk); bool rb = c ? ((Encoding<G2Affine, true>*) b)->decode(pr2, chk) : ((Encoding<G2Affine, false>*) b)->decode(pr2, chk);
        ok = ra == rb && (!ra || eqa(po2, pr2)); })
}

// ------------------------------------------------------------------ WKD-IBE
#define L 4
struct WK {
    embedded_pairing_wkdibe_params_t p; embedded_pairing_wkdibe_masterkey_t m;
    embedded_pairing_wkdibe_g1_t h[L];
};
static bool sk_eq(const embedded_pairing_wkdibe_secretkey_t& a, const embedded_pairing_wkdibe_secretkey_t& b) {
    if (a.l != b.l || a.signatures != b.signatures || !eq(a.a0, b.a0) || !eq(a.a1, b.a1) || !eq(a.bsig, b.bsig)) return false;
    for (int i = 0; i < a.l; i++) if (a.b[i].idx != b.b[i].idx || !eq(a.b[i].hexp, b.b[i].hexp)) return false;
    return true;
}
static void mk_list(embedded_pairing_wkdibe_attribute_t* at, embedded_pairing_wkdibe_attributelist_t& al, int t, int variant) {
    int n = 0;
    for (int i = 0; i < L; i++) {
        int sel = (t * 7 + i * 3 + variant) % 5;
        if (variant == 9) sel = (i == 0 || i == 2) ? 1 : 0;     // fixed slots 0 and 2 (for children that must repeat them)
        if (sel == 1 || sel == 2) { memset(&at[n], 0, sizeof at[n]); at[n].idx = (uint32_t) i; at[n].omitFromKeys = false; uint64_t v = 1000 + i + (variant == 9 ? 0 : (uint64_t) t); memcpy(&at[n].id, &v, 8); n++; }
        else if (sel == 3 && variant != 9) { memset(&at[n], 0, sizeof at[n]); at[n].idx = (uint32_t) i; at[n].omitFromKeys = true; n++; }
    }
    al.attrs = at; al.length = (size_t) n; al.omitAllFromKeysUnlessPresent = variant != 9 && (t % 3 == 2);    // the list-level flag varies too
}

static void wkd_rows(void) {
    WK w; memset(&w, 0, sizeof w); w.p.h = w.h;
    WK w2; memset(&w2, 0, sizeof w2); w2.p.h = w2.h;
    ROW(embedded_pairing_wkdibe_setup, { RESEED(t); embedded_pairing_wkdibe_setup(&w.p, &w.m, L, t & 1, rng_cb); RESEED(t); wk::setup(*(wk::Params*) &w2.p, *(wk::MasterKey*) &w2.m, L, t & 1, rng_cb);
        ok = eq(w.p.g, w2.p.g) && eq(w.p.g1, w2.p.g1) && eq(w.p.g2, w2.p.g2) && eq(w.p.g3, w2.p.g3) && eq(w.p.pairing, w2.p.pairing) && eq(w.p.hsig, w2.p.hsig) && w.p.l == w2.p.l && w.p.signatures == w2.p.signatures
             && memcmp(w.h, w2.h, sizeof w.h) == 0 && eq(w.m, w2.m); })
    RESEED(77); embedded_pairing_wkdibe_setup(&w.p, &w.m, L, true, rng_cb);
    wk::Params& PP = *(wk::Params*) &w.p; wk::MasterKey& MK = *(wk::MasterKey*) &w.m;
    embedded_pairing_wkdibe_attribute_t at[L], at2[L];
    embedded_pairing_wkdibe_attributelist_t al, al2;
    embedded_pairing_wkdibe_freeslot_t b1[L], b2[L], b3[L], b4[L];
    embedded_pairing_wkdibe_secretkey_t s1, s2, par, s3;
    memset(&s1, 0, sizeof s1); memset(&s2, 0, sizeof s2); memset(&par, 0, sizeof par); memset(&s3, 0, sizeof s3);
    s1.b = b1; s2.b = b2; par.b = b3; s3.b = b4;
#define SKCLR() memset(b1, 0x11, sizeof b1); memset(b2, 0x11, sizeof b2); memset(&s1, 0x11, sizeof s1); memset(&s2, 0x11, sizeof s2); s1.b = b1; s2.b = b2;
    ROW(embedded_pairing_wkdibe_keygen, { SKCLR(); mk_list(at, al, t, 0); RESEED(t); embedded_pairing_wkdibe_keygen(&s1, &w.p, &w.m, &al, rng_cb); RESEED(t);
        wk::keygen(*(wk::SecretKey*) &s2, PP, MK, *(wk::AttributeList*) &al, rng_cb); ok = sk_eq(s1, s2); })
    ROW(embedded_pairing_wkdibe_nondelegable_keygen, { SKCLR(); mk_list(at, al, t, 1); embedded_pairing_wkdibe_nondelegable_keygen(&s1, &w.p, &w.m, &al);
        wk::nondelegable_keygen(*(wk::SecretKey*) &s2, PP, MK, *(wk::AttributeList*) &al); ok = sk_eq(s1, s2); })
    // parent with slots 0,2 fixed, 1,3 free
    mk_list(at2, al2, 0, 9); RESEED(5); embedded_pairing_wkdibe_keygen(&par, &w.p, &w.m, &al2, rng_cb);
    auto child_list = [&](int t) {
        int n = 0;
        for (int i = 0; i < L; i++) {
            if (i == 0 || i == 2) { at[n] = at2[i == 0 ? 0 : 1]; n++; }
            else if ((t + i) % 3 == 0) { memset(&at[n], 0, sizeof at[n]); at[n].idx = (uint32_t) i; uint64_t v = 55 + t; memcpy(&at[n].id, &v, 8); n++; }
            else if ((t + i) % 3 == 1) { memset(&at[n], 0, sizeof at[n]); at[n].idx = (uint32_t) i; at[n].omitFromKeys = true; n++; }
        }
        al.attrs = at; al.length = (size_t) n; al.omitAllFromKeysUnlessPresent = (t % 4 == 1);
    };
    ROW(embedded_pairing_wkdibe_qualifykey, { SKCLR(); child_list(t); RESEED(t); embedded_pairing_wkdibe_qualifykey(&s1, &w.p, &par, &al, rng_cb); RESEED(t);
        wk::qualifykey(*(wk::SecretKey*) &s2, PP, *(wk::SecretKey*) &par, *(wk::AttributeList*) &al, rng_cb); ok = sk_eq(s1, s2); })
    ROW(embedded_pairing_wkdibe_nondelegable_qualifykey, { SKCLR(); child_list(t); embedded_pairing_wkdibe_nondelegable_qualifykey(&s1, &w.p, &par, &al);
        wk::nondelegable_qualifykey(*(wk::SecretKey*) &s2, PP, *(wk::SecretKey*) &par, *(wk::AttributeList*) &al); ok = sk_eq(s1, s2); })
    ROW(embedded_pairing_wkdibe_adjust_nondelegable, { SKCLR(); child_list(t); embedded_pairing_wkdibe_nondelegable_qualifykey(&s1, &w.p, &par, &al);
        embedded_pairing_wkdibe_attribute_t atf[L]; memcpy(atf, at, sizeof at); embedded_pairing_wkdibe_attributelist_t alf = al; alf.attrs = atf;
        memcpy(b2, b1, sizeof b1); s2 = s1; s2.b = b2;
        // to-list: another list, or (every third trial) the SAME entries in a separate array with only the list-level flag flipped
        if (t % 3 == 2) { child_list(t); al.omitAllFromKeysUnlessPresent = !alf.omitAllFromKeysUnlessPresent; } else child_list(t + 1);
        embedded_pairing_wkdibe_adjust_nondelegable(&s1, &par, &alf, &al);
        wk::adjust_nondelegable(*(wk::SecretKey*) &s2, *(wk::SecretKey*) &par, *(wk::AttributeList*) &alf, *(wk::AttributeList*) &al); ok = sk_eq(s1, s2); })
    embedded_pairing_wkdibe_precomputed_t pc1, pc2;
    ROW(embedded_pairing_wkdibe_precompute, { mk_list(at, al, t, 2); embedded_pairing_wkdibe_precompute(&pc1, &w.p, &al); wk::precompute(*(wk::Precomputed*) &pc2, PP, *(wk::AttributeList*) &al); ok = eq(pc1, pc2); })
    ROW(embedded_pairing_wkdibe_adjust_precomputed, { mk_list(at, al, t, 2); mk_list(at2, al2, t + 1, 3); embedded_pairing_wkdibe_precompute(&pc1, &w.p, &al); pc2 = pc1;
        embedded_pairing_wkdibe_adjust_precomputed(&pc1, &w.p, &al, &al2); wk::adjust_precomputed(*(wk::Precomputed*) &pc2, PP, *(wk::AttributeList*) &al, *(wk::AttributeList*) &al2); ok = eq(pc1, pc2); })
    mk_list(at2, al2, 0, 9);
    ROW(embedded_pairing_wkdibe_resamplekey, { SKCLR(); embedded_pairing_wkdibe_precompute(&pc1, &w.p, &al2); RESEED(t); embedded_pairing_wkdibe_resamplekey(&s1, &w.p, &pc1, &par, t & 1, rng_cb); RESEED(t);
        wk::resamplekey(*(wk::SecretKey*) &s2, PP, *(wk::Precomputed*) &pc1, *(wk::SecretKey*) &par, t & 1, rng_cb); ok = sk_eq(s1, s2); })
    // keys of trial-dependent patterns (fixed / free / hidden per slot) and signing lists that extend them over a subset of the free slots
    embedded_pairing_wkdibe_freeslot_t bk[L]; embedded_pairing_wkdibe_secretkey_t kt; memset(&kt, 0, sizeof kt); kt.b = bk;
    embedded_pairing_wkdibe_attribute_t atk[L], ats[L]; embedded_pairing_wkdibe_attributelist_t alk, als;
    auto make_key = [&](int t) {
        int n = 0, ns = 0;
        for (int i = 0; i < L; i++) {
            unsigned hsh = (unsigned) (((uint64_t) t * 2654435761ull + (uint64_t) i * 40503ull + 12345ull) & 0xffffffffull) >> 7;
            int st = (int) (hsh % 3);          // 0 fixed, 1 free, 2 hidden
            if (st == 0) { memset(&atk[n], 0, sizeof atk[n]); atk[n].idx = (uint32_t) i; uint64_t v = 900 + i; memcpy(&atk[n].id, &v, 8); ats[ns++] = atk[n]; n++; }
            else if (st == 2) { memset(&atk[n], 0, sizeof atk[n]); atk[n].idx = (uint32_t) i; atk[n].omitFromKeys = true; n++; }
            else if (st == 1 && ((hsh >> 5) & 1)) { memset(&ats[ns], 0, sizeof ats[ns]); ats[ns].idx = (uint32_t) i; uint64_t v = 70 + t + i; memcpy(&ats[ns].id, &v, 8); ns++; }
        }
        alk.attrs = atk; alk.length = (size_t) n; alk.omitAllFromKeysUnlessPresent = false;
        als.attrs = ats; als.length = (size_t) ns; als.omitAllFromKeysUnlessPresent = false;
        RESEED(1000 + t); embedded_pairing_wkdibe_keygen(&kt, &w.p, &w.m, &alk, rng_cb);
    };
    embedded_pairing_wkdibe_ciphertext_t c1, c2; Fq12 msg, d1, d2;
    ROW(embedded_pairing_wkdibe_encrypt, { make_key(t); gen(msg, t + 1); RESEED(t); embedded_pairing_wkdibe_encrypt(&c1, (cgt*) &msg, &w.p, &als, rng_cb); RESEED(t);
        wk::encrypt(*(wk::Ciphertext*) &c2, msg, PP, *(wk::AttributeList*) &als, rng_cb); ok = eq(c1, c2); })
    ROW(embedded_pairing_wkdibe_encrypt_precomputed, { make_key(t); gen(msg, t + 1); embedded_pairing_wkdibe_precompute(&pc1, &w.p, &als); RESEED(t); embedded_pairing_wkdibe_encrypt_precomputed(&c1, (cgt*) &msg, &w.p, &pc1, rng_cb); RESEED(t);
        wk::encrypt_precomputed(*(wk::Ciphertext*) &c2, msg, PP, *(wk::Precomputed*) &pc1, rng_cb); ok = eq(c1, c2); })
    ROW(embedded_pairing_wkdibe_decrypt, { memset(&d1, 0x11, sizeof d1); memset(&d2, 0x11, sizeof d2); gen(msg, t + 1); RESEED(t); embedded_pairing_wkdibe_encrypt(&c1, (cgt*) &msg, &w.p, &al2, rng_cb);
        embedded_pairing_wkdibe_decrypt((cgt*) &d1, &c1, &par); wk::decrypt(d2, *(wk::Ciphertext*) &c1, *(wk::SecretKey*) &par); ok = eq(d1, d2) && eq(d1, msg); })
    ROW(embedded_pairing_wkdibe_decrypt_master, { memset(&d1, 0x11, sizeof d1); memset(&d2, 0x11, sizeof d2); gen(msg, t + 1); RESEED(t); embedded_pairing_wkdibe_encrypt(&c1, (cgt*) &msg, &w.p, &al2, rng_cb);
        embedded_pairing_wkdibe_decrypt_master((cgt*) &d1, &c1, &w.m); wk::decrypt_master(d2, *(wk::Ciphertext*) &c1, MK); ok = eq(d1, d2) && eq(d1, msg); })
    embedded_pairing_wkdibe_signature_t g1s, g2s; BigInt<256> m;
    ROW(embedded_pairing_wkdibe_sign, { make_key(t); gen(m, t); RESEED(t); embedded_pairing_wkdibe_sign(&g1s, &w.p, &kt, &als, (ck*) &m, rng_cb); RESEED(t);
        wk::sign(*(wk::Signature*) &g2s, PP, *(wk::SecretKey*) &kt, (wk::AttributeList*) &als, m, rng_cb);
        ok = eq(g1s, g2s) && embedded_pairing_wkdibe_verify(&w.p, &als, &g1s, (ck*) &m); })
    ROW(embedded_pairing_wkdibe_sign_precomputed, { make_key(t); gen(m, t); embedded_pairing_wkdibe_precompute(&pc1, &w.p, &als); bool nul = (t % 4 == 3) && als.length == (size_t) (L - kt.l) ;
        RESEED(t); embedded_pairing_wkdibe_sign_precomputed(&g1s, &w.p, &kt, nul ? NULL : &als, &pc1, (ck*) &m, rng_cb); RESEED(t);
        wk::sign_precomputed(*(wk::Signature*) &g2s, PP, *(wk::SecretKey*) &kt, nul ? NULL : (wk::AttributeList*) &als, *(wk::Precomputed*) &pc1, m, rng_cb);
        ok = eq(g1s, g2s); })
    ROW(embedded_pairing_wkdibe_verify, { make_key(t); gen(m, t + 2); RESEED(t); embedded_pairing_wkdibe_sign(&g1s, &w.p, &kt, &als, (ck*) &m, rng_cb); if (t % 3 == 0) m.bytes[0] ^= 1;
        bool ra = embedded_pairing_wkdibe_verify(&w.p, &als, &g1s, (ck*) &m); bool rb = wk::verify(PP, *(wk::AttributeList*) &als, *(wk::Signature*) &g1s, m); ok = ra == rb && ra == (t % 3 != 0); })
    ROW(embedded_pairing_wkdibe_verify_precomputed, { make_key(t); gen(m, t + 2); RESEED(t); embedded_pairing_wkdibe_sign(&g1s, &w.p, &kt, &als, (ck*) &m, rng_cb); if (t % 3 == 0) m.bytes[0] ^= 1; embedded_pairing_wkdibe_precompute(&pc1, &w.p, &als);
        bool ra = embedded_pairing_wkdibe_verify_precomputed(&w.p, &pc1, &g1s, (ck*) &m); bool rb = wk::verify_precomputed(PP, *(wk::Precomputed*) &pc1, *(wk::Signature*) &g1s, m); ok = ra == rb && ra == (t % 3 != 0); })
    BigInt<256> ka, kb; G1 ga, gb; G2 ha, hb; Fq12 ea, eb;
    ROW(embedded_pairing_wkdibe_scalar_hash_reduce, { rng_cb(ka.bytes, 32); if (t == 0) memset(ka.bytes, 0xff, 32); kb = ka; embedded_pairing_wkdibe_scalar_hash_reduce((ck*) &ka); wk::scalar_hash_reduce(kb); ok = eq(ka, kb); })
    ROW(embedded_pairing_wkdibe_random_zpstar, { RESEED(t); embedded_pairing_wkdibe_random_zpstar((ck*) &ka, rng_cb); RESEED(t); wk::random_zpstar(kb, rng_cb); ok = eq(ka, kb); })
    ROW(embedded_pairing_wkdibe_random_g1, { RESEED(t); embedded_pairing_wkdibe_random_g1((cg1*) &ga, rng_cb); RESEED(t); wk::random_g1(gb, rng_cb); ok = eq(ga, gb); })
    ROW(embedded_pairing_wkdibe_random_g2, { RESEED(t); embedded_pairing_wkdibe_random_g2((cg2*) &ha, rng_cb); RESEED(t); wk::random_g2(hb, rng_cb); ok = eq(ha, hb); })
    ROW(embedded_pairing_wkdibe_random_gt, { RESEED(t); embedded_pairing_wkdibe_random_gt((cgt*) &ea, rng_cb); RESEED(t); wk::random_gt(eb, rng_cb); ok = eq(ea, eb); })
    // marshalling wrappers: both encodings, checked and unchecked
    static uint8_t m1[4096], m2[4096];
#define MROW(sym, stmt_c, stmt_cpp_t, stmt_cpp_f, len) ROW(sym, { bool c = t & 1; memset(m1, 0x22, sizeof m1); memset(m2, 0x22, sizeof m2); stmt_c; if (c) { stmt_cpp_t; } else { stmt_cpp_f; } ok = memcmp(m1, m2, len) == 0; })
    wk::SecretKey& PAR = *(wk::SecretKey*) &par;
    MROW(embedded_pairing_wkdibe_params_marshal, embedded_pairing_wkdibe_params_marshal(m1, &w.p, c), PP.marshal<true>(m2), PP.marshal<false>(m2), 4096)
    MROW(embedded_pairing_wkdibe_secretkey_marshal, embedded_pairing_wkdibe_secretkey_marshal(m1, &par, c), PAR.marshal<true>(m2), PAR.marshal<false>(m2), 4096)
    MROW(embedded_pairing_wkdibe_masterkey_marshal, embedded_pairing_wkdibe_masterkey_marshal(m1, &w.m, c), MK.marshal<true>(m2), MK.marshal<false>(m2), 4096)
    RESEED(3); gen(msg, 1); embedded_pairing_wkdibe_encrypt(&c1, (cgt*) &msg, &w.p, &al2, rng_cb); gen(m, 3); embedded_pairing_wkdibe_sign(&g1s, &w.p, &par, &al2, (ck*) &m, rng_cb);
    MROW(embedded_pairing_wkdibe_ciphertext_marshal, embedded_pairing_wkdibe_ciphertext_marshal(m1, &c1, c), ((wk::Ciphertext*) &c1)->marshal<true>(m2), ((wk::Ciphertext*) &c1)->marshal<false>(m2), 4096)
    MROW(embedded_pairing_wkdibe_signature_marshal, embedded_pairing_wkdibe_signature_marshal(m1, &g1s, c), ((wk::Signature*) &g1s)->marshal<true>(m2), ((wk::Signature*) &g1s)->marshal<false>(m2), 4096)
    ROW(embedded_pairing_wkdibe_params_get_marshalled_length, { bool c = t & 1; ok = embedded_pairing_wkdibe_params_get_marshalled_length(&w.p, c) == (c ? PP.getMarshalledLength<true>() : PP.getMarshalledLength<false>()); })
    ROW(embedded_pairing_wkdibe_params_marshalled_length, { bool c = t & 1; bool sg = (t >> 1) & 1; ok = embedded_pairing_wkdibe_params_marshalled_length(t, sg, c) == (c ? wk::Params::marshalledLength<true>(t, sg) : wk::Params::marshalledLength<false>(t, sg)); })
    ROW(embedded_pairing_wkdibe_secretkey_get_marshalled_length, { bool c = t & 1; ok = embedded_pairing_wkdibe_secretkey_get_marshalled_length(&par, c) == (c ? PAR.getMarshalledLength<true>() : PAR.getMarshalledLength<false>()); })
    ROW(embedded_pairing_wkdibe_secretkey_marshalled_length, { bool c = t & 1; bool sg = (t >> 1) & 1; ok = embedded_pairing_wkdibe_secretkey_marshalled_length(t, sg, c) == (c ? wk::SecretKey::marshalledLength<true>(t, sg) : wk::SecretKey::marshalledLength<false>(t, sg)); })
    ROW(embedded_pairing_wkdibe_ciphertext_get_marshalled_length, { bool c = t & 1; ok = embedded_pairing_wkdibe_ciphertext_get_marshalled_length(c) == (c ? wk::Ciphertext::marshalledLength<true> : wk::Ciphertext::marshalledLength<false>); })
    ROW(embedded_pairing_wkdibe_signature_get_marshalled_length, { bool c = t & 1; ok = embedded_pairing_wkdibe_signature_get_marshalled_length(c) == (c ? wk::Signature::marshalledLength<true> : wk::Signature::marshalledLength<false>); })
    ROW(embedded_pairing_wkdibe_masterkey_get_marshalled_length, { bool c = t & 1; ok = embedded_pairing_wkdibe_masterkey_get_marshalled_length(c) == (c ? wk::MasterKey::marshalledLength<true> : wk::MasterKey::marshalledLength<false>); })
    // length discovery and unmarshal
    // zero-slot objects for the length rows: parameters of a hierarchy with no slots, a key without free slots
    WK w0; memset(&w0, 0, sizeof w0); w0.p.h = w0.h; RESEED(78); embedded_pairing_wkdibe_setup(&w0.p, &w0.m, 0, true, rng_cb);
    embedded_pairing_wkdibe_secretkey_t key0; memset(&key0, 0, sizeof key0); key0.b = b4;
    { embedded_pairing_wkdibe_attributelist_t none; none.attrs = NULL; none.length = 0; none.omitAllFromKeysUnlessPresent = true; RESEED(79); embedded_pairing_wkdibe_keygen(&key0, &w.p, &w.m, &none, rng_cb); }
#define LEN_P (t % 4 == 3 ? &w0.p : &w.p)
#define LEN_K (t % 4 == 3 ? &key0 : &par)
    ROW(embedded_pairing_wkdibe_params_unmarshalled_length, { bool c = t & 1; size_t n = embedded_pairing_wkdibe_params_get_marshalled_length(LEN_P, c) - (t % 3); embedded_pairing_wkdibe_params_marshal(m1, LEN_P, c);
        ok = embedded_pairing_wkdibe_params_unmarshalled_length(m1, n, c) == (c ? wk::Params::unmarshalledLength<true>(m1, n) : wk::Params::unmarshalledLength<false>(m1, n)); })
    ROW(embedded_pairing_wkdibe_params_set_length, { bool c = t & 1; size_t n = embedded_pairing_wkdibe_params_get_marshalled_length(LEN_P, c) - (t % 3); embedded_pairing_wkdibe_params_marshal(m1, LEN_P, c);
        embedded_pairing_wkdibe_params_t x; wk::Params y; x.l = -7; y.l = -7; int ra = embedded_pairing_wkdibe_params_set_length(&x, m1, n, c); int rb = c ? y.setLength<true>(m1, n) : y.setLength<false>(m1, n); ok = ra == rb && x.l == y.l; })
    ROW(embedded_pairing_wkdibe_secretkey_unmarshalled_length, { bool c = t & 1; size_t n = embedded_pairing_wkdibe_secretkey_get_marshalled_length(LEN_K, c) - (t % 3); embedded_pairing_wkdibe_secretkey_marshal(m1, LEN_K, c);
        ok = embedded_pairing_wkdibe_secretkey_unmarshalled_length(m1, n, c) == (c ? wk::SecretKey::unmarshalledLength<true>(m1, n) : wk::SecretKey::unmarshalledLength<false>(m1, n)); })
    ROW(embedded_pairing_wkdibe_secretkey_set_length, { bool c = t & 1; size_t n = embedded_pairing_wkdibe_secretkey_get_marshalled_length(LEN_K, c) - (t % 3); embedded_pairing_wkdibe_secretkey_marshal(m1, LEN_K, c);
        embedded_pairing_wkdibe_secretkey_t x; wk::SecretKey y; x.l = -7; y.l = -7; int ra = embedded_pairing_wkdibe_secretkey_set_length(&x, m1, n, c); int rb = c ? y.setLength<true>(m1, n) : y.setLength<false>(m1, n); ok = ra == rb && x.l == y.l; })
    ROW(embedded_pairing_wkdibe_params_unmarshal, { bool c = t & 1; bool chk = (t >> 1) & 1; embedded_pairing_wkdibe_params_marshal(m1, &w.p, c); if (t >= 4) m1[60] ^= 2;
        WK x, y; memset(&x, 0, sizeof x); memset(&y, 0, sizeof y); x.p.h = x.h; y.p.h = y.h; x.p.l = L; y.p.l = L;
        bool ra = embedded_pairing_wkdibe_params_unmarshal(&x.p, m1, c, chk); bool rb = c ? ((wk::Params*) &y.p)->unmarshal<true>(m1, chk) : ((wk::Params*) &y.p)->unmarshal<false>(m1, chk);
        ok = ra == rb && (!ra || (eq(x.p.g, y.p.g) && eq(x.p.g1, y.p.g1) && eq(x.p.g2, y.p.g2) && eq(x.p.g3, y.p.g3) && eq(x.p.pairing, y.p.pairing) && x.p.signatures == y.p.signatures && memcmp(x.h, y.h, sizeof x.h) == 0)); })
    ROW(embedded_pairing_wkdibe_secretkey_unmarshal, { SKCLR(); bool c = t & 1; bool chk = (t >> 1) & 1; embedded_pairing_wkdibe_secretkey_marshal(m1, &par, c); if (t >= 4) m1[60] ^= 2; s1.l = par.l; s2.l = par.l;
        bool ra = embedded_pairing_wkdibe_secretkey_unmarshal(&s1, m1, c, chk); bool rb = c ? ((wk::SecretKey*) &s2)->unmarshal<true>(m1, chk) : ((wk::SecretKey*) &s2)->unmarshal<false>(m1, chk);
        ok = ra == rb && (!ra || (eq(s1.a0, s2.a0) && eq(s1.a1, s2.a1) && s1.signatures == s2.signatures && memcmp(b1, b2, sizeof(b1[0]) * (size_t) par.l) == 0)); })
#define UROW(sym, ctype, cpptype, obj, marshal_stmt) ROW(sym, { bool c = t & 1; bool chk = (t >> 1) & 1; marshal_stmt; if (t >= 4) m1[20] ^= 2; ctype x; cpptype y; memset(&x, 0x33, sizeof x); memset(&y, 0x33, sizeof y); \
        bool ra = sym(&x, m1, c, chk); bool rb = c ? y.unmarshal<true>(m1, chk) : y.unmarshal<false>(m1, chk); ok = ra == rb && (!ra || memcmp(&x, &y, sizeof x) == 0); })
    UROW(embedded_pairing_wkdibe_ciphertext_unmarshal, embedded_pairing_wkdibe_ciphertext_t, wk::Ciphertext, c1, embedded_pairing_wkdibe_ciphertext_marshal(m1, &c1, c))
    UROW(embedded_pairing_wkdibe_signature_unmarshal, embedded_pairing_wkdibe_signature_t, wk::Signature, g1s, embedded_pairing_wkdibe_signature_marshal(m1, &g1s, c))
    UROW(embedded_pairing_wkdibe_masterkey_unmarshal, embedded_pairing_wkdibe_masterkey_t, wk::MasterKey, w.m, embedded_pairing_wkdibe_masterkey_marshal(m1, &w.m, c))

    // ------------------------------------------------------------------ LQ-IBE
    embedded_pairing_lqibe_params_t lp1, lp2; embedded_pairing_lqibe_masterkey_t lm1, lm2; embedded_pairing_lqibe_id_t id1, id2; embedded_pairing_lqibe_secretkey_t ls1, ls2; embedded_pairing_lqibe_ciphertext_t lc1, lc2;
    embedded_pairing_lqibe_idhash_t ih;
    extern void hash_cb(void*, size_t, const void*, size_t);
    ROW(embedded_pairing_lqibe_setup, { memset(&lp1, 0x11, sizeof lp1); memset(&lp2, 0x11, sizeof lp2); RESEED(t); embedded_pairing_lqibe_setup(&lp1, &lm1, rng_cb); RESEED(t); lq::setup(*(lq::Params*) &lp2, *(lq::MasterKey*) &lm2, rng_cb); ok = eq(lp1, lp2) && eq(lm1, lm2); })
    ROW(embedded_pairing_lqibe_compute_id_from_hash, { memset(&id1, 0, sizeof id1); memset(&id2, 0, sizeof id2); rng_cb(ih.hash, 48); embedded_pairing_lqibe_compute_id_from_hash(&id1, &ih); lq::compute_id_from_hash(*(lq::ID*) &id2, *(lq::IDHash*) &ih);
        ok = eqa(*(G1Affine*) &id1.q, *(G1Affine*) &id2.q); })
    ROW(embedded_pairing_lqibe_keygen, { memset(&ls1, 0, sizeof ls1); memset(&ls2, 0, sizeof ls2); rng_cb(ih.hash, 48); embedded_pairing_lqibe_compute_id_from_hash(&id1, &ih); embedded_pairing_lqibe_keygen(&ls1, &lm1, &id1);
        lq::keygen(*(lq::SecretKey*) &ls2, *(lq::MasterKey*) &lm1, *(lq::ID*) &id1); ok = eqa(*(G1Affine*) &ls1.sq, *(G1Affine*) &ls2.sq); })
    uint8_t k1[64], k2[64];
    ROW(embedded_pairing_lqibe_encrypt, { memset(&lc1, 0, sizeof lc1); memset(&lc2, 0, sizeof lc2); memset(k1, 0, 64); memset(k2, 0, 64); RESEED(t); embedded_pairing_lqibe_encrypt(&lc1, k1, 16 + t % 48, &lp1, &id1, hash_cb, rng_cb); RESEED(t);
        lq::encrypt(*(lq::Ciphertext*) &lc2, k2, 16 + t % 48, *(lq::Params*) &lp1, *(lq::ID*) &id1, hash_cb, rng_cb); ok = eqa(*(G2Affine*) &lc1.rp, *(G2Affine*) &lc2.rp) && memcmp(k1, k2, 64) == 0; })
    ROW(embedded_pairing_lqibe_decrypt, { memset(k1, 0, 64); memset(k2, 0, 64); uint8_t k0[64]; memset(k0, 0, 64); RESEED(t); embedded_pairing_lqibe_encrypt(&lc1, k0, 16 + t % 48, &lp1, &id1, hash_cb, rng_cb);
        embedded_pairing_lqibe_decrypt(k1, 16 + t % 48, &lc1, &ls1, &id1, hash_cb); lq::decrypt(k2, 16 + t % 48, *(lq::Ciphertext*) &lc1, *(lq::SecretKey*) &ls1, *(lq::ID*) &id1, hash_cb); ok = memcmp(k1, k2, 64) == 0 && memcmp(k0, k1, 64) == 0; })
#define LROWS(name, ctype, cpptype, obj) \
    MROW(embedded_pairing_lqibe_##name##_marshal, embedded_pairing_lqibe_##name##_marshal(m1, &obj, c), ((cpptype*) &obj)->marshal<true>(m2), ((cpptype*) &obj)->marshal<false>(m2), 1024) \
    UROW(embedded_pairing_lqibe_##name##_unmarshal, ctype, cpptype, obj, embedded_pairing_lqibe_##name##_marshal(m1, &obj, c)) \
    ROW(embedded_pairing_lqibe_##name##_get_marshalled_length, { bool c = t & 1; ok = embedded_pairing_lqibe_##name##_get_marshalled_length(c) == (c ? cpptype::marshalledLength<true> : cpptype::marshalledLength<false>); })
    LROWS(params, embedded_pairing_lqibe_params_t, lq::Params, lp1)
    LROWS(id, embedded_pairing_lqibe_id_t, lq::ID, id1)
    LROWS(masterkey, embedded_pairing_lqibe_masterkey_t, lq::MasterKey, lm1)
    LROWS(secretkey, embedded_pairing_lqibe_secretkey_t, lq::SecretKey, ls1)
    LROWS(ciphertext, embedded_pairing_lqibe_ciphertext_t, lq::Ciphertext, lc1)
}

void hash_cb(void* out, size_t outlen, const void* in, size_t inlen) {
    uint8_t* o = (uint8_t*) out; const uint8_t* p = (const uint8_t*) in;
    for (size_t i = 0; i < outlen; i++) o[i] = (uint8_t) i;
    if (outlen) for (size_t i = 0; i < inlen; i++) o[i % outlen] ^= (uint8_t) (p[i] * 3 + i);
}

int main(int argc, char** argv) {
    for (int i = 1; i < argc; i++) {
        if (!strcmp(argv[i], "--trials") && i + 1 < argc) g_n = atoi(argv[++i]);
        else if (!strcmp(argv[i], "--seed") && i + 1 < argc) g_seed = strtoull(argv[++i], NULL, 10);
    }
    rng_seed(g_seed);
    bls_rows();
    wkd_rows();
    fflush(stdout);
    return 0;
}
