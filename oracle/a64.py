"""Subset interpreter for the AArch64 routines shipped in src/core/arch/aarch64/*.s.

The sources are assembled with llvm-mc and disassembled with llvm-objdump; this module executes the 64-bit integer
subset of A64 on a flat byte memory: add/sub (with flags, carry, shifted register), mul/umulh/madd/msub, logical
operations and shifts, compares, conditional select family (csel/csinc/csinv/csneg/cset/csetm/cinc), all condition
codes incl. the overflow flag, ldp/stp/ldr/str in all addressing forms, b/b.cond/cbz/cbnz, ret.  The shipped files use
15 of these mnemonics; the rest is there so that a realistic rewrite of a routine (e.g. a branch-free final subtraction)
is JUDGED instead of being declared uncovered.  Any other mnemonic or operand form raises Unsupported (inconclusive,
never a pass).
"""
import os
import re
import subprocess

M64 = (1 << 64) - 1


class Unsupported(Exception):
    pass


def assemble(src_dir, work):
    """returns {routine name: Program}"""
    progs = {}
    for f in sorted(os.listdir(src_dir)):
        if not f.endswith('.s'):
            continue
        obj = os.path.join(work, f[:-2] + '.o')
        r = subprocess.run(['llvm-mc-14', '-triple=aarch64', '-filetype=obj', os.path.join(src_dir, f), '-o', obj], stdout=subprocess.PIPE, stderr=subprocess.STDOUT, text=True)
        if r.returncode:
            raise Unsupported('llvm-mc failed on %s: %s' % (f, r.stdout[-500:]))
        dis = subprocess.run(['llvm-objdump-14', '-d', '--no-show-raw-insn', obj], stdout=subprocess.PIPE, stderr=subprocess.STDOUT, text=True).stdout
        code = {}
        labels = {}
        for line in dis.split('\n'):
            m = re.match(r'^([0-9a-f]+) <([^>]+)>:$', line.strip())
            if m:
                labels[m.group(2)] = int(m.group(1), 16)
                continue
            m = re.match(r'^\s*([0-9a-f]+):\s+(\S+)\s*(.*)$', line)
            if m:
                code[int(m.group(1), 16)] = (m.group(2), m.group(3).strip())
        p = Program(code, labels, f)
        for name in labels:
            progs[name] = p
    return progs


def _reg(tok):
    tok = tok.strip()
    if tok == 'xzr':
        return 31
    if tok == 'sp':
        return 32
    m = re.match(r'^x(\d+)$', tok)
    if not m:
        raise Unsupported('register %r' % tok)
    return int(m.group(1))


class Program:
    def __init__(self, code, labels, fname):
        self.code = code
        self.labels = labels
        self.fname = fname
        self.decoded = {a: self._decode(a, mn, ops) for a, (mn, ops) in code.items()}
        self.mnemonics = sorted({mn for mn, _ in code.values()})

    def _decode(self, addr, mn, ops):
        if mn in ('adds', 'adcs', 'subs', 'sbcs', 'add', 'sub', 'mul', 'umulh', 'adc', 'sbc', 'and', 'ands', 'orr', 'eor', 'bic', 'orn', 'eon', 'lsl', 'lsr', 'asr', 'ror'):
            p = [x.strip() for x in ops.split(',')]
            if len(p) == 4 and not p[2].startswith('#'):
                m = re.match(r'^(lsl|lsr|asr|ror)\s+#(\d+)$', p[3])
                if not m or mn in ('lsl', 'lsr', 'asr', 'ror', 'mul', 'umulh', 'adc', 'adcs', 'sbc', 'sbcs'):
                    raise Unsupported('%s %s' % (mn, ops))
                return (mn, _reg(p[0]), _reg(p[1]), ('sreg', _reg(p[2]), m.group(1), int(m.group(2))))
            if len(p) == 4 and p[2].startswith('#'):
                m = re.match(r'^lsl\s+#(\d+)$', p[3])
                if not m:
                    raise Unsupported('%s %s' % (mn, ops))
                return (mn, _reg(p[0]), _reg(p[1]), ('imm', int(p[2][1:], 0) << int(m.group(1))))
            if len(p) != 3:
                raise Unsupported('%s %s' % (mn, ops))
            if p[2].startswith('#'):
                return (mn, _reg(p[0]), _reg(p[1]), ('imm', int(p[2][1:], 0)))
            return (mn, _reg(p[0]), _reg(p[1]), ('reg', _reg(p[2])))
        if mn in ('madd', 'msub'):
            p = [x.strip() for x in ops.split(',')]
            if len(p) != 4:
                raise Unsupported('%s %s' % (mn, ops))
            return (mn, _reg(p[0]), _reg(p[1]), _reg(p[2]), _reg(p[3]))
        if mn in ('neg', 'negs', 'mvn', 'ngc', 'ngcs'):
            p = [x.strip() for x in ops.split(',')]
            if len(p) != 2:
                raise Unsupported('%s %s' % (mn, ops))
            return (mn, _reg(p[0]), _reg(p[1]))
        if mn in ('csel', 'csinc', 'csinv', 'csneg'):
            p = [x.strip() for x in ops.split(',')]
            if len(p) != 4:
                raise Unsupported('%s %s' % (mn, ops))
            return ('csel', mn, _reg(p[0]), _reg(p[1]), _reg(p[2]), p[3])
        if mn in ('cinc', 'cinv', 'cneg'):
            p = [x.strip() for x in ops.split(',')]
            if len(p) != 3:
                raise Unsupported('%s %s' % (mn, ops))
            return ('cinc', mn, _reg(p[0]), _reg(p[1]), p[2])
        if mn == 'csetm':
            p = [x.strip() for x in ops.split(',')]
            return ('csetm', _reg(p[0]), p[1])
        if mn in ('cbz', 'cbnz'):
            m = re.match(r'^(\w+),\s*0x([0-9a-f]+)', ops)
            if not m:
                raise Unsupported('%s %s' % (mn, ops))
            return (mn, _reg(m.group(1)), int(m.group(2), 16))
        if mn == 'tst':
            p = [x.strip() for x in ops.split(',')]
            if len(p) != 2:
                raise Unsupported('%s %s' % (mn, ops))
            return ('tst', _reg(p[0]), ('imm', int(p[1][1:], 0)) if p[1].startswith('#') else ('reg', _reg(p[1])))
        if mn in ('ldr', 'str'):
            m = re.match(r'^(\w+),\s*\[(\w+)(?:,\s*#(-?\d+))?\](!)?(?:,\s*#(-?\d+))?$', ops)
            if not m:
                raise Unsupported('%s %s' % (mn, ops))
            r1, base, off, pre, post = m.groups()
            if pre:
                mode, imm = 'pre', int(off)
            elif post is not None:
                mode, imm = 'post', int(post)
            else:
                mode, imm = 'off', int(off) if off else 0
            return (mn, _reg(r1), _reg(base), mode, imm)
        if mn in ('cmp', 'cmn'):
            p = [x.strip() for x in ops.split(',')]
            if len(p) != 2:
                raise Unsupported('%s %s' % (mn, ops))
            if p[1].startswith('#'):
                return (mn, _reg(p[0]), ('imm', int(p[1][1:], 0)))
            return (mn, _reg(p[0]), ('reg', _reg(p[1])))
        if mn in ('ldp', 'stp'):
            m = re.match(r'^(\w+),\s*(\w+),\s*\[(\w+)(?:,\s*#(-?\d+))?\](!)?(?:,\s*#(-?\d+))?$', ops)
            if not m:
                raise Unsupported('%s %s' % (mn, ops))
            r1, r2, base, off, pre, post = m.groups()
            if pre:
                mode = 'pre'
                imm = int(off)
            elif post is not None:
                mode = 'post'
                imm = int(post)
            else:
                mode = 'off'
                imm = int(off) if off else 0
            return (mn, _reg(r1), _reg(r2), _reg(base), mode, imm)
        if mn.startswith('b.'):
            m = re.match(r'^0x([0-9a-f]+)', ops)
            if not m:
                raise Unsupported('%s %s' % (mn, ops))
            return ('bcond', mn[2:], int(m.group(1), 16))
        if mn == 'b':
            m = re.match(r'^0x([0-9a-f]+)', ops)
            return ('b', int(m.group(1), 16))
        if mn == 'cset':
            p = [x.strip() for x in ops.split(',')]
            return ('cset', _reg(p[0]), p[1])
        if mn == 'mov':
            p = [x.strip() for x in ops.split(',')]
            if p[1].startswith('#'):
                return ('movi', _reg(p[0]), int(p[1][1:], 0))
            return ('mov', _reg(p[0]), _reg(p[1]))
        if mn == 'ret':
            return ('ret',)
        raise Unsupported('mnemonic %s (%s) at %x in %s' % (mn, ops, addr, self.fname))


def _cond(c, N, Z, C, V):
    if c in ('hs', 'cs'):
        return C == 1
    if c in ('lo', 'cc'):
        return C == 0
    if c == 'hi':
        return C == 1 and Z == 0
    if c == 'ls':
        return not (C == 1 and Z == 0)
    if c == 'eq':
        return Z == 1
    if c == 'ne':
        return Z == 0
    if c == 'mi':
        return N == 1
    if c == 'pl':
        return N == 0
    if c == 'vs':
        return V == 1
    if c == 'vc':
        return V == 0
    if c == 'ge':
        return N == V
    if c == 'lt':
        return N != V
    if c == 'gt':
        return Z == 0 and N == V
    if c == 'le':
        return not (Z == 0 and N == V)
    if c == 'al':
        return True
    raise Unsupported('condition ' + c)


def _shift(v, kind, n):
    v &= M64
    n &= 63
    if kind == 'lsl':
        return (v << n) & M64
    if kind == 'lsr':
        return v >> n
    if kind == 'asr':
        return ((v - (1 << 64) if v >> 63 else v) >> n) & M64
    return ((v >> n) | (v << (64 - n))) & M64 if n else v


def _sx(v):
    return v - (1 << 64) if v >> 63 else v


class Machine:
    STACK_TOP = 0x100000

    def __init__(self):
        self.mem = {}
        self.stats = {}

    def write(self, addr, data):
        for i, b in enumerate(data):
            self.mem[addr + i] = b

    def read(self, addr, n):
        try:
            return bytes(self.mem[addr + i] for i in range(n))
        except KeyError:
            raise MemoryError('read of unmapped address %x' % (addr,))

    def map(self, addr, n):
        for i in range(n):
            self.mem.setdefault(addr + i, 0)

    def call(self, prog, name, args, max_steps=20000):
        x = [0] * 33
        for i, a in enumerate(args):
            x[i] = a & M64
        # callee-saved registers get recognisable values, checked after return
        for r in range(19, 29):
            x[r] = 0xC5C5000000000000 | r
        x[32] = self.STACK_TOP
        self.map(self.STACK_TOP - 512, 512)
        N = Z = C = V = 0
        pc = prog.labels[name]
        steps = 0
        executed = set()

        def rd(r):
            return 0 if r == 31 else x[r]

        def wr(r, v):
            if r != 31:
                x[r] = v & M64

        def opnd(o):
            if o[0] == 'imm':
                return o[1] & M64
            if o[0] == 'sreg':
                return _shift(rd(o[1]), o[2], o[3])
            return rd(o[1])
        while True:
            steps += 1
            if steps > max_steps:
                raise Unsupported('step limit')
            ins = prog.decoded.get(pc)
            if ins is None:
                raise Unsupported('fell off the code at %x' % pc)
            executed.add(pc)
            op = ins[0]
            npc = pc + 4
            if op in ('adds', 'adcs', 'add', 'adc'):
                a = rd(ins[2]) if not (ins[2] == 32) else x[32]
                b = opnd(ins[3])
                cin = (C if op in ('adcs', 'adc') else 0)
                s = a + b + cin
                res = s & M64
                if op in ('adds', 'adcs'):
                    C = 1 if s > M64 else 0
                    Z = 1 if res == 0 else 0
                    N = res >> 63
                    V = 1 if _sx(a) + _sx(b) + cin != _sx(res) else 0
                if ins[1] == 32:
                    x[32] = res
                else:
                    wr(ins[1], res)
            elif op in ('subs', 'sbcs', 'sub', 'sbc'):
                a = rd(ins[2]) if not (ins[2] == 32) else x[32]
                b = opnd(ins[3])
                borrow = (1 - C) if op in ('sbcs', 'sbc') else 0
                s = a - b - borrow
                res = s & M64
                if op in ('subs', 'sbcs'):
                    C = 1 if s >= 0 else 0
                    Z = 1 if res == 0 else 0
                    N = res >> 63
                    V = 1 if _sx(a) - _sx(b) - borrow != _sx(res) else 0
                if ins[1] == 32:
                    x[32] = res
                else:
                    wr(ins[1], res)
            elif op == 'cmp':
                a = rd(ins[1])
                b = opnd(ins[2])
                s = a - b
                C = 1 if s >= 0 else 0
                Z = 1 if (s & M64) == 0 else 0
                N = (s & M64) >> 63
                V = 1 if _sx(a) - _sx(b) != _sx(s & M64) else 0
            elif op == 'cmn':
                a = rd(ins[1])
                b = opnd(ins[2])
                s = a + b
                C = 1 if s > M64 else 0
                Z = 1 if (s & M64) == 0 else 0
                N = (s & M64) >> 63
                V = 1 if _sx(a) + _sx(b) != _sx(s & M64) else 0
            elif op in ('and', 'ands', 'orr', 'eor', 'bic', 'orn', 'eon'):
                a, b = rd(ins[2]), opnd(ins[3])
                if op in ('bic', 'orn', 'eon'):
                    b = ~b & M64
                res = (a & b) if op in ('and', 'ands', 'bic') else ((a | b) if op in ('orr', 'orn') else (a ^ b))
                if op == 'ands':
                    N, Z, C, V = res >> 63, 1 if res == 0 else 0, 0, 0
                wr(ins[1], res)
            elif op == 'tst':
                res = rd(ins[1]) & opnd(ins[2])
                N, Z, C, V = res >> 63, 1 if res == 0 else 0, 0, 0
            elif op in ('lsl', 'lsr', 'asr', 'ror'):
                wr(ins[1], _shift(rd(ins[2]), op, opnd(ins[3])))
            elif op in ('madd', 'msub'):
                pr = rd(ins[2]) * rd(ins[3])
                wr(ins[1], rd(ins[4]) + pr if op == 'madd' else rd(ins[4]) - pr)
            elif op in ('neg', 'negs'):
                b = rd(ins[2])
                res = (-b) & M64
                if op == 'negs':
                    C, Z, N, V = (1 if b == 0 else 0), (1 if res == 0 else 0), res >> 63, (1 if b == 1 << 63 else 0)
                wr(ins[1], res)
            elif op == 'mvn':
                wr(ins[1], ~rd(ins[2]) & M64)
            elif op in ('ngc', 'ngcs'):
                b = rd(ins[2])
                s = 0 - b - (1 - C)
                res = s & M64
                if op == 'ngcs':
                    C, Z, N, V = (1 if s >= 0 else 0), (1 if res == 0 else 0), res >> 63, (1 if -_sx(b) - (1 - C) != _sx(res) else 0)
                wr(ins[1], res)
            elif op == 'csel':
                _, kind, rdst, rn, rm, cc = ins
                if _cond(cc, N, Z, C, V):
                    wr(rdst, rd(rn))
                else:
                    v = rd(rm)
                    wr(rdst, v if kind == 'csel' else (v + 1 if kind == 'csinc' else (~v if kind == 'csinv' else -v)))
            elif op == 'cinc':
                _, kind, rdst, rn, cc = ins
                v = rd(rn)
                wr(rdst, (v + 1 if kind == 'cinc' else (~v if kind == 'cinv' else -v)) if _cond(cc, N, Z, C, V) else v)
            elif op == 'csetm':
                wr(ins[1], M64 if _cond(ins[2], N, Z, C, V) else 0)
            elif op in ('cbz', 'cbnz'):
                if (rd(ins[1]) == 0) == (op == 'cbz'):
                    npc = ins[2]
            elif op in ('ldr', 'str'):
                _, r1, base, mode, imm = ins
                b = x[base] if base != 31 else 0
                addr = b + imm if mode in ('pre', 'off') else b
                if op == 'ldr':
                    wr(r1, int.from_bytes(self.read(addr, 8), 'little'))
                else:
                    if addr not in self.mem or (addr + 7) not in self.mem:
                        raise MemoryError('write to unmapped address %x' % addr)
                    self.write(addr, rd(r1).to_bytes(8, 'little'))
                if mode == 'pre':
                    x[base] = addr & M64
                elif mode == 'post':
                    x[base] = (b + imm) & M64
            elif op == 'mul':
                wr(ins[1], rd(ins[2]) * rd(ins[3][1]))
            elif op == 'umulh':
                wr(ins[1], (rd(ins[2]) * rd(ins[3][1])) >> 64)
            elif op in ('ldp', 'stp'):
                _, r1, r2, base, mode, imm = ins
                b = x[base] if base != 31 else 0
                addr = b + imm if mode in ('pre', 'off') else b
                if op == 'ldp':
                    d = self.read(addr, 16)
                    wr(r1, int.from_bytes(d[:8], 'little'))
                    wr(r2, int.from_bytes(d[8:], 'little'))
                else:
                    if addr not in self.mem or (addr + 15) not in self.mem:
                        raise MemoryError('write to unmapped address %x' % addr)
                    self.write(addr, rd(r1).to_bytes(8, 'little') + rd(r2).to_bytes(8, 'little'))
                if mode == 'pre':
                    x[base] = addr & M64
                elif mode == 'post':
                    x[base] = (b + imm) & M64
            elif op == 'bcond':
                if _cond(ins[1], N, Z, C, V):
                    npc = ins[2]
            elif op == 'b':
                npc = ins[1]
            elif op == 'cset':
                wr(ins[1], 1 if _cond(ins[2], N, Z, C, V) else 0)
            elif op == 'mov':
                wr(ins[1], rd(ins[2]))
            elif op == 'movi':
                wr(ins[1], ins[2])
            elif op == 'ret':
                break
            else:
                raise Unsupported(op)
            pc = npc
        for r in range(19, 29):
            if x[r] != (0xC5C5000000000000 | r):
                raise CalleeSaved('x%d not restored by %s' % (r, name))
        if x[32] != self.STACK_TOP:
            raise CalleeSaved('stack pointer not restored by %s' % name)
        return x[0], executed


class CalleeSaved(Exception):
    pass


def selftest():
    """hand-computed flag cases for the arithmetic the routines rely on"""
    code = {0: ('adds', 'x0, x0, x1'), 4: ('cset', 'x2, hs'), 8: ('adcs', 'x3, xzr, xzr'), 12: ('subs', 'x4, x0, x1'), 16: ('cset', 'x5, lo'), 20: ('sbcs', 'x6, xzr, xzr'),
            24: ('cmp', 'x1, #1'), 28: ('cset', 'x7, hs'), 32: ('cmn', 'xzr, xzr'), 36: ('cset', 'x8, hs'), 40: ('umulh', 'x9, x1, x1'), 44: ('mul', 'x10, x1, x1'), 48: ('ret', '')}
    p = Program(code, {'t': 0}, 'selftest')
    m = Machine()
    r, _ = m.call(p, 't', [M64, 2])
    # M64 + 2 = 1 carry 1
    assert r == 1
    # run again capturing registers through memory is overkill: use a tiny stp program instead
    code2 = {0: ('adds', 'x3, x1, x2'), 4: ('adcs', 'x4, xzr, xzr'), 8: ('subs', 'x5, x1, x2'), 12: ('sbcs', 'x6, xzr, xzr'), 16: ('stp', 'x3, x4, [x0], #16'), 20: ('stp', 'x5, x6, [x0], #16'),
             24: ('umulh', 'x3, x1, x2'), 28: ('mul', 'x4, x1, x2'), 32: ('stp', 'x3, x4, [x0]'), 36: ('ret', '')}
    p2 = Program(code2, {'t': 0}, 'selftest')
    m.map(0x1000, 64)
    a, b = 0xfffffffffffffff0, 0x20
    m.call(p2, 't', [0x1000, a, b])
    w = [int.from_bytes(m.read(0x1000 + 8 * i, 8), 'little') for i in range(6)]
    assert w[0] == (a + b) & M64 and w[1] == 1, w
    assert w[2] == (a - b) & M64 and w[3] == 0, w            # no borrow: 0 - 0 - 0
    assert w[4] == (a * b) >> 64 and w[5] == (a * b) & M64, w
    m.call(p2, 't', [0x1000, 1, 2])
    w = [int.from_bytes(m.read(0x1000 + 8 * i, 8), 'little') for i in range(4)]
    assert w[0] == 3 and w[1] == 0 and w[2] == M64 and w[3] == M64, w   # 1-2 borrows: 0 - 0 - 1 = all ones
    # conditional select family, logical operations, shifts, overflow flag: x1 - x2 sets the flags, then selections on hs / hi / eq / lt
    code3 = {0: ('subs', 'x9, x1, x2'), 4: ('csel', 'x3, x1, x2, hs'), 8: ('csel', 'x4, x1, x2, hi'), 12: ('csinc', 'x5, x1, x2, eq'), 16: ('csetm', 'x6, lt'),
             20: ('stp', 'x3, x4, [x0], #16'), 24: ('stp', 'x5, x6, [x0], #16'), 28: ('eor', 'x3, x1, x2'), 32: ('and', 'x4, x1, x2, lsl #4'), 36: ('lsr', 'x5, x1, #3'), 40: ('cinc', 'x6, x2, ne'),
             44: ('stp', 'x3, x4, [x0], #16'), 48: ('stp', 'x5, x6, [x0]'), 52: ('ret', '')}
    p3 = Program(code3, {'t': 0}, 'selftest')
    m.map(0x1000, 128)
    m.call(p3, 't', [0x1000, 7, 7])          # equal: C=1 Z=1 -> hs true, hi false, eq true, lt false
    w = [int.from_bytes(m.read(0x1000 + 8 * i, 8), 'little') for i in range(8)]
    assert w[:4] == [7, 7, 7, 0] and w[4] == 0 and w[5] == (7 & (7 << 4)) and w[6] == 0 and w[7] == 7, w
    m.call(p3, 't', [0x1000, 5, 9])          # 5 - 9: borrow, C=0 N=1 V=0 -> hs false, hi false, eq false (x2+1), lt true
    w = [int.from_bytes(m.read(0x1000 + 8 * i, 8), 'little') for i in range(8)]
    assert w[:4] == [9, 9, 10, M64] and w[4] == 12 and w[7] == 10, w
    m.call(p3, 't', [0x1000, 1 << 63, 1])    # most negative minus one overflows: V=1, N=0 -> lt true
    w = [int.from_bytes(m.read(0x1000 + 8 * i, 8), 'little') for i in range(4)]
    assert w[3] == M64 and w[0] == 1 << 63 and w[1] == 1 << 63, w
    return True


if __name__ == '__main__':
    selftest()
    print('a64 interpreter selftest ok')
