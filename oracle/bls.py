"""Definition-level reference model for BLS12-381 (Python integers only).

Shares nothing with the library except the published curve parameters
(q, r, x, b, generator coordinates).  Everything else (Montgomery constants,
Frobenius images, cofactors, final exponent, pairing value of the generators)
is derived here from the definitions.

Representations
  Fq, Fr : int in [0,p)
  Fq2    : (c0, c1)                 c0 + c1*u,        u^2 = -1
  Fq6    : (c0, c1, c2) of Fq2      c0 + c1*v + c2*v^2, v^3 = u+1
  Fq12   : (c0, c1) of Fq6          c0 + c1*w,        w^2 = v
  flat   : list of 12 ints          sum f[i] w^i,     w^12 = 2 w^6 - 2
  points : None (identity) or (x, y) affine
"""

Q = 0x1a0111ea397fe69a4b1ba7b6434bacd764774b84f38512bf6730d2a0f6b0f6241eabfffeb153ffffb9feffffffffaaab
R = 0x73eda753299d7d483339d80809a1d80553bda402fffe5bfeffffffff00000001
X = -0xd201000000010000
XA = -X

G1_GEN = (
    0x17f1d3a73197d7942695638c4fa9ac0fc3688c4f9774b905a14e3a3f171bac586c55e83ff97a1aeffb3af00adb22c6bb,
    0x08b3f481e3aaa0f1a09e30ed741d8ae4fcf5e095d5d00af600db18cb2c04b3edd03cc744a2888ae40caa232946c5e7e1,
)
G2_GEN = (
    (0x024aa2b2f08f0a91260805272dc51051c6e47ad4fa403b02b4510b647ae3d1770bac0326a805bbefd48056c8c121bdb8,
     0x13e02b6052719f607dacd3a088274f65596bd0d09920b61ab5da61bbdc7f5049334cf11213945d57e5ac7d055d042b7e),
    (0x0ce5d527727d6e118cc9cdc6da2e351aadfd9baa8cbdd3a76d429a695160d12c923ac9cc3baca289e193548608b82801,
     0x0606c4a02ea734cc32acd2b02bc28b99cb3e287e85a763af267492ab572e99ab3f370d275cec1da1aaa9075ff05f79be),
)

# Derived group-theoretic quantities (from the BLS12 family polynomials)
assert R == X**4 - X**2 + 1
assert Q == ((X - 1)**2 * R) // 3 + X and ((X - 1)**2 * R) % 3 == 0
H1 = (X - 1)**2 // 3
H2 = (X**8 - 4*X**7 + 5*X**6 - 4*X**4 + 6*X**3 - 4*X**2 - 4*X + 13) // 9
assert (X - 1)**2 % 3 == 0
assert (X**8 - 4*X**7 + 5*X**6 - 4*X**4 + 6*X**3 - 4*X**2 - 4*X + 13) % 9 == 0

# Montgomery radices as documented in fp.hpp: r = 2^bits mod p
MONT_BITS_Q = 384
MONT_BITS_R = 256
RQ = pow(2, MONT_BITS_Q, Q)
RQ_INV = pow(RQ, -1, Q)
RR = pow(2, MONT_BITS_R, R)
RR_INV = pow(RR, -1, R)


def fq_from_raw(raw):
    """raw Montgomery limbs (as int) -> value"""
    return (raw * RQ_INV) % Q


def fq_to_raw(v):
    return (v * RQ) % Q


def fr_from_raw(raw):
    return (raw * RR_INV) % R


def fr_to_raw(v):
    return (v * RR) % R


# ---------------------------------------------------------------- Fq helpers
def fq_inv(a):
    return pow(a, -1, Q) if a % Q else 0


def fq_legendre(a):
    a %= Q
    if a == 0:
        return 0
    return 1 if pow(a, (Q - 1) // 2, Q) == 1 else -1


def fq_sqrt(a):
    """some square root or None (q = 3 mod 4)"""
    a %= Q
    s = pow(a, (Q + 1) // 4, Q)
    return s if s * s % Q == a else None


_CBRT = {}


def fq_cbrt(a):
    """a cube root of a in Fq, or None if a is not a cubic residue (q = 1 mod 9: Adleman-Manders-Miller with a base-3 discrete log in the
    3-Sylow subgroup).  Verified by cubing before returning."""
    a %= Q
    if a == 0:
        return 0
    if pow(a, (Q - 1) // 3, Q) != 1:
        return None
    if not _CBRT:
        s3, t = 0, Q - 1
        while t % 3 == 0:
            s3, t = s3 + 1, t // 3
        g = 2
        while pow(g, (Q - 1) // 3, Q) == 1:
            g += 1
        _CBRT.update(s=s3, t=t, c=pow(g, t, Q), e=pow(3, -1, t))
    s3, t, c, e = _CBRT['s'], _CBRT['t'], _CBRT['c'], _CBRT['e']
    x = pow(a, e, Q)
    b = pow(x, 3, Q) * pow(a, -1, Q) % Q          # in the 3-Sylow subgroup (order 3^s3), and a cube there
    # discrete log j of b in base c, digit by digit in base 3
    j, cur = 0, b
    for i in range(s3):
        d = pow(cur, 3 ** (s3 - 1 - i), Q)
        w = pow(c, 3 ** (s3 - 1), Q)
        digit = 0 if d == 1 else (1 if d == w else 2)
        j += digit * 3 ** i
        cur = cur * pow(c, -digit * 3 ** i, Q) % Q
    if j % 3:
        return None
    y = pow(c, -(j // 3), Q)
    r = x * y % Q
    return r if pow(r, 3, Q) == a else None


SMALL_ORDERS = {1: [3, 11, 10177], 2: [13, 23, 2713]}      # small prime factors of the two cofactors
_SMALL_CACHE = {}


def small_order_point(which, rng, ell=None):
    """a curve point (G1 curve / G2 twist) of order exactly ell, a small prime dividing the cofactor: on the curve, canonical, NOT in the
    order-r subgroup - and annihilated by far more multipliers than a generic non-subgroup point"""
    E = E1 if which == 1 else E2
    H = H1 if which == 1 else H2
    ell = ell or rng.choice(SMALL_ORDERS[which])
    base = _SMALL_CACHE.get((which, ell))
    if base is not None:
        return E.mul(base, rng.randrange(1, ell)), ell          # another point of the same (prime) order
    m = H
    while m % ell == 0:
        m //= ell
    while True:
        P = _find_point1(rng) if which == 1 else find_point2(rng)
        T = E.mul(P, m * R)                 # in the ell-primary part; walk down to order exactly ell
        while T is not None and E.mul(T, ell) is not None:
            T = E.mul(T, ell)
        if T is not None:
            _SMALL_CACHE[(which, ell)] = T
            return T, ell


def sort_greater(which, y):
    """does the library call y the GREATER of the two roots y, -y?  Its sort rule compares the internal Montgomery forms (known finding C02:
    Fq::compare does not order by value - changing that would be a wire-format change), for Fq2 the u-coefficient first, then the other"""
    def m(v):
        return v % Q * RQ % Q
    if which == 1:
        return m(y) > m(-y)
    if y[1] % Q:
        return m(y[1]) > m(-y[1])
    return m(y[0]) > m(-y[0])


def fp_legendre(a, p):
    a %= p
    if a == 0:
        return 0
    return 1 if pow(a, (p - 1) // 2, p) == 1 else -1


# ---------------------------------------------------------------- Fq2
F2_ZERO = (0, 0)
F2_ONE = (1, 0)
XI = (1, 1)  # u + 1


def f2_add(a, b):
    return ((a[0] + b[0]) % Q, (a[1] + b[1]) % Q)


def f2_sub(a, b):
    return ((a[0] - b[0]) % Q, (a[1] - b[1]) % Q)


def f2_neg(a):
    return ((-a[0]) % Q, (-a[1]) % Q)


def f2_mul(a, b):
    return ((a[0] * b[0] - a[1] * b[1]) % Q, (a[0] * b[1] + a[1] * b[0]) % Q)


def f2_sqr(a):
    return f2_mul(a, a)


def f2_scalar(a, k):
    return (a[0] * k % Q, a[1] * k % Q)


def f2_conj(a):
    return (a[0], (-a[1]) % Q)


def f2_norm(a):
    return (a[0] * a[0] + a[1] * a[1]) % Q


def f2_inv(a):
    n = f2_norm(a)
    if n == 0:
        return (0, 0)
    ni = pow(n, -1, Q)
    return (a[0] * ni % Q, (-a[1]) * ni % Q)


def f2_pow(a, e):
    res = F2_ONE
    base = a
    while e:
        if e & 1:
            res = f2_mul(res, base)
        base = f2_mul(base, base)
        e >>= 1
    return res


def f2_is_zero(a):
    return a[0] % Q == 0 and a[1] % Q == 0


def f2_legendre(a):
    """Euler criterion in Fq2: a^((q^2-1)/2)"""
    if f2_is_zero(a):
        return 0
    t = f2_pow(a, (Q * Q - 1) // 2)
    if t == F2_ONE:
        return 1
    assert t == (Q - 1, 0), "Euler power is not +-1"
    return -1


def f2_legendre_fast(a):
    """a is a square in Fq2 iff norm(a) is a square in Fq (cross-checked in selftest)"""
    if f2_is_zero(a):
        return 0
    return fq_legendre(f2_norm(a))


def f2_sqrt(a):
    """some square root or None; the 'complex' method, independent of the library's"""
    if f2_is_zero(a):
        return (0, 0)
    a0, a1 = a
    if a1 == 0:
        s = fq_sqrt(a0)
        if s is not None:
            return (s, 0)
        s = fq_sqrt((-a0) % Q)
        return (0, s)  # (s u)^2 = -s^2 = a0
    n = f2_norm(a)
    d = fq_sqrt(n)
    if d is None:
        return None
    inv2 = pow(2, -1, Q)
    for dd in (d, (-d) % Q):
        t = (a0 + dd) * inv2 % Q
        x0 = fq_sqrt(t)
        if x0 is None or x0 == 0:
            continue
        x1 = a1 * pow(2 * x0, -1, Q) % Q
        cand = (x0, x1)
        if f2_sqr(cand) == (a0 % Q, a1 % Q):
            return cand
    return None


# ---------------------------------------------------------------- Fq6 (schoolbook)
F6_ZERO = (F2_ZERO, F2_ZERO, F2_ZERO)
F6_ONE = (F2_ONE, F2_ZERO, F2_ZERO)


def f6_add(a, b):
    return (f2_add(a[0], b[0]), f2_add(a[1], b[1]), f2_add(a[2], b[2]))


def f6_sub(a, b):
    return (f2_sub(a[0], b[0]), f2_sub(a[1], b[1]), f2_sub(a[2], b[2]))


def f6_neg(a):
    return (f2_neg(a[0]), f2_neg(a[1]), f2_neg(a[2]))


def f6_mul(a, b):
    # polynomial product in v, then v^3 = xi
    p = [F2_ZERO] * 5
    for i in range(3):
        for j in range(3):
            p[i + j] = f2_add(p[i + j], f2_mul(a[i], b[j]))
    c0 = f2_add(p[0], f2_mul(XI, p[3]))
    c1 = f2_add(p[1], f2_mul(XI, p[4]))
    return (c0, c1, p[2])


def f6_mul_by_v(a):
    return (f2_mul(XI, a[2]), a[0], a[1])


def f6_is_zero(a):
    return all(f2_is_zero(c) for c in a)


# ---------------------------------------------------------------- Fq12 (schoolbook tower)
F12_ZERO = (F6_ZERO, F6_ZERO)
F12_ONE = (F6_ONE, F6_ZERO)


def f12_add(a, b):
    return (f6_add(a[0], b[0]), f6_add(a[1], b[1]))


def f12_sub(a, b):
    return (f6_sub(a[0], b[0]), f6_sub(a[1], b[1]))


def f12_neg(a):
    return (f6_neg(a[0]), f6_neg(a[1]))


def f12_mul_tower(a, b):
    c0 = f6_add(f6_mul(a[0], b[0]), f6_mul_by_v(f6_mul(a[1], b[1])))
    c1 = f6_add(f6_mul(a[0], b[1]), f6_mul(a[1], b[0]))
    return (c0, c1)


# ---------------------------------------------------------------- flat representation
def tower_to_flat(a):
    f = [0] * 12
    for k in range(2):
        for j in range(3):
            c = a[k][j]
            m = 2 * j + k
            f[m] = (c[0] - c[1]) % Q
            f[m + 6] = c[1] % Q
    return f


def flat_to_tower(f):
    out = []
    for k in range(2):
        cs = []
        for j in range(3):
            m = 2 * j + k
            cs.append(((f[m] + f[m + 6]) % Q, f[m + 6] % Q))
        out.append(tuple(cs))
    return tuple(out)


_S = 768
_SB = _S // 8
_MASKBYTES = 24 * _SB


def flat_mul(a, b):
    """Kronecker-substitution product in Fq[w]/(w^12 - 2w^6 + 2)."""
    A = int.from_bytes(b''.join(x.to_bytes(_SB, 'little') for x in a), 'little')
    B = int.from_bytes(b''.join(x.to_bytes(_SB, 'little') for x in b), 'little')
    P = (A * B).to_bytes(_MASKBYTES, 'little')
    c = [int.from_bytes(P[i * _SB:(i + 1) * _SB], 'little') for i in range(23)]
    for i in range(22, 11, -1):
        t = 2 * c[i]
        c[i - 6] += t
        c[i - 12] -= t
    return [x % Q for x in c[:12]]


def flat_mul_school(a, b):
    c = [0] * 23
    for i in range(12):
        ai = a[i]
        if ai:
            for j in range(12):
                c[i + j] += ai * b[j]
    for i in range(22, 11, -1):
        t = 2 * c[i]
        c[i - 6] += t
        c[i - 12] -= t
    return [x % Q for x in c[:12]]


FLAT_ONE = [1] + [0] * 11
FLAT_ZERO = [0] * 12


def flat_add(a, b):
    return [(x + y) % Q for x, y in zip(a, b)]


def flat_sub(a, b):
    return [(x - y) % Q for x, y in zip(a, b)]


def flat_neg(a):
    return [(-x) % Q for x in a]


def flat_scalar(a, k):
    return [x * k % Q for x in a]


def flat_pow(a, e):
    if e < 0:
        return flat_pow(flat_inv(a), -e)
    res = FLAT_ONE
    # left-to-right
    for bit in bin(e)[2:] if e else '':
        res = flat_mul(res, res)
        if bit == '1':
            res = flat_mul(res, a)
    return res


def flat_eq(a, b):
    return all((x - y) % Q == 0 for x, y in zip(a, b))


def f12_mul(a, b):
    return flat_to_tower(flat_mul(tower_to_flat(a), tower_to_flat(b)))


# Frobenius by definition: images of w under x -> x^(q^k), computed once by generic powering
_FROB_W = {}


def _frob_w_powers(k):
    k %= 12
    if k not in _FROB_W:
        w = [0, 1] + [0] * 10
        wk = flat_pow(w, Q ** k) if k else w
        pows = [FLAT_ONE]
        for _ in range(11):
            pows.append(flat_mul(pows[-1], wk))
        _FROB_W[k] = pows
    return _FROB_W[k]


def flat_frobenius(a, k):
    pows = _frob_w_powers(k)
    out = [0] * 12
    for i in range(12):
        ai = a[i]
        if ai:
            pi = pows[i]
            for j in range(12):
                out[j] += ai * pi[j]
    return [x % Q for x in out]


def flat_conj6(a):
    """x -> x^(q^6): w -> -w (checked in selftest against the definition)"""
    return [(x if i % 2 == 0 else (-x) % Q) for i, x in enumerate(a)]


def flat_inv(a):
    """inverse via a^(q^12-2) is too slow; use norm down to Fq6 then linear algebra-free tower inversion.
    Self-checked: caller may verify a*inv == 1."""
    t = flat_to_tower(a)
    return tower_to_flat(f12_inv(t))


def f6_inv(a):
    # standard formula, verified multiplicatively by callers/selftest
    c0, c1, c2 = a
    t0 = f2_sub(f2_sqr(c0), f2_mul(XI, f2_mul(c1, c2)))
    t1 = f2_sub(f2_mul(XI, f2_sqr(c2)), f2_mul(c0, c1))
    t2 = f2_sub(f2_sqr(c1), f2_mul(c0, c2))
    n = f2_add(f2_mul(c0, t0), f2_mul(XI, f2_add(f2_mul(c2, t1), f2_mul(c1, t2))))
    ni = f2_inv(n)
    return (f2_mul(t0, ni), f2_mul(t1, ni), f2_mul(t2, ni))


def f6_pow(a, e):
    r = F6_ONE
    for b in bin(e)[2:]:
        r = f6_mul(r, r)
        if b == '1':
            r = f6_mul(r, a)
    return r


_F6_TS = {}


def f6_sqrt(a):
    """a square root in Fq6 or None (Tonelli-Shanks; q^6 - 1 = 2^3 * odd).  Verified by squaring before returning."""
    if f6_is_zero(a):
        return F6_ZERO
    n = Q ** 6 - 1
    s, t = 0, n
    while t % 2 == 0:
        s, t = s + 1, t // 2
    if 'c' not in _F6_TS:
        z = ((1, 1), (1, 0), (0, 0))
        k = 1
        while f6_pow(z, n // 2) == F6_ONE:
            k += 1
            z = ((k, 1), (1, k), (0, 1))
        _F6_TS['c'] = f6_pow(z, t)
    c = _F6_TS['c']
    x = f6_pow(a, (t + 1) // 2)
    b = f6_pow(a, t)
    m = s
    while b != F6_ONE:
        i, bb = 0, b
        while bb != F6_ONE:
            bb = f6_mul(bb, bb)
            i += 1
            if i == m:
                return None
        g = c
        for _ in range(m - i - 1):
            g = f6_mul(g, g)
        x = f6_mul(x, g)
        c = f6_mul(g, g)
        b = f6_mul(b, c)
        m = i
    return x if f6_mul(x, x) == tuple(a) else None


def f12_inv(a):
    c0, c1 = a
    n = f6_sub(f6_mul(c0, c0), f6_mul_by_v(f6_mul(c1, c1)))
    ni = f6_inv(n)
    return (f6_mul(c0, ni), f6_neg(f6_mul(c1, ni)))


# Frobenius on the lower tower levels, via embedding into Fq12 (definitional)
def f2_frobenius(a, k):
    return a if k % 2 == 0 else f2_conj(a)  # u^q = -u since q = 3 mod 4 (checked in selftest)


def f6_to_flat(a):
    return tower_to_flat((a, F6_ZERO))


def flat_to_f6(f):
    t = flat_to_tower(f)
    assert f6_is_zero(t[1])
    return t[0]


def f6_frobenius(a, k):
    return flat_to_f6(flat_frobenius(f6_to_flat(a), k))


def f12_frobenius(a, k):
    return flat_to_tower(flat_frobenius(tower_to_flat(a), k))


def f12_conj(a):
    return (a[0], f6_neg(a[1]))


# ---------------------------------------------------------------- curves
class _Fq:
    zero = 0
    one = 1
    @staticmethod
    def add(a, b): return (a + b) % Q
    @staticmethod
    def sub(a, b): return (a - b) % Q
    @staticmethod
    def mul(a, b): return a * b % Q
    @staticmethod
    def neg(a): return (-a) % Q
    @staticmethod
    def inv(a): return pow(a, -1, Q)
    @staticmethod
    def is_zero(a): return a % Q == 0
    @staticmethod
    def eq(a, b): return (a - b) % Q == 0
    @staticmethod
    def small(k): return k % Q


class _Fq2:
    zero = F2_ZERO
    one = F2_ONE
    add = staticmethod(f2_add)
    sub = staticmethod(f2_sub)
    mul = staticmethod(f2_mul)
    neg = staticmethod(f2_neg)
    inv = staticmethod(f2_inv)
    is_zero = staticmethod(f2_is_zero)
    @staticmethod
    def eq(a, b): return f2_is_zero(f2_sub(a, b))
    @staticmethod
    def small(k): return (k % Q, 0)


class _Flat:
    zero = FLAT_ZERO
    one = FLAT_ONE
    add = staticmethod(flat_add)
    sub = staticmethod(flat_sub)
    mul = staticmethod(flat_mul)
    neg = staticmethod(flat_neg)
    inv = staticmethod(flat_inv)
    @staticmethod
    def is_zero(a): return all(x % Q == 0 for x in a)
    eq = staticmethod(flat_eq)
    @staticmethod
    def small(k): return [k % Q] + [0] * 11


class Curve:
    """y^2 = x^3 + b over field F, affine chord-and-tangent with explicit cases."""

    def __init__(self, F, b):
        self.F = F
        self.b = b

    def on_curve(self, P):
        if P is None:
            return True
        F = self.F
        x, y = P
        return F.eq(F.mul(y, y), F.add(F.mul(F.mul(x, x), x), self.b))

    def neg(self, P):
        if P is None:
            return None
        return (P[0], self.F.neg(P[1]))

    def eq(self, P, S):
        if P is None or S is None:
            return P is None and S is None
        return self.F.eq(P[0], S[0]) and self.F.eq(P[1], S[1])

    def add(self, P, S):
        F = self.F
        if P is None:
            return S
        if S is None:
            return P
        x1, y1 = P
        x2, y2 = S
        if F.eq(x1, x2):
            if F.eq(y1, y2):
                return self.dbl(P)
            return None  # opposite points (y1 = -y2 because both on curve)
        lam = F.mul(F.sub(y2, y1), F.inv(F.sub(x2, x1)))
        x3 = F.sub(F.sub(F.mul(lam, lam), x1), x2)
        y3 = F.sub(F.mul(lam, F.sub(x1, x3)), y1)
        return (x3, y3)

    def dbl(self, P):
        F = self.F
        if P is None:
            return None
        x1, y1 = P
        if F.is_zero(y1):
            return None
        lam = F.mul(F.mul(F.small(3), F.mul(x1, x1)), F.inv(F.add(y1, y1)))
        x3 = F.sub(F.mul(lam, lam), F.add(x1, x1))
        y3 = F.sub(F.mul(lam, F.sub(x1, x3)), y1)
        return (x3, y3)

    def mul(self, P, k):
        if k < 0:
            return self.mul(self.neg(P), -k)
        res = None
        for bit in bin(k)[2:] if k else '':
            res = self.dbl(res)
            if bit == '1':
                res = self.add(res, P)
        return res


E1 = Curve(_Fq, 4)
E2 = Curve(_Fq2, f2_scalar(XI, 4))
E12 = Curve(_Flat, [4] + [0] * 11)


def g1_in_subgroup(P):
    return E1.on_curve(P) and E1.mul(P, R) is None


def g2_in_subgroup(P):
    return E2.on_curve(P) and E2.mul(P, R) is None


# Jacobian decoding: (X, Y, Z) -> affine (X/Z^2, Y/Z^3); Z == 0 -> identity
def jac_to_affine(F, X, Y, Z):
    if F.is_zero(Z):
        return None
    zi = F.inv(Z)
    zi2 = F.mul(zi, zi)
    return (F.mul(X, zi2), F.mul(Y, F.mul(zi2, zi)))


# ---------------------------------------------------------------- pairing (definitional)
def _embed_fq(a):
    return [a % Q] + [0] * 11


def _embed_fq2(a):
    # a0 + a1 u with u = w^6 - 1
    f = [0] * 12
    f[0] = (a[0] - a[1]) % Q
    f[6] = a[1] % Q
    return f


_W = [0, 1] + [0] * 10
_W2_INV = None
_W3_INV = None


def untwist(Qp):
    """E'(Fq2) -> E(Fq12): (x, y) -> (x / w^2, y / w^3)"""
    global _W2_INV, _W3_INV
    if Qp is None:
        return None
    if _W2_INV is None:
        w2 = flat_mul(_W, _W)
        w3 = flat_mul(w2, _W)
        _W2_INV = flat_inv(w2)
        _W3_INV = flat_inv(w3)
        assert flat_eq(flat_mul(_W2_INV, w2), FLAT_ONE) and flat_eq(flat_mul(_W3_INV, w3), FLAT_ONE)
    return (flat_mul(_embed_fq2(Qp[0]), _W2_INV), flat_mul(_embed_fq2(Qp[1]), _W3_INV))


def _line(T, S, P):
    """value at P of the line through T and S (tangent if T == S); vertical lines return x_P - x_T."""
    F = _Flat
    xt, yt = T
    xs, ys = S
    xp, yp = P
    if flat_eq(xt, xs):
        if flat_eq(yt, ys) and not F.is_zero(yt):
            lam = flat_mul(flat_scalar(flat_mul(xt, xt), 3), flat_inv(flat_add(yt, yt)))
        else:
            return flat_sub(xp, xt)
    else:
        lam = flat_mul(flat_sub(ys, yt), flat_inv(flat_sub(xs, xt)))
    return flat_sub(flat_sub(yp, yt), flat_mul(lam, flat_sub(xp, xt)))


def miller(P, Qp):
    """f_{|x|, psi(Q)}(P) with textbook affine steps over Fq12; P in E(Fq), Qp in E'(Fq2)."""
    if P is None or Qp is None:
        return FLAT_ONE
    Pe = (_embed_fq(P[0]), _embed_fq(P[1]))
    Qe = untwist(Qp)
    assert E12.on_curve(Qe) and E12.on_curve(Pe)
    T = Qe
    f = FLAT_ONE
    for bit in bin(XA)[3:]:
        f = flat_mul(flat_mul(f, f), _line(T, T, Pe))
        T = E12.dbl(T)
        if bit == '1':
            f = flat_mul(f, _line(T, Qe, Pe))
            T = E12.add(T, Qe)
    return f


FINAL_EXP = 3 * ((Q ** 12 - 1) // R)
assert (Q ** 12 - 1) % R == 0


def pairing_def(P, Qp):
    """library-convention value: (f_{|x|,Q}(P))^(-3 (q^12-1)/r), flat representation"""
    if P is None or Qp is None:
        return FLAT_ONE
    f = miller(P, Qp)
    g = flat_pow(f, FINAL_EXP)
    gi = flat_conj6(g)  # unitary after the easy part: inverse = conjugate
    assert flat_eq(flat_mul(g, gi), FLAT_ONE)
    return gi


_E0 = None


def e0():
    global _E0
    if _E0 is None:
        _E0 = pairing_def(G1_GEN, G2_GEN)
    return _E0


def gt_pow(a, k):
    return flat_pow(a, k % R)


def pairing_dlog(a, b):
    """e([a]G1, [b]G2) by discrete-log bookkeeping"""
    return flat_pow(e0(), (a * b) % R)


# ---------------------------------------------------------------- selftest
def selftest(rng, heavy=False):
    import random
    rnd = rng or random.Random(1)
    # generators
    assert E1.on_curve(G1_GEN) and E2.on_curve(G2_GEN)
    assert E1.mul(G1_GEN, R) is None and E2.mul(G2_GEN, R) is None
    # u^q = -u, conj6
    assert pow(Q, 1, 4) == 3
    # tower vs flat agreement + field axioms
    def rf12():
        return [rnd.randrange(Q) for _ in range(12)]
    for _ in range(3):
        a, b, c = rf12(), rf12(), rf12()
        ab = flat_mul(a, b)
        assert ab == flat_mul_school(a, b)
        assert tower_to_flat(f12_mul_tower(flat_to_tower(a), flat_to_tower(b))) == ab
        assert flat_mul(ab, c) == flat_mul(a, flat_mul(b, c))
        assert flat_mul(a, flat_add(b, c)) == flat_add(ab, flat_mul(a, c))
        assert flat_eq(flat_mul(a, flat_inv(a)), FLAT_ONE)
        assert tower_to_flat(flat_to_tower(a)) == a
    a = rf12()
    assert flat_conj6(a) == flat_frobenius(a, 6)
    if heavy:
        assert flat_frobenius(a, 1) == flat_pow(a, Q)
    x2 = (rnd.randrange(Q), rnd.randrange(Q))
    assert f2_pow(x2, Q) == f2_conj(x2)
    assert f2_legendre(x2) == f2_legendre_fast(x2)
    s = f2_sqrt(f2_sqr(x2))
    assert s is not None and f2_sqr(s) == f2_sqr(x2)
    # cofactors
    assert E1.mul(E1.mul(_find_point1(rnd), H1), R) is None
    # pairing
    E0 = e0()
    assert not flat_eq(E0, FLAT_ONE)
    assert flat_eq(flat_pow(E0, R), FLAT_ONE)
    if heavy:
        a_, b_ = rnd.randrange(R), rnd.randrange(R)
        lhs = pairing_def(E1.mul(G1_GEN, a_), E2.mul(G2_GEN, b_))
        assert flat_eq(lhs, pairing_dlog(a_, b_))
    return True


def _find_point1(rnd):
    while True:
        x = rnd.randrange(Q)
        y = fq_sqrt((x * x * x + 4) % Q)
        if y is not None:
            return (x, y)


def find_point2(rnd):
    while True:
        x = (rnd.randrange(Q), rnd.randrange(Q))
        y = f2_sqrt(f2_add(f2_mul(f2_sqr(x), x), E2.b))
        if y is not None:
            return (x, y)


find_point1 = _find_point1

if __name__ == '__main__':
    import random, time, sys
    t = time.time()
    selftest(random.Random(7), heavy='--heavy' in sys.argv)
    print('oracle selftest ok', round(time.time() - t, 2), 's')
