"""Source-level interpreter for the ARMv6-M (Thumb-1) routines in src/core/arch/armv6_m/*.s.

llvm-mc cannot assemble these files (pre-UAL "divided" syntax) and the image has no GNU ARM binutils and no emulator, so the
*source text* is executed: GNU-as macros are expanded (.macro/.endm, \\arg substitution, integer expressions), and the Thumb-1
instructions that occur are interpreted with ARMv6-M semantics on 32-bit registers and a flat byte memory.  In divided syntax
the 16-bit data-processing instructions on low registers set the flags (ADD/ADC/SUB/SBC/EOR/LSL/LSR/MUL/NEG); operations that
involve a high register (MOV/ADD with r8-r12, sp, lr) do not.

One encoding is genuinely ambiguous without the assembler: `mov Rd, Rm` with two LOW registers (flag-preserving MOV, LSLS #0
which sets N,Z only, or ADDS #0 which also clears C and V).  The interpreter therefore takes a `mov_mode` and the caller runs every
vector under all three; the results must be identical, i.e. the shipped code must not depend on that choice (if it did, the run is
reported as inconclusive rather than guessed).

Anything not covered raises Unsupported (inconclusive, never a pass).
"""
import os
import re

M32 = 0xffffffff


class Unsupported(Exception):
    pass


def _eval(expr):
    expr = expr.strip()
    if not re.match(r'^[0-9a-fA-Fx+\-*() ]+$', expr):
        raise Unsupported('expression %r' % expr)
    return int(eval(expr, {'__builtins__': {}}, {}))


def load_source(path):
    """returns (macros, lines) with comments stripped"""
    macros = {}
    body = []
    cur = None
    for raw in open(path):
        line = raw.split('@')[0].split('//')[0].rstrip()
        if not line.strip():
            continue
        s = line.strip()
        if s.startswith('.macro'):
            parts = s[len('.macro'):].replace(',', ' ').split()
            cur = (parts[0], parts[1:], [])
            continue
        if s == '.endm':
            macros[cur[0]] = (cur[1], cur[2])
            cur = None
            continue
        if cur is not None:
            cur[2].append(s)
        else:
            body.append(s)
    return macros, body


def expand(macros, lines, depth=0):
    if depth > 20:
        raise Unsupported('macro recursion')
    out = []
    for s in lines:
        m = re.match(r'^([A-Za-z_][A-Za-z0-9_]*)\s*(.*)$', s)
        if m and m.group(1) in macros:
            params, mbody = macros[m.group(1)]
            args = [a.strip() for a in m.group(2).split(',')] if m.group(2).strip() else []
            if len(args) != len(params):
                raise Unsupported('macro %s called with %d args, takes %d' % (m.group(1), len(args), len(params)))
            sub = []
            for b in mbody:
                t = b
                # longest parameter names first so that \\i does not clobber \\idx
                for pn, av in sorted(zip(params, args), key=lambda x: -len(x[0])):
                    t = t.replace('\\' + pn, av)
                sub.append(t)
            out.extend(expand(macros, sub, depth + 1))
        else:
            out.append(s)
    return out


REGS = {'r%d' % i: i for i in range(16)}
REGS.update({'sp': 13, 'lr': 14, 'pc': 15, 'ip': 12})


def _reg(t):
    t = t.strip().lower()
    if t not in REGS:
        raise Unsupported('register %r' % t)
    return REGS[t]


def _reglist(t):
    t = t.strip()
    assert t.startswith('{') and t.endswith('}'), t
    regs = []
    for part in t[1:-1].split(','):
        part = part.strip()
        if '-' in part:
            a, b = part.split('-')
            regs.extend(range(_reg(a), _reg(b) + 1))
        else:
            regs.append(_reg(part))
    return sorted(regs)


class Program:
    """all routines of one source file, macro-expanded and decoded"""

    def __init__(self, path):
        self.path = path
        macros, body = load_source(path)
        lines = expand(macros, body)
        self.ins = []
        self.labels = {}
        for s in lines:
            if s.startswith('.'):
                continue            # .globl .type .text .thumb
            m = re.match(r'^([A-Za-z_][A-Za-z0-9_]*):\s*(.*)$', s)
            if m:
                self.labels[m.group(1)] = len(self.ins)
                s = m.group(2).strip()
                if not s:
                    continue
            self.ins.append(self._decode(s))
        self.mnemonics = sorted({i[0] for i in self.ins})

    def _decode(self, s):
        m = re.match(r'^(\w+)\s*(.*)$', s)
        mn, rest = m.group(1).lower(), m.group(2).strip()
        if mn in ('push', 'pop'):
            return (mn, _reglist(rest), s)
        if mn in ('ldm', 'stm', 'ldmia', 'stmia'):
            base, lst = rest.split(',', 1)
            wb = base.strip().endswith('!')
            return (mn[:3], _reg(base.strip().rstrip('!')), wb, _reglist(lst), s)
        if mn in ('ldr', 'str'):
            m2 = re.match(r'^(\w+)\s*,\s*\[\s*(\w+)\s*(?:,\s*#?(.+?))?\s*\]$', rest)
            if not m2:
                raise Unsupported(s)
            off = m2.group(3)
            if off is not None and off.strip().lower() in REGS:
                return (mn, _reg(m2.group(1)), _reg(m2.group(2)), ('reg', _reg(off)), s)
            return (mn, _reg(m2.group(1)), _reg(m2.group(2)), ('imm', _eval(off) if off is not None else 0), s)
        if mn in ('bl', 'b'):
            return (mn, rest, s)
        if re.match(r'^b(eq|ne|cs|hs|cc|lo|mi|pl|vs|vc|hi|ls|ge|lt|gt|le)$', mn):
            return ('bcond', mn[1:], rest, s)
        if mn == 'bx':
            return ('bx', _reg(rest), s)
        ops = [x.strip() for x in rest.split(',')]
        if mn in ('add', 'adc', 'sub', 'sbc', 'eor', 'and', 'orr', 'mul', 'lsl', 'lsr', 'asr', 'ror', 'bic'):
            if len(ops) == 2:
                ops = [ops[0], ops[0], ops[1]]
            if len(ops) != 3:
                raise Unsupported(s)
            last = ('imm', _eval(ops[2][1:])) if ops[2].startswith('#') else ('reg', _reg(ops[2]))
            return (mn, _reg(ops[0]), _reg(ops[1]), last, s)
        if mn in ('mov', 'neg', 'uxth', 'mvn', 'cmp', 'cmn', 'tst', 'uxtb', 'sxth', 'sxtb', 'rev'):
            if len(ops) != 2:
                raise Unsupported(s)
            src = ('imm', _eval(ops[1][1:])) if ops[1].startswith('#') else ('reg', _reg(ops[1]))
            return (mn, _reg(ops[0]), src, s)
        raise Unsupported('mnemonic %r in %r' % (mn, s))


class Machine:
    STACK_TOP = 0x80000
    RETURN = 0xfffffff0

    def __init__(self):
        self.mem = {}
        self.externs = {}       # name -> python function(machine, regs)

    def map(self, addr, n):
        for i in range(n):
            self.mem.setdefault(addr + i, 0)

    def write(self, addr, data):
        for i, b in enumerate(data):
            self.mem[addr + i] = b

    def read(self, addr, n):
        try:
            return bytes(self.mem[addr + i] for i in range(n))
        except KeyError:
            raise MemoryError('read of unmapped address %x' % addr)

    def r32(self, addr):
        if addr & 3:
            raise MemoryError('misaligned word access at %x' % addr)
        return int.from_bytes(self.read(addr, 4), 'little')

    def w32(self, addr, v):
        if addr & 3:
            raise MemoryError('misaligned word access at %x' % addr)
        if addr not in self.mem or addr + 3 not in self.mem:
            raise MemoryError('write to unmapped address %x' % addr)
        self.write(addr, (v & M32).to_bytes(4, 'little'))

    def call(self, prog, name, args, mov_mode=0, max_steps=200000):
        r = [0] * 16
        self.map(self.STACK_TOP, 64)
        for i, a in enumerate(args):
            if i < 4:
                r[i] = a & M32
            else:
                self.w32(self.STACK_TOP + 4 * (i - 4), a)      # AAPCS: fifth and later arguments on the stack
        for i in range(4, 12):
            r[i] = 0xC5000000 | i
        r[13] = self.STACK_TOP
        r[14] = self.RETURN
        self.map(self.STACK_TOP - 1024, 1024)
        N = Z = C = V = 0
        pc = prog.labels[name]
        steps = 0
        executed = set()
        lowmov = 0
        while True:
            steps += 1
            if steps > max_steps:
                raise Unsupported('step limit')
            if pc >= len(prog.ins):
                raise Unsupported('fell off the code')
            ins = prog.ins[pc]
            executed.add(pc)
            op = ins[0]
            npc = pc + 1

            def setnz(v):
                nonlocal N, Z
                N = (v >> 31) & 1
                Z = 1 if (v & M32) == 0 else 0
            if op in ('add', 'adc', 'sub', 'sbc'):
                d, n, last = ins[1], ins[2], ins[3]
                b = last[1] if last[0] == 'imm' else r[last[1]]
                a = r[n]
                high = d > 7 or n > 7 or (last[0] == 'reg' and last[1] > 7)
                if op in ('add', 'adc'):
                    s = a + b + (C if op == 'adc' else 0)
                    res = s & M32
                    if not high:
                        C = 1 if s > M32 else 0
                        V = 1 if (~(a ^ b) & (a ^ res)) >> 31 & 1 else 0
                        setnz(res)
                    elif op == 'adc':
                        raise Unsupported('adc with high register')
                else:
                    s = a - b - ((1 - C) if op == 'sbc' else 0)
                    res = s & M32
                    if not high:
                        C = 1 if s >= 0 else 0
                        V = 1 if ((a ^ b) & (a ^ res)) >> 31 & 1 else 0
                        setnz(res)
                    elif op == 'sbc':
                        raise Unsupported('sbc with high register')
                r[d] = res
            elif op in ('eor', 'and', 'orr', 'bic'):
                d, n, last = ins[1], ins[2], ins[3]
                b = last[1] if last[0] == 'imm' else r[last[1]]
                res = {'eor': r[n] ^ b, 'and': r[n] & b, 'orr': r[n] | b, 'bic': r[n] & ~b}[op] & M32
                r[d] = res
                setnz(res)
            elif op == 'mul':
                d, n, last = ins[1], ins[2], ins[3]
                res = (r[n] * r[last[1]]) & M32
                r[d] = res
                setnz(res)
            elif op in ('lsl', 'lsr', 'asr', 'ror'):
                d, n, last = ins[1], ins[2], ins[3]
                sh = last[1] if last[0] == 'imm' else (r[last[1]] & 0xff)
                v = r[n]
                if sh == 0:
                    res = v
                elif op == 'asr':
                    sv = v - (1 << 32) if v >> 31 else v
                    res = (sv >> min(sh, 31)) & M32 if sh < 32 else (M32 if v >> 31 else 0)
                    C = (sv >> (min(sh, 32) - 1)) & 1
                elif op == 'ror':
                    k = sh % 32
                    res = ((v >> k) | (v << (32 - k))) & M32 if k else v
                    C = res >> 31
                elif op == 'lsl':
                    res = (v << sh) & M32 if sh < 32 else 0
                    C = (v >> (32 - sh)) & 1 if sh <= 32 else 0
                else:
                    res = (v >> sh) if sh < 32 else 0
                    C = (v >> (sh - 1)) & 1 if sh <= 32 else 0
                r[d] = res
                setnz(res)
            elif op == 'mov':
                d, src = ins[1], ins[2]
                v = src[1] if src[0] == 'imm' else r[src[1]]
                r[d] = v & M32
                if src[0] == 'imm':
                    setnz(v)
                elif d <= 7 and src[1] <= 7:
                    lowmov += 1
                    if mov_mode == 1:        # LSLS Rd, Rm, #0
                        setnz(v)
                    elif mov_mode == 2:      # ADDS Rd, Rm, #0
                        setnz(v)
                        C = 0
                        V = 0
            elif op == 'neg':
                d, src = ins[1], ins[2]
                v = r[src[1]]
                s = 0 - v
                res = s & M32
                C = 1 if s >= 0 else 0
                V = 1 if (v & res) >> 31 & 1 else 0
                r[d] = res
                setnz(res)
            elif op == 'mvn':
                d, src = ins[1], ins[2]
                res = (~r[src[1]]) & M32
                r[d] = res
                setnz(res)
            elif op == 'uxth':
                d, src = ins[1], ins[2]
                r[d] = r[src[1]] & 0xffff
            elif op == 'uxtb':
                r[ins[1]] = r[ins[2][1]] & 0xff
            elif op == 'sxth':
                v = r[ins[2][1]] & 0xffff
                r[ins[1]] = (v - 0x10000 if v & 0x8000 else v) & M32
            elif op == 'sxtb':
                v = r[ins[2][1]] & 0xff
                r[ins[1]] = (v - 0x100 if v & 0x80 else v) & M32
            elif op == 'rev':
                r[ins[1]] = int.from_bytes((r[ins[2][1]] & M32).to_bytes(4, 'little'), 'big')
            elif op == 'tst':
                b = ins[2][1] if ins[2][0] == 'imm' else r[ins[2][1]]
                setnz(r[ins[1]] & b)
            elif op == 'cmn':
                a = r[ins[1]]
                b = ins[2][1] if ins[2][0] == 'imm' else r[ins[2][1]]
                s2 = a + b
                res = s2 & M32
                C = 1 if s2 > M32 else 0
                V = 1 if (~(a ^ b) & (a ^ res)) >> 31 & 1 else 0
                setnz(res)
            elif op == 'b':
                if ins[1] not in prog.labels:
                    raise Unsupported('branch to unknown label ' + ins[1])
                npc = prog.labels[ins[1]]
            elif op == 'bcond':
                cc = ins[1]
                take = {'eq': Z == 1, 'ne': Z == 0, 'cs': C == 1, 'hs': C == 1, 'cc': C == 0, 'lo': C == 0, 'mi': N == 1, 'pl': N == 0, 'vs': V == 1, 'vc': V == 0,
                        'hi': C == 1 and Z == 0, 'ls': C == 0 or Z == 1, 'ge': N == V, 'lt': N != V, 'gt': Z == 0 and N == V, 'le': Z == 1 or N != V}[cc]
                if take:
                    if ins[2] not in prog.labels:
                        raise Unsupported('branch to unknown label ' + ins[2])
                    npc = prog.labels[ins[2]]
            elif op == 'cmp':
                a = r[ins[1]]
                b = ins[2][1] if ins[2][0] == 'imm' else r[ins[2][1]]
                s = a - b
                res = s & M32
                C = 1 if s >= 0 else 0
                V = 1 if ((a ^ b) & (a ^ res)) >> 31 & 1 else 0
                setnz(res)
            elif op in ('ldr', 'str'):
                t, base, off = ins[1], ins[2], ins[3]
                addr = (r[base] + (off[1] if off[0] == 'imm' else r[off[1]])) & M32
                if op == 'ldr':
                    r[t] = self.r32(addr)
                else:
                    self.w32(addr, r[t])
            elif op in ('ldm', 'stm'):
                base, wb, regs = ins[1], ins[2], ins[3]
                addr = r[base]
                for rg in regs:
                    if op == 'ldm':
                        r[rg] = self.r32(addr)
                    else:
                        self.w32(addr, r[rg])
                    addr += 4
                if wb and not (op == 'ldm' and base in regs):
                    r[base] = addr & M32
            elif op == 'push':
                regs = ins[1]
                addr = r[13] - 4 * len(regs)
                r[13] = addr
                for rg in regs:
                    self.w32(addr, r[rg])
                    addr += 4
            elif op == 'pop':
                regs = ins[1]
                addr = r[13]
                newpc = None
                for rg in regs:
                    v = self.r32(addr)
                    if rg == 15:
                        newpc = v
                    else:
                        r[rg] = v
                    addr += 4
                r[13] = addr
                if newpc is not None:
                    if newpc == self.RETURN:
                        break
                    raise Unsupported('pop {pc} to %x' % newpc)
            elif op == 'bl':
                target = ins[1]
                if target in prog.labels:
                    raise Unsupported('bl to an internal label is not modelled: ' + target)
                if target not in self.externs:
                    raise Unsupported('call of unknown external ' + target)
                self.externs[target](self, r)
                # AAPCS: r0-r3, r12, lr and the flags are caller-saved; make any dependence on them visible
                r[1] = r[2] = r[3] = r[12] = 0xDEADBEEF
                N = Z = C = V = 0
            elif op == 'bx':
                if r[ins[1]] == self.RETURN:
                    break
                raise Unsupported('bx to %x' % r[ins[1]])
            else:
                raise Unsupported(op)
            pc = npc
        for i in range(4, 12):
            if r[i] != (0xC5000000 | i):
                raise CalleeSaved('r%d not restored by %s' % (i, name))
        if r[13] != self.STACK_TOP:
            raise CalleeSaved('sp not restored by %s' % name)
        return r[0], executed, lowmov


class CalleeSaved(Exception):
    pass


def selftest():
    import tempfile
    src = """
.macro addpair dst, src0, src1
    ldm \\src0!, {r3, r4}
    ldm \\src1!, {r5, r6}
    adc r3, r3, r5
    adc r4, r4, r6
    stm \\dst!, {r3, r4}
.endm
t_add:
    push {r4, r5, r6}
    ldm r1!, {r3, r4}
    ldm r2!, {r5, r6}
    add r3, r3, r5
    adc r4, r4, r6
    stm r0!, {r3, r4}
    addpair r0, r1, r2
    eor r0, r0, r0
    adc r0, r0, r0
    pop {r4, r5, r6}
    bx lr
t_sub:
    sub r0, r0, r1
    sbc r2, r2, r2
    neg r0, r2
    bx lr
t_max:
    cmp r0, r1
    bhs t_max_done
    mov r0, r1
t_max_done:
    bx lr
t_sgn:
    asr r0, r0, #31
    bic r1, r1, r0
    add r0, r0, r1
    bx lr
t_loop:
    mov r2, #0
t_loop_top:
    add r2, r2, r0
    sub r1, r1, #1
    bne t_loop_top
    mov r0, r2
    bx lr
t_mul:
    mul r0, r0, r1
    lsr r1, r0, #16
    uxth r0, r0
    lsl r0, r0, #4
    add r0, r0, r1
    bx lr
"""
    f = tempfile.NamedTemporaryFile('w', suffix='.s', delete=False)
    f.write(src)
    f.close()
    p = Program(f.name)
    os.unlink(f.name)
    m = Machine()
    m.map(0x1000, 64)
    m.map(0x2000, 64)
    m.map(0x3000, 64)
    a, b = 0xfffffffffffffffffffffffffffffff0, 0x20
    m.write(0x2000, a.to_bytes(16, 'little'))
    m.write(0x3000, b.to_bytes(16, 'little'))
    r0, _, _ = m.call(p, 't_add', [0x1000, 0x2000, 0x3000])
    assert int.from_bytes(m.read(0x1000, 16), 'little') == (a + b) % (1 << 128) and r0 == 1
    r0, _, _ = m.call(p, 't_sub', [1, 2, 0])
    assert r0 == 1                      # borrow: sbc r2,r2,r2 = -1, neg -> 1
    r0, _, _ = m.call(p, 't_sub', [2, 1, 0])
    assert r0 == 0
    assert m.call(p, 't_max', [5, 9])[0] == 9 and m.call(p, 't_max', [9, 5])[0] == 9 and m.call(p, 't_max', [0x80000000, 1])[0] == 0x80000000      # unsigned compare
    assert m.call(p, 't_sgn', [0x80000000, 0xff])[0] == M32 and m.call(p, 't_sgn', [5, 0xff])[0] == 0xff            # asr fills with the sign, bic clears
    assert m.call(p, 't_loop', [7, 6])[0] == 42                                                                     # backward conditional branch
    r0, _, _ = m.call(p, 't_mul', [0x12345, 0x10])
    v = (0x12345 * 0x10) & M32
    assert r0 == (((v & 0xffff) << 4) + (v >> 16)) & M32
    return True


if __name__ == '__main__':
    selftest()
    print('thumb interpreter selftest ok')
