"""C08 - prepared and multi-pairing forms agree with the product of single pairings."""
import itertools
import random

import session
import codec as C
import gtlib
import points
from oracle import bls as O
from c06 import GenTable

R = O.R
NUM_COEFFS = 68


def worker(sh):
    rng = sh.rng
    gc1, gc2 = points.GroupCtx(1), points.GroupCtx(2)
    t1, t2 = GenTable(gc1), GenTable(gc2)
    # small pools of subgroup points with known logs
    la = [1, 2, R - 1] + [rng.randrange(1, R) for _ in range(4)]
    lb = [1, 3, R - 1] + [rng.randrange(1, R) for _ in range(4)]
    P = {a: t1.mul(a) for a in la}
    Qs = {b: t2.mul(b) for b in lb}
    P[0] = None
    Qs[0] = None
    lines, meta = [], []

    def emit(shape, repeat=1):
        """shape: list of (kind 'a'|'p', ptype 'n'|'P0'|'Q0'|'PQ0'[, share]) ; share = the pair points at the same G2 object as the previous
        pair of its kind"""
        toks = []
        total = 0
        desc = []
        lastb = {}
        for ent in shape:
            kind, pt = ent[0], ent[1]
            share = len(ent) > 2 and ent[2] and kind in lastb
            a = 0 if pt in ('P0', 'PQ0') else rng.choice(la)
            b = lastb[kind] if share else (0 if pt in ('Q0', 'PQ0') else rng.choice(lb))
            lastb[kind] = b
            toks += [kind.upper() if share else kind, gc1.aff(P[a], rng, True), gc2.aff(Qs[b], rng, True)]
            total += a * b
            desc.append((kind, a % R == 0, b % R == 0))
        lines.append('c.pairing_sum %d %d %s' % (repeat, len(shape), ' '.join(toks)) if shape else 'c.pairing_sum %d 0' % repeat)
        meta.append((shape, total % R, desc, repeat))

    kinds = [('a', 'n'), ('a', 'P0'), ('a', 'Q0'), ('p', 'n'), ('p', 'P0'), ('p', 'Q0')]
    # exhaustive shapes, distributed over the shards
    maxn = 4 if sh.quick else 5
    all_shapes = [()]
    for n in range(1, maxn + 1):
        all_shapes += list(itertools.product(kinds, repeat=n))
    mine = all_shapes[sh.index::sh.nshards]
    for shp in mine:
        emit(list(shp), repeat=2 if rng.random() < 0.3 else 1)
    sh.count('exhaustive_shapes_total', len(mine))
    # pairs SHARING one G2 object (same pointer) with their predecessor, with identity G1 members in between: every sharing pattern over
    # lists of length <= 4 of one kind, preceded by a pair on a different Q
    share_shapes = []
    for kd in ('a', 'p'):
        for n in (2, 3, 4):
            for pts in itertools.product(('n', 'P0'), repeat=n):
                for sh_ in itertools.product((False, True), repeat=n - 1):
                    if any(sh_):
                        share_shapes.append([(kd, 'n')] + [(kd, pts[0])] + [(kd, pts[i + 1], sh_[i]) for i in range(n - 1)])
    for shp in share_shapes[sh.index::sh.nshards]:
        emit(shp, repeat=1)
    # random longer lists, both-identity pairs
    for _ in range(sh.pick(4, 400)):
        n = rng.randrange(6, 13)
        emit([rng.choice(kinds + [('a', 'PQ0'), ('p', 'PQ0')]) for _ in range(n)], repeat=rng.choice([1, 2]))
    # long lists: list lengths at and around every width a per-list counter or bit mask could have (affine and prepared lists are
    # counted separately by the routine, so each composition is driven on its own and both together)
    longn = [31, 32, 33, 34, 63, 64, 65, 255, 256, 257] if sh.quick else [31, 32, 33, 34, 63, 64, 65, 66, 127, 128, 129, 255, 256, 257, 300]
    comps = [('a',), ('p',), ('a', 'p')]
    jobs = [(n, cp) for n in longn for cp in comps]
    for n, cp in jobs[sh.index::sh.nshards]:
        shape = []
        for kd in cp:
            shape += [(kd, 'n')] * n
        # a few identity members, never at the very end (the tail members are the ones a narrow counter would drop)
        for _ in range(rng.randrange(0, 3)):
            j = rng.randrange(0, len(shape) - 2)
            shape[j] = (shape[j][0], rng.choice(['P0', 'Q0']))
        emit(shape, repeat=1)
    # one prepared object prepared twice: from a point RELATED to Q (Q itself, -Q, the two endomorphism images (beta x, y) that share
    # y with Q, the identity, an unrelated point) and then from Q - it must equal a freshly prepared object and pair like it
    beta = next(pow(g0, (O.Q - 1) // 3, O.Q) for g0 in range(2, 50) if pow(g0, (O.Q - 1) // 3, O.Q) != 1)
    reuse = []
    for _ in range(sh.pick(2, 30)):
        a, b = rng.choice(la), rng.choice(lb)
        Qp = Qs[b]
        x, y = Qp
        rel = [('same', Qp), ('negated', gc2.E.neg(Qp)), ('beta*x', ((x[0] * beta % O.Q, x[1] * beta % O.Q), y)), ('beta^2*x', ((x[0] * beta * beta % O.Q, x[1] * beta * beta % O.Q), y)),
               ('identity', None), ('unrelated', Qs[rng.choice([k for k in lb if k != b])]), ('same-x-other-curve', (x, (y[1], y[0])))]
        for tag, prev in rel:
            reuse.append((tag, a, b))
            lines.append('c.prepare_reuse %s %s %s' % (gc2.aff(prev, rng, True), gc2.aff(Qp), gc1.aff(P[a])))
            meta.append(('reuse', tag, a, b))
        # and towards the identity
        lines.append('c.prepare_reuse %s %s %s' % (gc2.aff(Qp), gc2.aff(None, rng, True), gc1.aff(P[a])))
        meta.append(('reuse', 'point-then-identity', a, 0))
    # prepared == plain on single pairs incl. identities (separate entry point)
    single = []
    for _ in range(sh.pick(6, 400)):
        a = rng.choice(la + [0])
        b = rng.choice(lb + [0])
        single.append((a, b))
        lines.append('c.prepared_pairing %s %s' % (gc1.aff(P[a], rng, True), gc2.aff(Qs[b], rng, True)))
        meta.append(('single', a, b))
    outs = session.run_all(sh, sh.payload['cfgs'], lines)
    for line, m, out in zip(lines, meta, outs):
        if out is None:
            continue

        def fail(msg, key):
            sh.violation(key, '%s: %s ... -> ...%s' % (msg, line[:80], ' '.join(out)[-120:]), {'line': line, 'got': ' '.join(out)})
        try:
            if m[0] == 'reuse':
                _, tag, a, b = m
                if int(out[1]) != 1:
                    fail('a G2Prepared object prepared from a related point and then from Q differs from a fresh one (%s)' % tag, 'reuse:g2prepared_prepare:%s' % tag)
                if C.dec_flat(out[2]) != gtlib.e0_pow(a * b):
                    fail('pairing through a re-prepared object is not E0^(ab) (%s)' % tag, 'value:prepared_pairing:reused-object')
                sh.event('g2prepared_prepare', 'object-reused/' + tag)
                continue
            if m[0] == 'single':
                _, a, b = m
                e = C.dec_flat(out[1])
                if e != gtlib.e0_pow(a * b):
                    fail('prepared pairing differs from E0^(ab)', 'value:prepared_pairing')
                if int(out[2]) != int(b % R == 0):
                    fail('g2prepared_is_zero wrong', 'value:g2prepared_is_zero')
                sh.event('prepared_pairing', 'identity' if a * b % R == 0 else 'generic')
                continue
            shape, total, desc, repeat = m
            exp = gtlib.e0_pow(total)
            sig = ''.join(k.upper() if not (pz or qz) else k for k, pz, qz in desc)
            na_, np_ = sum(1 for k, _, _ in desc if k == 'a'), sum(1 for k, _, _ in desc if k == 'p')
            shared = any(len(ent) > 2 and ent[2] for ent in shape)
            cls = ('shared-g2/' if shared else '') + 'n%d/%s/rep%d' % (len(shape), sig if len(shape) <= 5 else ('long' if len(shape) < 30 else 'a%d+p%d' % (na_, np_)), repeat)
            for rep in range(repeat):
                e = C.dec_flat(out[1 + rep])
                if e != exp:
                    fail('pairing_sum differs from the product of the single pairings (call %d on the same arrays)' % (rep + 1),
                         'value:pairing_sum:%s' % ('reuse' if rep else ('empty' if not shape else 'first')))
            cur = out[1 + repeat]
            cursors = [] if cur == '-' else [int(x) for x in cur.split(',')]
            prep = [(pz or qz) for k, pz, qz in desc if k == 'p']
            # the private cursor (visible through the C mirror struct) may never leave the 68-entry table: an intra-object overrun is
            # invisible to ASan.  (Where exactly it stands for a skipped pair is the implementation's business; a live pair that consumed
            # fewer than 68 entries shows in the value.)
            for c, skipped in zip(cursors, prep):
                if c > NUM_COEFFS:
                    fail('prepared pair cursor at %d, beyond the %d-entry coefficient table' % (c, NUM_COEFFS), 'cursor:pairing_sum:beyond-table')
                elif not skipped and c != NUM_COEFFS:
                    fail('live prepared pair consumed %d of %d coefficients' % (c, NUM_COEFFS), 'cursor:pairing_sum')
            sh.event('pairing_sum', cls, trivial=False)
            if sh.index == 0:
                sh.sample({'shape': sig, 'sum_ab_mod_r': hex(total), 'cursors': cursors}, limit=4)
        except C.NonCanonical as ex:
            sh.violation('canonical:pairing_sum', str(ex), {'line': line})


def run(ctx):
    O.selftest(random.Random(ctx.seed))
    cfgs = ['prod', 'san', 'p32'] if ctx.quick else ['prod', 'san', 'p64', 'p32', 'x86base', 'p64-O0', 'gcc-p64']
    specs = {c: (c if c != 'x86base' else 'prod', 'opdrv.cpp', ['--x86base'] if c == 'x86base' else []) for c in cfgs}
    exes = session.build_exes(specs)
    session.run_shards(ctx, worker, 16, exes, {'cfgs': cfgs})
    ctx.rule = ('events: pairing_sum on a list described as [(affine|prepared, a_i, b_i)] with P_i=[a_i]G1, Q_i=[b_i]G2 from the reference model (identity members with junk '
                'coordinates), optionally called twice on the same pair arrays; oracle: E0^(sum a_i b_i) from the definitional generator pairing, and the private coefficient '
                'cursor of every prepared pair (visible through the C mirror struct) must end at 68 (0 if skipped). All list shapes over {affine,prepared}x{normal,P=O,Q=O} up to '
                'length %s are enumerated, plus lists of 31..65 (thorough: ..300) affine pairs, prepared pairs and both; class = (length, shape signature, reuse)' % ('4 (quick)' if ctx.quick else '5'))
    ctx.extra['configs'] = cfgs
    ctx.extra['exhaustive'] = True
    ctx.extra['exhaustive_scope'] = 'list shapes of length <= %d over 6 pair kinds (values sampled)' % (4 if ctx.quick else 5)
    ctx.assumptions = ['Python integer arithmetic', 'oracle/bls.py definitional pairing of the generators']
    need = ['pairing_sum|shared-g2/n3', 'pairing_sum|shared-g2/n4', 'g2prepared_prepare|object-reused/beta*x', 'g2prepared_prepare|object-reused/same', 'g2prepared_prepare|object-reused/point-then-identity', 'pairing_sum|n0/', 'pairing_sum|n1/A/', 'pairing_sum|n1/P/', 'pairing_sum|n2/AP/', 'pairing_sum|n2/pA', 'pairing_sum|n3/', 'prepared_pairing|identity', 'prepared_pairing|generic']
    for r in need:
        if not any(k.startswith(r) for k in ctx.classes):
            ctx.required_classes.add(r)
    for r in ('a33+p0', 'a0+p33', 'a33+p33', 'a65+p0', 'a0+p65', 'a64+p64'):
        if not any('/%s/' % r in k for k in ctx.classes):
            ctx.required_classes.add('pairing_sum|long:' + r)
    if not any('/rep2' in k for k in ctx.classes) or not any('/long/' in k for k in ctx.classes):
        ctx.required_classes.add('reuse-or-long-lists')
    return None
