"""C19 - the C interface is a faithful view of the C++ implementation."""
import os
import re
import subprocess

import build
import codec as C
import harness
import session
from oracle import bls as O

NS = 'embedded_pairing'
# (C type, C++ type, [(C member, C++ member)])
STRUCTS = [
    ('embedded_pairing_core_bigint_256_t', NS + '::core::BigInt<256>', []),
    ('embedded_pairing_core_bigint_384_t', NS + '::core::BigInt<384>', []),
    ('embedded_pairing_bls12_381_fq_t', NS + '::bls12_381::Fq', [('val', 'val')]),
    ('embedded_pairing_bls12_381_fq2_t', NS + '::bls12_381::Fq2', [('c0', 'c0'), ('c1', 'c1')]),
    ('embedded_pairing_bls12_381_fq6_t', NS + '::bls12_381::Fq6', [('c0', 'c0'), ('c1', 'c1'), ('c2', 'c2')]),
    ('embedded_pairing_bls12_381_fq12_t', NS + '::bls12_381::Fq12', [('c0', 'c0'), ('c1', 'c1')]),
    ('embedded_pairing_bls12_381_g1affine_t', NS + '::bls12_381::G1Affine', [('x', 'x'), ('y', 'y'), ('infinity', 'infinity')]),
    ('embedded_pairing_bls12_381_g1_t', NS + '::bls12_381::G1', [('x', 'x'), ('y', 'y'), ('z', 'z')]),
    ('embedded_pairing_bls12_381_g2affine_t', NS + '::bls12_381::G2Affine', [('x', 'x'), ('y', 'y'), ('infinity', 'infinity')]),
    ('embedded_pairing_bls12_381_g2_t', NS + '::bls12_381::G2', [('x', 'x'), ('y', 'y'), ('z', 'z')]),
    ('embedded_pairing_bls12_381_g2prepared_t', NS + '::bls12_381::G2Prepared', [('coeffs', 'coeffs'), ('coeffs[1]', 'coeffs[1]'), ('coeffs[0].a', 'coeffs[0].a'), ('coeffs[0].b', 'coeffs[0].b'),
                                                                                 ('coeffs[0].c', 'coeffs[0].c'), ('coeffs[67]', 'coeffs[67]'), ('infinity', 'infinity')]),
    ('embedded_pairing_bls12_381_affine_pair_t', NS + '::bls12_381::AffinePair', [('g1', 'g1'), ('g2', 'g2'), ('_r', 'r')]),
    ('embedded_pairing_bls12_381_prepared_pair_t', NS + '::bls12_381::PreparedPair', [('g1', 'g1'), ('g2', 'g2'), ('_coeff_idx', 'coeff_idx')]),
    ('embedded_pairing_wkdibe_attribute_t', NS + '::wkdibe::Attribute', [('id', 'id'), ('idx', 'idx'), ('omitFromKeys', 'omitFromKeys')]),
    ('embedded_pairing_wkdibe_attributelist_t', NS + '::wkdibe::AttributeList', [('attrs', 'attrs'), ('length', 'length'), ('omitAllFromKeysUnlessPresent', 'omitAllFromKeysUnlessPresent')]),
    ('embedded_pairing_wkdibe_params_t', NS + '::wkdibe::Params', [('g', 'g'), ('g1', 'g1'), ('g2', 'g2'), ('g3', 'g3'), ('pairing', 'pairing'), ('hsig', 'hsig'), ('signatures', 'signatures'), ('h', 'h'), ('l', 'l')]),
    ('embedded_pairing_wkdibe_ciphertext_t', NS + '::wkdibe::Ciphertext', [('a', 'a'), ('b', 'b'), ('c', 'c')]),
    ('embedded_pairing_wkdibe_signature_t', NS + '::wkdibe::Signature', [('a0', 'a0'), ('a1', 'a1')]),
    ('embedded_pairing_wkdibe_freeslot_t', NS + '::wkdibe::FreeSlot', [('hexp', 'hexp'), ('idx', 'idx')]),
    ('embedded_pairing_wkdibe_secretkey_t', NS + '::wkdibe::SecretKey', [('a0', 'a0'), ('a1', 'a1'), ('l', 'l'), ('signatures', 'signatures'), ('bsig', 'bsig'), ('b', 'b')]),
    ('embedded_pairing_wkdibe_masterkey_t', NS + '::wkdibe::MasterKey', [('g2alpha', 'g2alpha')]),
    ('embedded_pairing_wkdibe_precomputed_t', NS + '::wkdibe::Precomputed', [('prodexp', 'prodexp')]),
    ('embedded_pairing_wkdibe_scalar_t', NS + '::wkdibe::Scalar', []),
    ('embedded_pairing_lqibe_idhash_t', NS + '::lqibe::IDHash', [('hash', 'hash')]),
    ('embedded_pairing_lqibe_params_t', NS + '::lqibe::Params', [('p', 'p'), ('sp', 'sp')]),
    ('embedded_pairing_lqibe_id_t', NS + '::lqibe::ID', [('q', 'q')]),
    ('embedded_pairing_lqibe_masterkey_t', NS + '::lqibe::MasterKey', [('s', 's')]),
    ('embedded_pairing_lqibe_secretkey_t', NS + '::lqibe::SecretKey', [('sq', 'sq')]),
    ('embedded_pairing_lqibe_ciphertext_t', NS + '::lqibe::Ciphertext', [('rp', 'rp')]),
]


def gen_sources(d):
    c = ['#include <stdio.h>', '#include <stddef.h>', '#include "bls12_381/bls12_381.h"', '#include "wkdibe/wkdibe.h"', '#include "lqibe/lqibe.h"',
         '#define MSZ(T, m) sizeof(((T*) 0)->m)', 'int main(void) {', '  printf("word %d\\n", (int) sizeof(embedded_pairing_core_bigint_word_t));']
    cpp = ['#include <stdio.h>', '#include <stddef.h>', '#define private public', '#include "bls12_381/pairing.hpp"', '#include "wkdibe/api.hpp"', '#include "lqibe/api.hpp"', '#undef private',
           '#define MSZ(T, m) sizeof(((T*) 0)->m)', 'int main(void) {', '  printf("word %d\\n", (int) sizeof(embedded_pairing::core::BigInt<256>::word_t));']
    # a C++ member that no longer exists (renamed or removed) must not stop the probe from compiling: it is reported as "absent", and the
    # struct's size / alignment and the other members' offsets decide whether the layouts still agree
    probes = []
    for i, (ct, cppt, members) in enumerate(STRUCTS):
        for j, (cm, cppm) in enumerate(members):
            probes.append('template <typename T> static auto o_%d_%d(int) -> decltype((void) sizeof(((T*) 0)->%s), (long) 0) { return (long) __builtin_offsetof(T, %s); }' % (i, j, cppm, cppm))
            probes.append('template <typename T> static long o_%d_%d(...) { return -1; }' % (i, j))
            probes.append('template <typename T> static auto s_%d_%d(int) -> decltype((void) sizeof(((T*) 0)->%s), (long) 0) { return (long) sizeof(((T*) 0)->%s); }' % (i, j, cppm, cppm))
            probes.append('template <typename T> static long s_%d_%d(...) { return -1; }' % (i, j))
    k = cpp.index('int main(void) {')
    cpp[k:k] = probes
    for i, (ct, cppt, members) in enumerate(STRUCTS):
        c.append('  printf("%s sizeof %%zu alignof %%zu\\n", sizeof(%s), (size_t) _Alignof(%s));' % (ct, ct, ct))
        cpp.append('  { typedef %s T%d; printf("%s sizeof %%zu alignof %%zu\\n", sizeof(T%d), (size_t) alignof(T%d));' % (cppt, i, ct, i, i))
        for j, (cm, cppm) in enumerate(members):
            c.append('  printf("%s.%s offset %%zu size %%zu\\n", offsetof(%s, %s), MSZ(%s, %s));' % (ct, cm, ct, cm, ct, cm))
            cpp.append('    if (o_%d_%d<T%d>(0) < 0) printf("%s.%s absent\\n"); else printf("%s.%s offset %%ld size %%ld\\n", o_%d_%d<T%d>(0), s_%d_%d<T%d>(0));' % (i, j, i, ct, cm, ct, cm, i, j, i, i, j, i))
        cpp.append('  }')
    c.append('  printf("coeffs_count %zu\\n", sizeof(((embedded_pairing_bls12_381_g2prepared_t*) 0)->coeffs) / sizeof(((embedded_pairing_bls12_381_g2prepared_t*) 0)->coeffs[0]));')
    cpp.append('  printf("coeffs_count %zu\\n", (size_t) embedded_pairing::bls12_381::G2Prepared::num_coeffs);')
    c += ['  return 0;', '}']
    cpp += ['  return 0;', '}']
    open(os.path.join(d, 'layout_c.c'), 'w').write('\n'.join(c) + '\n')
    open(os.path.join(d, 'layout_cpp.cpp'), 'w').write('\n'.join(cpp) + '\n')


def run_cmd(cmd):
    r = subprocess.run(cmd, stdout=subprocess.PIPE, stderr=subprocess.STDOUT, text=True)
    if r.returncode != 0:
        raise harness.HarnessError('command failed: %s\n%s' % (' '.join(cmd), r.stdout[-2500:]))
    return r.stdout


def layout(ctx, d):
    inc = '-I' + os.path.join(build.REPO, 'include')
    for wordcfg, extra in (('word64', []), ('word32', ['-U__SIZEOF_INT128__'])):
        for asmcfg, aextra in (('asm', []), ('portable', ['-DDISABLE_ASM'])):
            ce = os.path.join(d, 'layout_c_%s' % wordcfg)
            cppe = os.path.join(d, 'layout_cpp_%s_%s' % (wordcfg, asmcfg))
            if asmcfg == 'asm' and wordcfg == 'word32':
                continue        # assembly back ends exist for 64-bit words only
            run_cmd(['clang', '-x', 'c', '-std=c11', inc] + extra + [os.path.join(d, 'layout_c.c'), '-o', ce])
            run_cmd(['clang++', '-std=c++17', '-Wno-invalid-offsetof', inc] + extra + aextra + [os.path.join(d, 'layout_cpp.cpp'), '-c', '-o', cppe + '.o'])
            # link the probe without the library: it only needs types
            run_cmd(['clang++', cppe + '.o', '-o', cppe])
            a = run_cmd([ce]).strip().split('\n')
            b = run_cmd([cppe]).strip().split('\n')
            da = {l.split(' ', 1)[0]: l.split(' ', 1)[1] for l in a}
            db = {l.split(' ', 1)[0]: l.split(' ', 1)[1] for l in b}
            exp_word = '8' if wordcfg == 'word64' else '4'
            if da.get('word') != exp_word or db.get('word') != exp_word:
                ctx.violation('layout:word-size:%s' % wordcfg, 'word size C=%s C++=%s expected %s' % (da.get('word'), db.get('word'), exp_word))
            for k in sorted(set(da) | set(db)):
                cfg = '%s/%s' % (wordcfg, asmcfg)
                if db.get(k) == 'absent':
                    # the C++ type has no member of the name the C field mirrors (renamed or removed): not a layout statement by itself -
                    # the struct's sizeof / alignof lines and the remaining members decide
                    ctx.event('layout-member-without-c++-namesake', '%s/%s' % (cfg, k))
                    continue
                if da.get(k) != db.get(k):
                    ctx.violation('layout:%s' % k, '%s: C header says "%s", C++ type says "%s" (%s)' % (k, da.get(k), db.get(k), cfg), {'config': cfg, 'entry': k, 'c': da.get(k), 'cpp': db.get(k)})
                ctx.event('layout', '%s/%s' % (cfg, k))
            if len(da) < 100:
                raise harness.HarnessError('layout probe printed only %d entries' % len(da))
            ctx.sample({'config': wordcfg + '/' + asmcfg, 'entry': 'embedded_pairing_wkdibe_secretkey_t.b', 'c': da.get('embedded_pairing_wkdibe_secretkey_t.b'), 'cpp': db.get('embedded_pairing_wkdibe_secretkey_t.b')})


ROW = re.compile(r'^row (\S+) tried=(\d+) mismatches=(\d+)$')


def run(ctx):
    d = os.path.join(harness.VERIF, 'work', 'c19-%d' % os.getpid())
    os.makedirs(d, exist_ok=True)
    try:
        gen_sources(d)
        layout(ctx, d)
    finally:
        import shutil
        shutil.rmtree(d, ignore_errors=True)
    # ---- exported constants: C symbols vs C++ values vs the reference model
    cfgs = ['prod', 'p32'] if ctx.quick else ['prod', 'san', 'p64', 'p32', 'p32-san']
    exes = session.build_exes({c: (c, 'opdrv.cpp', []) for c in cfgs})
    for cfg in cfgs:
        rc, out, err = harness.run_driver(exes[cfg][0], 'c.consts\nG1.const\nG2.const\ngt.const\nFr.const\n')
        if rc != 0:
            ctx.violation('san:%s:consts' % cfg, err[-1000:])
            continue
        L = [l.split(' ') for l in out.strip().split('\n')]
        c, g1, g2, gt, fr = L

        def chk(name, ok, what=''):
            if not ok:
                ctx.violation('constant:%s' % name, 'exported constant %s differs (%s) [%s]' % (name, what, cfg), {'config': cfg})
            ctx.event('constant', '%s/%s' % (cfg, name))
        chk('group_order', C.unle(c[1]) == O.R and c[1] == fr[3], 'vs r and Fr::p_value')
        chk('g1_zero', c[2] == g1[1], 'vs G1::zero')
        chk('g1affine_zero', c[3] == g1[3] and c[3][192:] == '01', 'vs G1Affine::zero')
        chk('g1affine_generator', c[4] == g1[4] and C.dec_g1a(c[4]) == O.G1_GEN, 'vs G1Affine::generator and the published generator')
        chk('g2_zero', c[5] == g2[1], 'vs G2::zero')
        chk('g2affine_zero', c[6] == g2[3] and c[6][384:] == '01', 'vs G2Affine::zero')
        chk('g2affine_generator', c[7] == g2[4] and C.dec_g2a(c[7]) == O.G2_GEN, 'vs G2Affine::generator and the published generator')
        chk('marshalled_sizes', c[8:13] == ['48', '96', '96', '192', '576'], str(c[8:13]))
        chk('num_coeffs', c[13] == '68' and c[14] == '68', '%s vs %s' % (c[13], c[14]))
        chk('gt_generator', gt[1] == gt[3] and C.dec_flat(gt[1]) == O.e0(), 'vs generator_pairing and the definitional pairing')
        chk('gt_zero', C.dec_flat(gt[2]) == O.FLAT_ONE, 'vs 1')
    # ---- behaviour: one row per extern "C" function, wrapper vs C++ operation
    bcfgs = ['prod', 'san', 'p32', 'p64-O0'] if ctx.quick else ['prod', 'san', 'p64', 'p32', 'p32-san', 'gcc-san', 'p64-O0', 'gcc-p64']
    bexes = session.build_exes({c: (c, 'capi_drv.cpp', []) for c in bcfgs})
    # symbol table of the built library objects
    libdir, objs = build.build_lib('prod')
    nm = run_cmd(['nm'] + objs)
    symbols = sorted({l.split()[2] for l in nm.split('\n') if len(l.split()) == 3 and l.split()[1] == 'T' and l.split()[2].startswith('embedded_pairing_') and 'core_arch' not in l})
    for cfg in bcfgs:
        rc, out, err = harness.run_driver(bexes[cfg][0], None, args=['--trials', '12' if ctx.quick else '60', '--seed', str(ctx.seed)], timeout=1800)
        f = harness.classify_failure(rc, err)
        if f:
            ctx.violation('san:%s:capi_drv:%s' % (cfg, f), err[-2000:], {'config': cfg})
        rows = {}
        for l in out.split('\n'):
            m = ROW.match(l)
            if m:
                rows[m.group(1)] = (int(m.group(2)), int(m.group(3)))
        for s in symbols:
            if s not in rows:
                ctx.violation('unmonitored-wrapper:%s' % s, 'extern "C" function %s exists in the built library but has no behavioural row (build %s)' % (s, cfg), {'symbol': s})
                continue
            tried, bad = rows[s]
            if bad:
                ctx.violation('wrapper:%s' % s, 'C wrapper %s and the C++ operation disagree in %d of %d calls (build %s)' % (s, bad, tried, cfg), {'symbol': s, 'config': cfg, 'seed': ctx.seed})
            ctx.event('wrapper:' + s, cfg, n=tried)
    ctx.extra['extern_c_functions'] = len(symbols)
    ctx.extra['behaviour_configs'] = bcfgs
    ctx.rule = ('(a) layout: a C translation unit compiled as C from the shipped headers and a C++ one print sizeof/alignof/offsetof/member size for %d mirrored structs (incl. the private pair '
                'fields and coeffs[68] vs num_coeffs); tables diffed for 64-bit and 32-bit word typedefs, assembly and portable; (b) exported constants vs C++ values vs the reference model; '
                '(c) one behavioural row per extern "C" function found by nm in the built objects (%d): wrapper and the corresponding C++ operation on the same inputs and PRNG state must agree; '
                'a function without a row fails the run' % (len(STRUCTS), len(symbols)))
    ctx.assumptions = ['Go bindings not executable here; cgo consumes these same headers', 'the C++ operation a wrapper should forward to is taken from the header documentation / names']
    if len(symbols) < 100:
        raise harness.HarnessError('symbol table has only %d functions' % len(symbols))
    return None
