"""C17 - untrusted bytes and valid calls never cause out-of-bounds access or UB."""
import os
import random
import shutil
import subprocess

import build
import harness
import session
from c15 import parse_gen, parse_elems, expected_layout

G1C, G1U, G2C, G2U, GT = 48, 96, 96, 192, 576
KINDS = ['wparams', 'wmaster', 'wsk', 'wct', 'wsig', 'lparams', 'lid', 'lmaster', 'lsk', 'lct']


def expected_setlen(kind, data, c):
    """the length arithmetic of the binding protocol, stated independently"""
    g1 = G1C if c else G1U
    g2 = G2C if c else G2U
    if not data:
        return None
    sig = data[0] != 0
    if kind == 'wparams':
        base = 1 + 2 * g1 + 2 * g2 + (0 if c else GT) + (g1 if sig else 0)
        unit = g1
    elif kind == 'wsk':
        base = 1 + g1 + g2 + (g1 if sig else 0)
        unit = 4 + g1
    else:
        return None
    if len(data) < base or (len(data) - base) % unit:
        return -1
    return (len(data) - base) // unit


def fixed_len(kind, c):
    g1 = G1C if c else G1U
    g2 = G2C if c else G2U
    return {'wmaster': g1, 'wct': GT + g2 + g1, 'wsig': g1 + g2, 'lparams': 2 * g2, 'lid': g1, 'lmaster': 32, 'lsk': g1, 'lct': g2}[kind]


def hostile(valid, rng, quick):
    """valid: list of (kind, c, bytes).  yields (label, kind, c, checked, bytes)"""
    out = []
    for kind, c, data, pts in valid:
        for chk in (1, 0):
            out.append(('valid', kind, c, chk, data))
        # every embedded point replaced by the encoding of the identity (a VALID element, so parsing continues past it), by an
        # identity flag followed by junk early / late in the element, and the whole buffer at every byte alignment: element parsers
        # that read their bytes as wider words see them at odd addresses (UBSan alignment) or run past the block (ASan)
        sel = pts if (len(pts) <= 4 or not quick) else rng.sample(pts, 4)
        for tag, off, n in sel:
            ident = bytearray(n)
            ident[0] = 0x40 | (0x80 if c else 0)
            late = bytearray(ident)
            late[rng.randrange(4, n)] = rng.randrange(1, 256)
            early = bytearray(ident)
            early[rng.randrange(1, 4)] = rng.randrange(1, 256)
            for lab, el in (('identity-element', ident), ('identity-flag-junk-late', late), ('identity-flag-junk-early', early)):
                out.append((lab, kind, c, 1 if lab == 'identity-element' else rng.randrange(2), data[:off] + bytes(el) + data[off + n:], rng.randrange(4)))
            out.append(('identity-element', kind, c, 0, data[:off] + bytes(ident) + data[off + n:], rng.randrange(4)))
        allid = bytearray(data)
        for tag, off, n in pts:
            allid[off:off + n] = bytes([0x40 | (0x80 if c else 0)]) + bytes(n - 1)
        if pts:
            out.append(('identity-element', kind, c, 1, bytes(allid), 0))
        for shift in (1, 2, 3):
            out.append(('valid-misaligned', kind, c, 1, data, shift))
        cuts = [1, 2, 3, 4, 47, 48, 49, 51, 52, 53, 95, 96, 97, 99, 100, 101] + [rng.randrange(1, 101) for _ in range(2 if quick else 10)]
        for k in cuts:
            if len(data) > k:
                out.append(('truncated', kind, c, rng.randrange(2), data[:-k]))
            out.append(('extended', kind, c, rng.randrange(2), data + bytes(rng.getrandbits(8) for _ in range(k))))
        for fb in (0, 1, 2, 255):
            out.append(('first-byte-%d' % fb, kind, c, rng.randrange(2), bytes([fb]) + data[1:]))
        for _ in range(3 if quick else 12):
            b = bytearray(data)
            i = rng.randrange(len(b))
            b[i] ^= 1 << rng.randrange(8)
            out.append(('bitflip', kind, c, rng.randrange(2), bytes(b)))
            b = bytearray(data)
            i = rng.randrange(0, max(1, len(b) - 48))
            b[i:i + 48] = bytes(rng.getrandbits(8) for _ in range(min(48, len(b) - i)))
            out.append(('element-garbage', kind, c, rng.randrange(2), bytes(b)))
        out.append(('prefix-1', kind, c, 1, data[:1]))
    for _ in range(60 if quick else 1500):
        n = rng.choice([1, 2, 47, 48, 49, 96, 144, 145, 146, 192, 193, 245, 288, 289, 433, 481, 720, 864, 1441, rng.randrange(1, 4097)])
        data = bytes(rng.getrandbits(8) for _ in range(n))
        if rng.random() < 0.5:
            data = bytes([rng.choice([0, 1])]) + data[1:]
        out.append(('random-bytes', rng.choice(KINDS), rng.randrange(2), rng.randrange(2), data))
    return out


def worker(sh):
    rng = sh.rng
    # stage 1: valid corpus from the library itself
    gens = []
    ls = [0, 1, 2, 5, 20] if sh.index == 0 else [rng.randrange(0, 21) for _ in range(sh.pick(1, 4))]
    for l in ls:
        sig = rng.randrange(2)
        gens.append('gen %d %d %d %d' % (l, sig, rng.getrandbits(l) if l else 0, rng.getrandbits(40)))
    outs = sh.run('san', gens)
    valid = []
    for g, out in zip(gens, outs):
        if out is None:
            continue
        for d in parse_gen(' '.join(out)):
            try:
                layout, total = expected_layout(parse_elems(d['elems']), bool(int(d['c'])), d['kind'])
                pts = [(tag, off, n) for tag, off, n, _, _ in layout if tag in ('1', '2')] if total == len(d['bytes']) else []
            except Exception:
                pts = []
            valid.append((d['kind'], int(d['c']), d['bytes'], pts))
    if sh.quick:
        valid = [v for v in valid if v[0] in ('wparams', 'wsk') or rng.random() < 0.35]
    cases = hostile(valid, rng, sh.quick)
    cases = [(t + (0,))[:6] for t in cases]
    lines = ['unm %s %d %d %s %d' % (kind, c, chk, data.hex() if data else '-', shift) for (label, kind, c, chk, data, shift) in cases]
    for cfg in sh.payload['cfgs']:
        res = sh.run(cfg, lines)
        for (label, kind, c, chk, data, shift), line, out in zip(cases, lines, res):
            if out is None:
                continue
            kv = {t.split('=')[0]: t.split('=')[1] for t in out if '=' in t}

            def fail(aspect, msg):
                sh.violation('buffer:%s:%s' % (kind, aspect), '%s [%s %s len=%d %s, build %s]: %s' % (msg, label, 'compressed' if c else 'uncompressed', len(data), 'checked' if chk else 'unchecked', cfg, ' '.join(out)),
                             {'line': line[:3000], 'config': cfg})
            exp = expected_setlen(kind, data, c)
            acc = int(kv.get('accepted', -9))
            if 'setlen' not in kv:
                continue
            if exp is not None:
                if int(kv['setlen']) != exp:
                    fail('length-discovery', 'set_length returned %s, the format implies %d' % (kv['setlen'], exp))
                if exp == -1 and acc != -2:
                    fail('length-discovery', 'buffer of impossible length was parsed')
            else:
                if len(data) != fixed_len(kind, c) and acc != -2:
                    fail('length-check', 'fixed-size object parsed from a buffer of another length')
            if acc == 1:
                if int(kv['getlen']) != len(data):
                    fail('accepted-length', 'accepted object reports marshalled length %s, buffer had %d' % (kv['getlen'], len(data)))
                # (byte-identical re-marshalling is not required by the property: the flag byte is normalised to 0/1 and the GT
                #  coefficients of a ciphertext are reduced; the driver has re-marshalled the object into a buffer of getlen bytes)
            if label in ('valid', 'valid-misaligned') and acc != 1:
                fail('valid-rejected', 'the library\'s own bytes were rejected')
            if cfg == sh.payload['cfgs'][0]:
                sh.event('unmarshal:%s' % kind, '%s/%s' % (label, {1: 'accepted', 0: 'rejected', -2: 'rejected-by-length'}.get(acc, '?')))
        sh.count('buffers_x_configs', len(lines))
    # length discovery alone for EVERY buffer length (first byte 0/1/2/255): compare with the independent statement of the format
    if sh.index < 8:
        kind = ('wparams', 'wsk')[sh.index % 2]
        c = (sh.index // 2) % 2
        fbs = (0, 1) if sh.index < 4 else (2, 255)
        maxlen = sh.pick(3000, 20000)
        # ranges: every length from 1, and the neighbourhoods of 2^16 and 2^17 (where a 16-bit length or count would wrap)
        ranges = [(1, maxlen), (65380, 65700), (131000, 131150)] if sh.index < 4 else [(1, maxlen)]
        for cfg in ('san', 'guard-end'):
            for lo, hi in ranges:
                sweep = ['lens %s %d %d %d %d' % (kind, c, fb, hi, lo) for fb in fbs]
                so = sh.run(cfg, sweep)
                for fb, out in zip(fbs, so):
                    if out is None:
                        continue
                    vals = out[-1].split(',')
                    for n, v in enumerate(vals, start=lo):
                        exp = expected_setlen(kind, bytes([fb]) + bytes(n - 1), c)
                        if v != str(exp):
                            sh.violation('buffer:%s:length-discovery' % kind, 'length discovery on a %d-byte buffer with first byte %d (%s) returned %s, the format implies %d [%s]'
                                         % (n, fb, 'compressed' if c else 'uncompressed', v, exp, cfg), {'line': 'lens %s %d %d %d %d' % (kind, c, fb, n, n), 'config': cfg})
                            break
                    if cfg == 'san':
                        sh.event('length-discovery-sweep:%s' % kind, '%s/firstbyte%d%s' % ('c' if c else 'u', fb, '' if lo == 1 else '/around-2^%d' % (16 if lo < 100000 else 17)), n=len(vals))
    # every prefix of small valid params / secret keys (first byte = signature flag as marshalled)
    if 8 <= sh.index < 12 and valid:
        small = sorted([v for v in valid if v[0] in ('wparams', 'wsk')], key=lambda v: len(v[2]))[:4 if sh.quick else 12]
        pl = []
        pm = []
        for kind, c, data, _ in small:
            for n in range(1, len(data)):
                pl.append('unm %s %d %d %s' % (kind, c, n & 1, data[:n].hex()))
                pm.append((kind, c, data[:n]))
        for cfg in ('san', 'guard-end'):
            res = sh.run(cfg, pl)
            for (kind, c, data), line, out in zip(pm, pl, res):
                if out is None:
                    continue
                kv = {t.split('=')[0]: t.split('=')[1] for t in out if '=' in t}
                exp = expected_setlen(kind, data, c)
                if 'setlen' not in kv:
                    continue
                if int(kv['setlen']) != exp:
                    sh.violation('buffer:%s:length-discovery' % kind, 'set_length on a %d-byte prefix returned %s, the format implies %d [%s]' % (len(data), kv['setlen'], exp, cfg), {'line': line[:3000], 'config': cfg})
                if cfg == 'san':
                    sh.event('unmarshal:%s' % kind, 'every-prefix/%s' % ('parsed' if exp != -1 else 'rejected-by-length'))
    if sh.index == 0:
        for lab, kind, c, chk, data, _ in cases[:400:80]:
            sh.sample({'label': lab, 'kind': kind, 'compressed': c, 'checked': chk, 'length': len(data), 'head': data[:16].hex()}, limit=5)
    # stage 3: field/group/pairing operations with operands flush against guard pages (assembly is invisible to ASan)
    res = sh.run('guard-end', ['fieldguard %d %d' % (rng.getrandbits(40), sh.pick(10, 100))])
    if res[0] is not None:
        sh.event('guard-page:field-group-pairing', 'completed', n=sh.pick(10, 100))


SAN_WORKLOADS = ['c02', 'c04', 'c05', 'c06', 'c07', 'c08', 'c09', 'c10', 'c01']
WKD_WORKLOADS = ['c11', 'c12', 'c13', 'c14']


# ---- monitor 4: valgrind memcheck over the production code generation (-Ofast + assembly routines, DWARF-4 line tables).
# What it adds to ASan/UBSan: use of uninitialised values (conditional jumps, addresses) - undefined behaviour no compiler
# sanitizer installed here reports - and heap red zones that also cover the hand-written assembly, which ASan cannot instrument.
VG_LIMITS = {   # workload -> (driver, lines per shard quick, thorough, sampling)
    'c02': ('opdrv.cpp', 1500, 12000, 'spread'), 'c04': ('opdrv.cpp', 600, 5000, 'spread'), 'c05': ('opdrv.cpp', 1200, 8000, 'spread'),
    'c06': ('opdrv.cpp', 150, 1500, 'spread'), 'c07': ('opdrv.cpp', 40, 400, 'spread'), 'c08': ('opdrv.cpp', 24, 300, 'spread'),
    'c09': ('opdrv.cpp', 150, 1500, 'spread'), 'c10': ('opdrv.cpp', 60, 600, 'spread'), 'c01': ('opdrv.cpp', 16, 200, 'spread'),
    'c11': ('wkd_drv.cpp', 24, 300, 'prefix'), 'c12': ('wkd_drv.cpp', 24, 300, 'prefix'), 'c13': ('wkd_drv.cpp', 24, 300, 'prefix'),
    'c14': ('wkd_drv.cpp', 40, 400, 'prefix'), 'c15': ('scheme_drv.cpp', 6, 40, 'prefix'), 'c16': ('scheme_drv.cpp', 8, 80, 'prefix'),
    'c17': ('scheme_drv.cpp', 120, 1500, 'spread'),
}


# ---- monitor 5: MemorySanitizer over the portable 64-bit code (thorough: also the 32-bit-word code).  Neither the library nor the
# drivers use a C++ runtime library, so the whole process is instrumented and MSan is sound here; the hand-written assembly is the one
# thing it cannot see (memcheck above covers that).  About 3x, so it runs 10-20 times the lines memcheck can afford.
MSAN_FACTOR = {'quick': 12, 'thorough': 8}


def memcheck_monitor(tier, seed, conn, instrument='memcheck', cfgname='prod-g'):
    """runs in its own process, next to the other monitors; sends {'violations', 'events', 'lines', 'error'} through conn"""
    import importlib
    res = {'violations': [], 'events': {}, 'lines': 0, 'error': None}
    tag = 'memcheck' if instrument == 'memcheck' else 'msan'
    try:
        quick = tier == 'quick'
        vg = shutil.which('valgrind')
        if not vg and instrument == 'memcheck':
            raise harness.HarnessError('valgrind not found')
        vgargs = ['-q', '--error-exitcode=96', '--exit-on-first-error=yes', '--num-callers=16', '--undef-value-errors=yes']
        shards = [0, 1, 4, 9] if (quick or cfgname == 'p32-msan') else list(range(16))
        for name, (drv, lq, lt, mode) in VG_LIMITS.items():
            mod = importlib.import_module(name)
            exe = build.build_driver(cfgname, drv)
            wrapped = (vg, vgargs + [exe]) if instrument == 'memcheck' else (exe, [])
            if instrument != 'memcheck':
                # (the 32-bit-word MemorySanitizer build is 3-5x slower again: it repeats the quick volume in the thorough tier)
                lq, lt = lq * MSAN_FACTOR['quick'], (lt * MSAN_FACTOR['thorough'] if cfgname == 'p64-msan' else lq * MSAN_FACTOR['quick'])
            if name == 'c15':
                ex = {'prod': wrapped, 'san': wrapped}
                limited = ['prod', 'san']
            elif name == 'c17':
                real = build.build_driver('prod-g', drv)
                ex = {'san': (real, []), 'vg': wrapped, 'guard-end': (real, ['--guard-end'])}
                if instrument != 'memcheck':
                    continue        # C17's own buffer workload runs under memcheck and ASan; its guard-page modes need the production build
                limited = ['vg']
            else:
                ex = {'vg': wrapped}
                limited = ['vg']
            sub = harness.Ctx(name.upper(), tier, seed)
            payload = {'cfgs': ['vg'], 'line_limit': lq if quick else lt, 'line_mode': mode, 'limited_cfgs': limited}
            if name == 'c09':
                payload.update(getattr(mod, 'extra_payload', lambda q: {})(quick))
            try:
                session.run_shards(sub, mod.worker, 16, ex, payload, only=shards)
            except harness.HarnessError as e:
                # a judge that cannot cope with a partial answer set is the monitor's problem, not the library's
                if 'memcheck' not in str(e):
                    res['events']['%s-workload-incomplete|%s' % (tag, name.upper())] = 1
            for v in sub.violations:
                parts = v['key'].split(':')
                if 'memcheck' in parts:
                    res['violations'].append(('vg:%s' % ':'.join(parts[parts.index('memcheck'):]), '[workload of %s under valgrind memcheck, production build] %s' % (name.upper(), v['what']), v['replay']))
                elif 'msan' in parts:
                    res['violations'].append(('msan:%s' % ':'.join(parts[parts.index('msan') + 1:]), '[workload of %s under MemorySanitizer, %s build] %s' % (name.upper(), cfgname, v['what']), v['replay']))
                elif len(parts) > 1 and parts[1] == 'san':
                    res['violations'].append(('%s:%s' % ('vg' if instrument == 'memcheck' else 'msan-run', ':'.join(parts[2:])), '[workload of %s under %s] %s' % (name.upper(), 'valgrind' if instrument == 'memcheck' else 'MemorySanitizer', v['what']), v['replay']))
            n = int(sub.extra.get('limited_lines_run', 0)) or int(sub.evaluations if instrument != 'memcheck' else 0)
            res['events']['%s-workload|%s%s' % (tag, name.upper(), '' if instrument == 'memcheck' else '/' + cfgname)] = max(1, n)
            res['lines'] += n
    except Exception as e:
        import traceback
        res['error'] = '%s: %s' % (e, traceback.format_exc()[-800:])
    conn.send(res)
    conn.close()


def run(ctx):
    import importlib
    import multiprocessing as mp
    parent_conn, child_conn = mp.Pipe(False)
    vgproc = mp.get_context('fork').Process(target=memcheck_monitor, args=(ctx.tier, ctx.seed, child_conn))
    vgproc.start()
    msan_procs = []
    for mcfg in (['p64-msan'] if ctx.quick else ['p64-msan', 'p32-msan']):
        pc, cc = mp.Pipe(False)
        pr = mp.get_context('fork').Process(target=memcheck_monitor, args=(ctx.tier, ctx.seed, cc, 'msan', mcfg))
        pr.start()
        msan_procs.append((mcfg, pr, pc))
    san_cfgs = ['san'] if ctx.quick else ['san', 'p32-san', 'gcc-san']
    # ---- monitor 2: untrusted buffers
    spec = {'san': ('san', 'scheme_drv.cpp', []), 'guard-end': ('prod', 'scheme_drv.cpp', ['--guard-end']), 'guard-start': ('prod', 'scheme_drv.cpp', ['--guard-start'])}
    cfgs = ['san', 'guard-end', 'guard-start']
    if not ctx.quick:
        spec['p32-san'] = ('p32-san', 'scheme_drv.cpp', [])
        spec['gcc-san'] = ('gcc-san', 'scheme_drv.cpp', [])
        cfgs += ['p32-san', 'gcc-san']
    exes = session.build_exes(spec)
    session.run_shards(ctx, worker, 16, exes, {'cfgs': cfgs})
    # ---- monitor 1: every other property's workload under the sanitizers (value judgements belong to those properties;
    #      only sanitizer reports / crashes are taken from these runs)
    total_lines = 0
    for name, drv in [(n, 'opdrv.cpp') for n in SAN_WORKLOADS] + [(n, 'wkd_drv.cpp') for n in WKD_WORKLOADS] + [('c15', 'scheme_drv.cpp'), ('c16', 'scheme_drv.cpp')]:
        mod = importlib.import_module(name)
        for sc in san_cfgs:
            # the thorough volume goes to the primary sanitizer build; the 32-bit-word and gcc sanitizer builds (5-10x slower per
            # pairing) repeat the quick-tier workload
            primary = sc == san_cfgs[0]
            sub = harness.Ctx(name.upper(), ctx.tier if primary else 'quick', ctx.seed)
            if name == 'c15':
                ex = session.build_exes({'prod': (sc, drv, []), 'san': (sc, drv, [])})
            else:
                ex = session.build_exes({sc: (sc, drv, [])})
            only = [0, 1, 9] if (ctx.quick or not primary) else [0, 1, 2, 3, 4, 5, 8, 9, 14, 15]
            try:
                session.run_shards(sub, mod.worker, 16, ex, {'cfgs': [sc]}, only=only)
            except harness.HarnessError as e:
                raise harness.HarnessError('workload %s under %s: %s' % (name, sc, e))
            nsan = 0
            for v in sub.violations:
                if ':san:' in v['key'] or v['key'].split(':')[1] == 'san':
                    nsan += 1
                    ctx.violation('san:%s' % v['key'].split(':', 1)[1], '[workload of %s under %s] %s' % (name.upper(), sc, v['what']), v['replay'])
            ctx.event('sanitized-workload:%s' % name.upper(), sc, n=max(1, sub.evaluations))
            total_lines += sub.evaluations
    ctx.extra['sanitized_workload_events'] = total_lines
    # alias driver under sanitizers
    for sc in san_cfgs:
        exe = build.build_driver(sc, 'alias_drv.cpp')
        rc, out, err = harness.run_driver(exe, None, args=['--trials', '8', '--seed', str(ctx.seed)], timeout=900)
        f = harness.classify_failure(rc, err)
        if f:
            ctx.violation('san:alias_drv:%s' % f, 'alias driver under %s: %s' % (sc, err[-2000:]), {'config': sc})
        ctx.event('sanitized-workload:C18', sc, n=out.count('\n'))
    # ---- monitor 3b: the DIRECTED raw / prime-field vectors of C02 and C03 (every carry chain, the compare-and-subtract arms, the exact
    #      carry coincidences of the Montgomery reduction) with operands and results flush against PROT_NONE pages, production build,
    #      both x86 routine families (dispatch default and baseline through the pointer swap) and the direct assembly entry points
    guarded_vectors(ctx)
    # ---- monitor 3: libFuzzer over the unmarshal protocol (thorough tier)
    if not ctx.quick:
        fuzz(ctx)
    # ---- monitor 4: collect the memcheck process
    if not parent_conn.poll(900 if ctx.quick else 5400):
        vgproc.kill()
        raise harness.HarnessError('valgrind monitor did not finish in time (inconclusive)')
    vres = parent_conn.recv()
    vgproc.join(30)
    if vres['error']:
        raise harness.HarnessError('valgrind monitor failed: %s' % vres['error'])
    for key, what, replay in vres['violations']:
        ctx.violation(key, what, replay)
    for k, n in vres['events'].items():
        ctx.event(k.split('|')[0], k.split('|')[1], n=n)
    ctx.extra['memcheck_driver_lines'] = vres['lines']
    # ---- monitor 5: collect the MemorySanitizer processes
    for mcfg, pr, pc in msan_procs:
        if not pc.poll(900 if ctx.quick else 7200):
            pr.kill()
            raise harness.HarnessError('MemorySanitizer monitor (%s) did not finish in time (inconclusive)' % mcfg)
        mres = pc.recv()
        pr.join(30)
        if mres['error']:
            raise harness.HarnessError('MemorySanitizer monitor failed: %s' % mres['error'])
        for key, what, replay in mres['violations']:
            ctx.violation(key, what, replay)
        for k, n in mres['events'].items():
            ctx.event(k.split('|')[0], k.split('|')[1], n=n)
        ctx.extra['msan_driver_lines_%s' % mcfg] = mres['lines']
    ctx.rule = ('(1) the workloads of C01-C16 and C18 re-run under ASan+UBSan builds (clang; thorough: also 32-bit-word and gcc builds): any report or crash is a violation keyed by report kind and '
                'library source location; (2) the Go-binding unmarshal protocol (exact-size heap copies, slot arrays of exactly the reported size) on valid buffers of every object kind and their '
                'hostile neighbourhood (every truncation/extension class, first byte 0/1/2/255, bit flips, element garbage, random bytes up to 4 KiB), under ASan+UBSan and on the production build '
                'with the buffer flush against PROT_NONE pages at either end; length discovery is compared with an independent statement of the format; accepted buffers must re-marshal; '
                '(3) field/group/pairing operations with operands flush against guard pages (assembly routines), and the directed raw / prime-field vectors of C02/C03 (carry chains, compare-and-subtract arms, exact carry coincidences) through both x86 routine families and the direct assembly entry points with every operand in a guard-page arena; (4) thorough: libFuzzer (ASan+UBSan) over the same protocol; '
                '(5) valgrind memcheck over the production build (-Ofast, assembly routines) on a bounded sample of every workload of C01-C17: uninitialised-value use and invalid accesses, also inside the assembly; '
                '(6) MemorySanitizer builds of the portable code (64-bit words; thorough also 32-bit words) on a 10x larger sample of the workloads of C01-C16 (the library and the drivers use no C++ runtime, so the whole process is instrumented). '
                'class = (object kind, mutation label, verdict) / sanitized workload')
    ctx.extra['buffer_configs'] = cfgs
    ctx.extra['sanitizer_configs'] = san_cfgs
    ctx.assumptions = ['ASan sees heap/stack/global red zones only (intra-object overruns: C08 cursor monitor, C06 guard words)', 'Go bindings themselves are not executed; their allocation protocol is reproduced in C']
    need = ['length-discovery-sweep:wparams|c/firstbyte1', 'length-discovery-sweep:wsk|u/firstbyte1', 'length-discovery-sweep:wsk|c/firstbyte255', 'length-discovery-sweep:wparams|c/firstbyte1/around-2^16', 'length-discovery-sweep:wsk|u/firstbyte1/around-2^16', 'unmarshal:wsk|every-prefix', 'unmarshal:wparams|truncated', 'unmarshal:wsk|truncated', 'unmarshal:wsk|extended', 'unmarshal:wparams|valid/accepted', 'unmarshal:wsk|valid/accepted', 'unmarshal:wsk|first-byte-0', 'unmarshal:wparams|identity-element/accepted', 'unmarshal:wsk|identity-element', 'unmarshal:wsk|valid-misaligned/accepted', 'unmarshal:lid|valid-misaligned',
            'guard-page:field-group-pairing|completed', 'guard-page:directed-vectors|guard-end/x86-baseline', 'guard-page:directed-vectors|guard-start/dispatch-default', 'memcheck-workload|C02', 'memcheck-workload|C11', 'memcheck-workload|C01', 'memcheck-workload|C17', 'memcheck-workload|C15', 'msan-workload|C11/p64-msan', 'msan-workload|C02/p64-msan', 'msan-workload|C15/p64-msan', 'sanitized-workload:C11|san', 'sanitized-workload:C15|san', 'sanitized-workload:C02|san']
    for r in need:
        if not any(k.startswith(r) for k in ctx.classes):
            ctx.required_classes.add(r)
    return None


def guarded_vectors(ctx):
    import random
    import c02
    import c03
    exe = build.build_driver('prod', 'opdrv.cpp')
    vecs = c03.gen_vectors(random.Random(33), 40 if ctx.quick else 800, True)
    lines = [c03.line_for(k, F, prm) for k, F, prm in vecs]
    for fam in ('base', 'bmi2'):
        lines += [l for l in (c03.asm_line(k, F, prm, fam) for k, F, prm in vecs) if l]

    class G:
        def __init__(self):
            self.lines = []

        def add(self, line, *meta):
            self.lines.append(line)
    g = G()
    drng = random.Random(20260927)
    for F in (c02.FQ, c02.FR):
        c02.gen_directed(g, F, drng)
        c02.gen_coincidences(g, F, drng)
    lines += [l for l in g.lines if l.split(' ')[0].split('.')[1] in ('add', 'sub', 'mul', 'sqr', 'dbl', 'neg', 'inv', 'set', 'get', 'mont', 'hashred', 'reduce', 'exp', 'copy')]
    text = '\n'.join(lines) + '\n'
    for guard in ('--guard-end', '--guard-start'):
        for fam in ([], ['--x86base']):
            rc, out, err = harness.run_driver(exe, text, args=[guard] + fam, timeout=1800)
            nout = out.count('\n')
            label = '%s/%s' % (guard[2:], 'x86-baseline' if fam else 'dispatch-default')
            if rc != 0:
                ol = [l for l in out.split('\n') if l]
                culprit = lines[len(ol) - 1] if 0 < len(ol) <= len(lines) else (lines[0] if lines else '')
                f = harness.classify_failure(rc, err) or ('exit:%s' % rc)
                ctx.violation('guard-page:%s:%s:%s' % (culprit.split(' ')[0], 'x86-baseline' if fam else 'dispatch-default', f),
                              'raw / field operation touched memory outside its operands (%s, %s): %s ... %s' % (label, f, culprit[:300], err[-300:]),
                              {'line': culprit, 'config': 'prod', 'args': [guard] + fam})
            elif nout != len(lines):
                raise harness.HarnessError('guarded vector run answered %d of %d lines' % (nout, len(lines)))
            ctx.event('guard-page:directed-vectors', label, n=max(1, nout))


def fuzz(ctx):
    exe = build.build_driver('fuzz', 'fuzz_unm.cpp')
    work = os.path.join(harness.VERIF, 'work', 'fuzz-%d' % ctx.seed)
    shutil.rmtree(work, ignore_errors=True)
    os.makedirs(os.path.join(work, 'corpus'))
    # seed corpus: valid buffers with every selector byte
    san = build.build_driver('san', 'scheme_drv.cpp')
    rc, out, err = harness.run_driver(san, 'gen 2 1 1 7\ngen 0 0 0 8\ngen 5 1 21 9\n')
    n = 0
    for line in out.split('\n'):
        for d in parse_gen(line):
            k = KINDS.index(d['kind'])
            for chk in (0, 1):
                sel = k | (0x10 if int(d['c']) else 0) | (0x20 if chk else 0)
                open(os.path.join(work, 'corpus', 'seed%d' % n), 'wb').write(bytes([sel]) + d['bytes'])
                n += 1
    runs = 400000
    jobs = 8
    procs = []
    for j in range(jobs):
        p = subprocess.Popen([exe, '-runs=%d' % (runs // jobs), '-seed=%d' % (ctx.seed * 100 + j), '-max_len=4200', '-artifact_prefix=%s/' % work, '-print_final_stats=1',
                              os.path.join(work, 'corpus')], stdout=subprocess.PIPE, stderr=subprocess.STDOUT, text=True,
                             env=dict(os.environ, ASAN_OPTIONS='abort_on_error=0:detect_leaks=0:quarantine_size_mb=8', UBSAN_OPTIONS='print_stacktrace=1:halt_on_error=1'))
        procs.append(p)
    execs = 0
    for p in procs:
        try:
            log, _ = p.communicate(timeout=3000)
        except subprocess.TimeoutExpired:
            p.kill()
            log, _ = p.communicate()
            raise harness.HarnessError('fuzzer did not finish its run budget in time (inconclusive)')
        import re
        m = re.search(r'stat::number_of_executed_units:\s*(\d+)', log)
        execs += int(m.group(1)) if m else 0
        if p.returncode != 0:
            arts = [f for f in os.listdir(work) if f.startswith(('crash-', 'leak-', 'timeout-', 'oom-'))]
            key = harness.classify_failure(p.returncode, log) or 'fuzz-abort'
            rp = {'artifacts': arts, 'log': log[-3000:], 'reproduce': '%s %s/<artifact>' % (exe, work)}
            if arts:
                os.makedirs(os.path.join(harness.VERIF, 'replays'), exist_ok=True)
                for a in arts[:3]:
                    shutil.copy(os.path.join(work, a), os.path.join(harness.VERIF, 'replays', 'C17-fuzz-' + a))
            ctx.violation('fuzz:unmarshal:%s' % key, 'libFuzzer found a failing input for the unmarshal protocol: %s' % log[-1500:], rp)
    ctx.event('libfuzzer:unmarshal-protocol', 'executions', n=max(1, execs))
    ctx.extra['fuzz_executions'] = execs
    ctx.extra['fuzz_corpus_seeds'] = n
    shutil.rmtree(work, ignore_errors=True)
