"""C11 - WKD-IBE: every key from any delegation history is well-formed and decrypts."""
import itertools
import random

import session
import wkd
from wkd import R, VALUES, alist, fixed_list, free_slots, pstr


def transition_sig(parent_pattern, entries, omit_all, l):
    """per-slot signature of a step: parent state -> what the list says"""
    d = dict(entries)
    out = []
    for i in range(l):
        ps = 'F' if parent_pattern is None else (parent_pattern[i] if isinstance(parent_pattern[i], str) else 'X')
        if i in d:
            ls = 'h' if d[i] is None else 'v'
        else:
            ls = '-'
        out.append(ps + ls)
    return ','.join(out) + ('/omitAll' if omit_all else '')


def judge_keyop(sh, line, kw, kv, ident):
    op = kw['op']
    pat = kw['pattern']
    exp_l = len(free_slots(pat))

    def fail(aspect, msg):
        sh.violation('key:%s:%s' % (op, aspect), '%s [%s] %s -> %s' % (msg, ident, line[:300], kv), {'line': line, 'history': ident})
    if int(kv.get('overflow', 0)):
        fail('slot-array-overrun', 'wrote %s free slots into an array of %s (the size the Go binding allocates)' % (kv.get('l'), kv.get('alloc')))
    if int(kv['l']) != exp_l:
        fail('free-slot-count', 'key lists %s free slots, the accumulated pattern %s has %d' % (kv['l'], pstr(pat), exp_l))
    if 'a1same' in kv:
        nd = op in ('ndqualify', 'adjust')
        if nd and kv['a1same'] != '1':
            fail('a1-changed', 'non-delegable step changed a1')
        if not nd and kv['a1same'] != '0':
            fail('not-rerandomised', 're-randomising step left a1 unchanged')


def judge_checkkey(sh, line, kw, kv, ident, op):
    pat = kw['pattern']
    fs = free_slots(pat)

    def fail(aspect, msg):
        sh.violation('key:%s:%s' % (op, aspect), '%s [%s] %s -> %s' % (msg, ident, line[:300], kv), {'line': line, 'history': ident})
    idx = [] if kv['idx'] == '-' else [int(x) for x in kv['idx'].split(',')]
    if int(kv['l']) != len(fs) or idx != fs:
        fail('free-slot-list', 'free slots %s (l=%s), pattern %s has %s' % (idx, kv['l'], pstr(pat), fs))
    if kv['eqA'] != '1':
        fail('a0-equation', 'e(a0,g) != e(g2,g1) * e(g3*prod h_i^v_i, a1) for the accumulated pattern %s' % pstr(pat))
    eqb = '' if kv['eqB'] == '-' else kv['eqB']
    if '0' in eqb:
        fail('slot-equation', 'e(b_i,g) != e(h_i,a1) for some free slot (%s)' % eqb)
    if kv['bsig'] != '1':
        fail('bsig', 'signature component wrong')
    if kv['member'] != '1':
        fail('membership', 'a0/a1 outside the subgroup')
    if kv['dec'] != '1':
        fail('decrypt', 'key does not decrypt a fresh ciphertext for exactly its pattern %s' % pstr(pat))
    if kv['decmaster'] != '1':
        fail('decrypt-master', 'master key does not decrypt')


def build_exhaustive(sc, sh, pid, l, sig, part=None):
    """l=3: every keygen list, every documented one-step transition, both omit-all settings"""
    rng = sc.rng
    vals = VALUES + wkd.ALGEBRAIC + wkd.SPARSE_WORDS
    vi = [0]

    def val():
        vi[0] += 1
        return vals[vi[0] % len(vals)]
    per_slot = [None, 'v', 'h']
    lists = list(itertools.product(per_slot, repeat=l))
    mod, rem = (8, sh.index % 8) if part is None else (part[1], part[0])
    mine = [(lst, oa) for k, (lst, oa) in enumerate(itertools.product(lists, (False, True))) if k % mod == rem]
    for lst, oa in mine:
        entries = [(i, (val() if c == 'v' else None)) for i, c in enumerate(lst) if c is not None]
        hist = 'keygen(%s)' % wkd.alist(entries, oa)[:2] + transition_sig(None, entries, oa, l)
        kid, pat = sc.keyop('keygen', pid, l, entries, oa)
        sc.exp[-1][1]['ident'] = hist
        sc.checkkey(kid, pid, pat, 'keygen')
        sc.exp[-1][1]['ident'] = hist
        k2, pat2 = sc.keyop('ndkeygen', pid, l, entries, oa)
        sc.exp[-1][1]['ident'] = 'nd' + hist
        sc.checkkey(k2, pid, pat2, 'ndkeygen')
        sc.exp[-1][1]['ident'] = 'nd' + hist
        # every documented one-step transition from this key
        for oa2 in (False, True):
            for opt in wkd.qualify_options(pat, ['v']):
                ent2 = [(i, (val() if v == 'v' else v)) for (i, v) in opt]
                # fixed slots keep their own value; sometimes an equal-mod-r representative
                ent2 = [(i, (pat[i][1] if isinstance(pat[i], tuple) else v)) for (i, v) in ent2]
                if rng.random() < 0.3:
                    ent2 = [(i, (v + R if (isinstance(pat[i], tuple) and v is not None and v + R < (1 << 256)) else v)) for (i, v) in ent2]
                tsig = transition_sig(pat, ent2, oa2, l)
                for op in ('qualify', 'ndqualify'):
                    scratch = 200 + (sc.nkey * 7 + len(sc.lines)) % 48
                    saved = sc.nkey
                    sc.nkey = scratch
                    k3, pat3 = sc.keyop(op, pid, l, ent2, oa2, parent=kid, parent_pattern=pat)
                    sc.nkey = saved
                    sc.exp[-1][1]['ident'] = '%s -> %s(%s)' % (hist, op, tsig)
                    sc.exp[-1][1]['tsig'] = tsig
                    sc.checkkey(k3, pid, pat3, op)
                    sc.exp[-1][1]['ident'] = '%s -> %s(%s)' % (hist, op, tsig)
                    sc.exp[-1][1]['tsig'] = tsig
                    if rng.random() < 0.15:
                        further = rng.random() < 0.5
                        sc.nkey = 199
                        k4, pat4 = sc.resample(pid, k3, pat3, further)
                        sc.nkey = saved
                        sc.exp[-1][1]['ident'] = '%s -> %s -> resample(%d)' % (hist, op, further)
                        sc.checkkey(k4, pid, pat4, 'resample')
                        sc.exp[-1][1]['ident'] = '%s -> %s -> resample(%d)' % (hist, op, further)

        # directed adjustments that only toggle the omit-from-keys flag of one slot (the hidden entry carries the old value's bits)
        for i in free_slots(pat)[:2]:
            v = val()
            fl = fixed_list(pat)
            fixed_i, hidden_i = sorted(fl + [(i, v)]), sorted(fl + [(i, None)])
            # ... and adjustments that only change the slot's value to a NEAR MISS of the old one (same low or high words, one bit)
            near_i = sorted(fl + [(i, wkd.near(v, rng))])
            # ... and adjustments that give the slot BACK (fixed or hidden in `from`, not listed in `to`): the key regains free slots, which
            # land in the part of its slot array that the previous, shorter key did not use
            others = [j for j in free_slots(pat) if j != i][:1]
            fixed_2 = sorted(fl + [(i, v)] + [(j, val()) for j in others])
            for frm, to, tag in ((fixed_i, hidden_i, 'hide'), (hidden_i, fixed_i, 'unhide'), (fixed_i, near_i, 'revalue-near'), (fixed_i, sorted(fl), 'free-again'),
                                 (hidden_i, sorted(fl), 'free-again-hidden'), (fixed_2, sorted(fl), 'free-again-2'), (fixed_2, fixed_i, 'free-again-1of2')):
                saved = sc.nkey
                sc.nkey = 200 + (saved * 7 + len(sc.lines)) % 48
                k1 = sc.newkey()
                sc.nkey = saved
                carried = v if rng.random() < 0.75 else rng.choice([0, rng.getrandbits(256)])
                af, at = alist(frm, False, {i: carried}), alist(to, False, {i: carried})
                sc.add('ndqualify %d %d %d %d %s %d' % (k1, pid, kid, max(0, l - len(frm)), af, sc.seed()), 'keyop', op='ndqualify', pattern=wkd.qualify_pattern(pat, frm, False),
                       alloc=max(0, l - len(frm)), entries=frm, omit_all=False, parent_pattern=pat, ident=hist + ' -> ndqualify(from)')
                pat2 = wkd.qualify_pattern(pat, to, False)
                idn = '%s -> adjust(%s slot %d, hidden entry carries %s)' % (hist, tag, i, 'the same id' if carried == v else 'another id')
                sc.add('adjust %d %d %s %s' % (k1, kid, af, at), 'keyop', op='adjust', pattern=pat2, alloc=None, entries=to, omit_all=False, ident=idn, tsig='toggle-' + tag)
                sc.checkkey(k1, pid, pat2, 'adjust')
                sc.exp[-1][1]['ident'] = idn
                sc.exp[-1][1]['tsig'] = 'toggle-%s/%s' % (tag, 'same-id' if carried == v else 'other-id')


def random_entries(pattern, rng, l, first):
    """a documented list for the next step"""
    ent = []
    for i in range(l):
        s = 'F' if first else pattern[i]
        if isinstance(s, tuple):
            v = s[1]
            if rng.random() < 0.2 and v + R < (1 << 256):
                v += R
            ent.append((i, v))
        elif s == 'F':
            t = rng.random()
            if t < 0.3:
                ent.append((i, rng.choice(VALUES + [rng.getrandbits(256), rng.getrandbits(255), wkd.big_id(rng), wkd.big_id(rng)])))
            elif t < 0.45:
                ent.append((i, None))
        else:
            if rng.random() < 0.3:
                ent.append((i, None))
    return ent


def build_random(sc, sh, pid, l, sig, nhist, depth):
    rng = sc.rng
    for h in range(nhist):
        ent = random_entries(None, rng, l, True)
        oa = rng.random() < 0.2
        op = rng.choice(['keygen', 'keygen', 'ndkeygen'])
        kid, pat = sc.keyop(op, pid, l, ent, oa)
        ident = '%s(%s)' % (op, transition_sig(None, ent, oa, l))
        sc.exp[-1][1]['ident'] = ident
        sc.checkkey(kid, pid, pat, op)
        sc.exp[-1][1]['ident'] = ident
        delegable = op == 'keygen'
        for d in range(rng.randrange(1, depth + 1)):
            choices = ['ndqualify', 'ndqualify', 'adjust']
            if delegable:
                choices += ['qualify', 'qualify', 'qualify', 'resample']
            step = rng.choice(choices)
            if sc.nkey > 180:
                return
            if step in ('qualify', 'ndqualify'):
                ent = random_entries(pat, rng, l, False)
                oa = rng.random() < 0.15
                k2, pat2 = sc.keyop(step, pid, l, ent, oa, parent=kid, parent_pattern=pat)
                ident += ' -> %s(%s)' % (step, transition_sig(pat, ent, oa, l))
                if step == 'ndqualify':
                    delegable = False
            elif step == 'resample':
                further = rng.random() < 0.6
                k2, pat2 = sc.resample(pid, kid, pat, further)
                ident += ' -> resample(%d)' % further
            else:
                # adjust: qualify the current key non-delegably to `frm`, then adjust that key to `to`
                frm = random_entries(pat, rng, l, False)
                to = random_entries(pat, rng, l, False)
                if rng.random() < 0.35:
                    # same slots in the same positions, only ids (and possibly the list-level flag) differ: "nothing to rebuild" fast paths
                    to = [(i, (v if (v is None or isinstance(pat[i], tuple) or rng.random() < 0.3) else rng.choice(VALUES + [rng.getrandbits(256)]))) for i, v in frm]
                oa_to = rng.random() < 0.3
                fv = {i: v for i, v in frm if v is not None}
                to = [(i, (wkd.near(fv[i], rng) if (v is not None and i in fv and not isinstance(pat[i], tuple) and rng.random() < 0.5) else v)) for i, v in to]
                k1, pat1 = sc.keyop('ndqualify', pid, l, frm, False, parent=kid, parent_pattern=pat)
                sc.exp[-1][1]['ident'] = ident + ' -> ndqualify(from)'
                pat2 = wkd.qualify_pattern(pat, to, oa_to)
                af, at = wkd.alist_pair(frm, to, rng, oa_to)
                sc.add('adjust %d %d %s %s%s' % (k1, kid, af, '=' if rng.random() < 0.5 else '', at), 'keyop', op='adjust', pattern=pat2, alloc=None, entries=to, omit_all=oa_to,
                       ident=ident + ' -> adjust(%s => %s)' % (transition_sig(pat, frm, False, l), transition_sig(pat, to, oa_to, l)))
                k2 = k1
                ident += ' -> adjust'
                delegable = False
                sc.checkkey(k2, pid, pat2, 'adjust')
                sc.exp[-1][1]['ident'] = ident
                # the adjusted key is a leaf: continue the history from the unchanged parent
                continue
            sc.exp[-1][1]['ident'] = ident
            sc.checkkey(k2, pid, pat2, step)
            sc.exp[-1][1]['ident'] = ident
            kid, pat = k2, pat2


def worker(sh):
    rng = sh.rng
    sc = wkd.Script(rng)
    if sh.index < 8:
        sig = sh.index % 2 == 0
        sc.setup(0, 3, sig)
        build_exhaustive(sc, sh, 0, 3, sig)
        sh.count('exhaustive_l3_shards', 1)
    elif not sh.quick and sh.index < 14:
        # thorough: the same enumeration for l = 4 (162 keygen lists x every documented one-step list), split over six shards
        sc.setup(0, 4, sh.index % 2 == 0)
        build_exhaustive(sc, sh, 0, 4, sh.index % 2 == 0, part=(sh.index - 8, 6))
        sh.count('exhaustive_l4_shards', 1)
    else:
        ridx = sh.index - 8 if sh.quick else sh.index - 14
        # slot counts beyond every width a per-slot counter or bit mask could have (33, 65; thorough also 130 and 257)
        l = ([1, 5, 8, 20, 257, 33, 65, 12] if sh.quick else [1, 5, 8, 20, 2, 33, 65, 12, 130, 257])[ridx % (8 if sh.quick else 10)]
        sig = rng.random() < 0.5
        sc.setup(0, l, sig)
        nh = sh.pick(6, 120)
        build_random(sc, sh, 0, l, sig, nh if l <= 20 else max(2, nh * 12 // l), 5 if l <= 20 else 3)
    outs = session.run_all(sh, sh.payload['cfgs'], sc.lines)
    sh.count('scheme_ops_with_crafted_random_streams', getattr(sc, 'nstream', 0))
    for line, (kind, kw), out in zip(sc.lines, sc.exp, outs):
        if out is None:
            continue
        if kind == 'reobj':
            wkd.judge_reobj(sh, line, out)
            continue
        kv = wkd.parse_kv(out)
        ident = kw.get('ident', '')
        try:
            if kind == 'setup':
                for k in ('msk', 'pairing', 'gens', 'hsig'):
                    if kv[k] != '1':
                        sh.violation('setup:%s' % k, 'setup invariant %s violated: %s' % (k, out), {'line': line})
                if int(kv['l']) != kw['l'] or int(kv['sig']) != int(kw['sig']):
                    sh.violation('setup:fields', 'params.l / signatures wrong', {'line': line})
                sh.event('setup', 'l%d/sig%d' % (kw['l'], kw['sig']))
            elif kind == 'keyop':
                judge_keyop(sh, line, kw, kv, ident)
                sh.event(kw['op'], kw.get('tsig') or pstr(kw['pattern'])[:12])
            elif kind == 'checkkey':
                judge_checkkey(sh, line, kw, kv, ident, kw['how'])
                sh.event('check:' + kw['how'], (kw.get('tsig') or '') + '=>' + pstr(kw['pattern'])[:20])
                if sh.index in (0, 9):
                    sh.sample({'history': ident, 'pattern': pstr(kw['pattern']), 'monitor': ' '.join(out[1:])}, limit=3)
        except KeyError as e:
            sh.violation('malformed:%s' % kind, 'driver answer lacks %s: %s' % (e, out), {'line': line})


def run(ctx):
    cfgs = ['prod', 'san', 'p32'] if ctx.quick else ['prod', 'san', 'p64', 'p32', 'p32-san', 'p64-O0', 'gcc-p64']
    exes = session.build_exes({c: (c, 'wkd_drv.cpp', []) for c in cfgs})
    session.run_shards(ctx, worker, 16 if ctx.quick else 24, exes, {'cfgs': cfgs})
    ctx.rule = ('histories of keygen / qualifykey / nondelegable_keygen / nondelegable_qualifykey / adjust_nondelegable / resamplekey executed through the C API with slot arrays of '
                'exactly the size the Go binding allocates; after every step an in-process monitor checks the key against the slot-pattern model kept outside the library: '
                'free-slot list, e(a0,g)=e(g2,g1)e(g3 prod h_i^v_i,a1), e(b_i,g)=e(h_i,a1), bsig, subgroup membership, decryption of a fresh ciphertext for exactly the pattern by key '
                'and master key, a1 changed/kept. l=3: all 54 keygen lists x all documented one-step lists x both omit-all settings x {qualify, ndqualify}; l in {1,2,4,5,8,12,20}: random '
                'histories of depth <= 5. class = (operation, per-slot transition signature parent-state+list-entry)')
    ctx.extra['configs'] = cfgs
    ctx.extra['exhaustive'] = True
    ctx.extra['exhaustive_scope'] = 'l=3 one-step transitions (values sampled from %s)' % [hex(v) for v in VALUES]
    ctx.assumptions = ['library pairing/group arithmetic used as instrument by the monitor (independently checked by C01-C08)', 'slot-pattern model in checks/wkd.py']
    need = ['check:adjust|toggle-hide/same-id', 'check:adjust|toggle-unhide/same-id', 'check:qualify|', 'check:ndqualify|', 'check:keygen|', 'check:ndkeygen|', 'check:resample|', 'check:adjust|', 'setup|l3/sig1', 'setup|l3/sig0', 'setup|l20', 'setup|l33', 'setup|l65', 'setup|l257']
    for r in need:
        if not any(k.startswith(r) for k in ctx.classes):
            ctx.required_classes.add(r)
    if not any('Fh' in k and 'check:qualify' in k for k in ctx.classes) or not any('Hh' in k for k in ctx.classes):
        ctx.required_classes.add('hidden-transition-classes')
    return None
