"""C20 - the core library is self-contained, stateless and re-entrant."""
import os
import re
import shutil
import subprocess

import build
import harness

ALLOWED_UNDEFINED = {'memcpy', 'memmove', 'memset', 'memcmp', 'bcmp', '__udivti3', '__umodti3', '__udivdi3', '__umoddi3', '__divti3', '__modti3', '__multi3', '__ashlti3', '__lshrti3'}


def sh(cmd, **kw):
    return subprocess.run(cmd, stdout=subprocess.PIPE, stderr=subprocess.STDOUT, text=True, **kw)


def closure(ctx, work):
    libgcc = sh(['clang', '-print-libgcc-file-name']).stdout.strip()
    for cfg, extra in (('prod', []), ('p64', ['-DDISABLE_ASM']), ('p32', ['-DDISABLE_ASM', '-U__SIZEOF_INT128__'])):
        try:
            d, objs = build.build_lib(cfg)
        except build.BuildError as e:
            raise harness.HarnessError(str(e)[-1500:])
        # (i) undefined-symbol table of every object of the library
        nm = sh(['nm', '-u'] + objs).stdout
        defined = set()
        for l in sh(['nm', '--defined-only'] + objs).stdout.split('\n'):
            p = l.split()
            if len(p) == 3:
                defined.add(p[2])
        ext = sorted({l.split()[-1] for l in nm.split('\n') if l.strip().startswith('U ')} - defined)
        for s in ext:
            # compiler arithmetic helpers of libgcc / compiler-rt (integer division, multiplication, shifts, bit counting on 32/64/128-bit integers)
            helper = re.match(r'^__(u?div|u?mod|u?divmod|mul|ashl|ashr|lshr|neg|u?cmp|clz|ctz|ffs|popcount|parity|bswap)[sdt]i[234]$', s) is not None
            if s not in ALLOWED_UNDEFINED and not helper:
                ctx.violation('closure:undefined:%s' % s, 'library object files (%s build) reference external symbol %s (only C memory primitives and compiler arithmetic helpers are allowed)' % (cfg, s),
                              {'config': cfg, 'symbol': s})
            ctx.event('undefined-symbol-table', '%s/%s' % (cfg, s))
        ctx.extra.setdefault('external_symbols', {})[cfg] = ext
        # (i') a system call needs no symbol: look for the instructions themselves in the disassembly of every object (a path the
        # strace workload does not drive would otherwise go unseen)
        dis = sh(['objdump', '-d', '--no-show-raw-insn'] + objs).stdout
        nins = 0
        cur = '?'
        for l in dis.split('\n'):
            m = re.match(r'^[0-9a-f]+ <(.+)>:$', l)
            if m:
                cur = m.group(1)
                continue
            parts = l.split('\t')
            if len(parts) >= 2:
                nins += 1
                ins = parts[-1].strip().split(' ')[0]
                if ins in ('syscall', 'sysenter', 'int') and (ins != 'int' or '$0x80' in parts[-1]):
                    ctx.violation('closure:syscall-instruction:%s' % cur[:60], 'library object code (%s build) contains a %s instruction in %s' % (cfg, ins, cur), {'config': cfg, 'function': cur})
        if nins < 1000:
            raise harness.HarnessError('disassembly of the %s objects yielded only %d instructions' % (cfg, nins))
        ctx.event('no-syscall-instruction', cfg, n=nins)
        # (ii) executed: freestanding static link with a 40-line runtime
        rt = os.path.join(work, 'rt_%s.o' % cfg)
        sm = os.path.join(work, 'smoke_%s.o' % cfg)
        exe = os.path.join(work, 'closure_%s' % cfg)
        r = sh(['clang', '-O2', '-ffreestanding', '-fno-stack-protector', '-fno-builtin', '-c', os.path.join(harness.VERIF, 'drivers/closure/rt.c'), '-o', rt])
        if r.returncode:
            raise harness.HarnessError('rt.c: ' + r.stdout[-800:])
        r = sh(['clang++', '-std=c++17', '-O2', '-ffreestanding', '-fno-exceptions', '-fno-rtti', '-fno-stack-protector', '-I' + os.path.join(build.REPO, 'include')] + extra +
               ['-c', os.path.join(harness.VERIF, 'drivers/closure/smoke.cpp'), '-o', sm])
        if r.returncode:
            raise harness.HarnessError('smoke.cpp: ' + r.stdout[-800:])
        r = sh(['clang++', '-nostdlib', '-static', '-o', exe, rt, sm] + objs + [libgcc])
        if r.returncode:
            syms = sorted(set(re.findall(r"undefined reference to `([^']+)'", r.stdout)))
            if not syms:
                raise harness.HarnessError('closure link failed without undefined references: ' + r.stdout[-800:])
            for s in syms:
                ctx.violation('closure:link:%s' % s.split('(')[0], 'freestanding link of the %s library fails: undefined reference to %s' % (cfg, s), {'config': cfg, 'symbol': s, 'log': r.stdout[-1500:]})
            continue
        r = sh([exe], timeout=120)
        if r.returncode != 0 or 'CLOSURE-SMOKE-OK' not in r.stdout:
            ctx.violation('closure:run:%s' % cfg, 'freestanding smoke workload failed (exit %s): %s' % (r.returncode, r.stdout[-300:]), {'config': cfg})
        ctx.event('closure-executed', cfg)
        ctx.sample({'closure': cfg, 'external_symbols': ext, 'smoke': r.stdout.strip()[-40:]})


def syscalls(ctx, work, exe):
    log = os.path.join(work, 'strace.log')
    n = 3 if ctx.quick else 40
    r = sh(['strace', '-f', '-o', log, exe, '--syscalls', str(n), str(ctx.seed)], timeout=1800)
    if r.returncode == 3:
        raise harness.HarnessError('strace run failed: %s' % r.stdout[-500:])
    if r.returncode != 0:
        # the driver died inside a library operation: a verdict, not a harness problem
        ctx.violation('crash:syscall-run:%s' % (harness.classify_failure(r.returncode if r.returncode < 128 else 128 - r.returncode, r.stdout) or 'exit'),
                      'the C20 driver failed while running every API family sequentially (rc=%s): %s' % (r.returncode, r.stdout[-600:]), {'mode': 'syscalls', 'seed': ctx.seed})
        return
    lines = open(log).read().split('\n')
    try:
        b = next(i for i, l in enumerate(lines) if 'C20-MARK-BEGIN' in l)
        e = next(i for i, l in enumerate(lines) if 'C20-MARK-END' in l)
    except StopIteration:
        raise harness.HarnessError('markers not found in strace log')
    between = [l for l in lines[b + 1:e] if l.strip()]
    for l in between:
        m = re.match(r'^\d+\s+(\w+)\(', l)
        name = m.group(1) if m else 'unknown'
        ctx.violation('syscall:%s' % name, 'system call during library operations: %s' % l[:200], {'strace': l})
    input_changes(ctx, r.stdout, 'prod', 'strace run')
    ops = re.search(r'ops=(\d+)', r.stdout)
    ctx.event('no-syscalls', 'operations-between-markers', n=int(ops.group(1)) if ops else 1)
    ctx.extra['syscalls_total_in_process'] = len([l for l in lines if l.strip()])
    ctx.extra['syscalls_between_markers'] = len(between)


def snapshot(ctx, work, cfgname, exe, objs):
    # writable symbols of the library objects (any binding), resolved in the non-PIE executable
    names = set()
    # thread-local objects are mutable state kept between calls as well (per thread): the library may not define any.  They are
    # reported by name and kept out of the address table (their "addresses" are offsets into the TLS block)
    tls = set()
    for l in sh(['readelf', '-sW'] + objs).stdout.split('\n'):
        p = l.split()
        if len(p) >= 8 and p[3] == 'TLS' and p[6] != 'UND':
            tls.add(p[7])
    for n in sorted(tls):
        ctx.violation('mutable-state:thread-local:%s' % n[:80], 'library objects (%s build) define the thread-local object %s: state that survives between calls' % (cfgname, n), {'config': cfgname, 'symbol': n})
    for l in sh(['nm', '-S'] + objs).stdout.split('\n'):
        p = l.split()
        if len(p) == 4 and p[2] in 'DdBb' and p[3] not in tls:
            names.add(p[3])
    table = []
    for l in sh(['nm', '-S', exe]).stdout.split('\n'):
        p = l.split()
        if len(p) == 4 and p[2] in 'DdBb' and p[3] in names:
            table.append((p[0], int(p[1], 16), p[3]))
    if not table:
        raise harness.HarnessError('no writable library symbols resolved in %s' % exe)
    f = os.path.join(work, 'symbols_%s.txt' % cfgname)
    with open(f, 'w') as fh:
        for a, s, n in table:
            fh.write('%s %d %s\n' % (a, s, n))
    r = sh([exe, '--snapshot', f, str(2 if ctx.quick else 20), str(ctx.seed)], timeout=1800)
    if r.returncode != 0:
        if tls:
            return          # already reported; the table of a build with TLS objects is not trustworthy
        if r.returncode == 3:
            raise harness.HarnessError('snapshot run failed: %s' % r.stdout[-500:])
        ctx.violation('crash:snapshot-run:%s:%s' % (cfgname, harness.classify_failure(r.returncode if r.returncode < 128 else 128 - r.returncode, r.stdout) or 'exit'),
                      'the C20 driver failed while running every API family sequentially on the %s build (rc=%s): %s' % (cfgname, r.returncode, r.stdout[-600:]), {'mode': 'snapshot', 'config': cfgname, 'seed': ctx.seed})
        return
    input_changes(ctx, r.stdout, cfgname, 'snapshot run')
    for l in r.stdout.split('\n'):
        if l.startswith('CHANGED '):
            n = l.split()[1]
            ctx.violation('mutable-state:%s' % n, 'writable library symbol %s changed during API calls (%s build)' % (n, cfgname), {'config': cfgname, 'symbol': n})
    for a, s, n in table:
        ctx.event('writable-symbol-unchanged', '%s/%s' % (cfgname, n))
    ctx.extra.setdefault('writable_symbols', {})[cfgname] = [n for _, _, n in table]


SNAP_WORKLOADS = [('c04', 'opdrv.cpp'), ('c02', 'opdrv.cpp'), ('c05', 'opdrv.cpp'), ('c06', 'opdrv.cpp'), ('c07', 'opdrv.cpp'), ('c01', 'opdrv.cpp'), ('c08', 'opdrv.cpp'),
                  ('c09', 'opdrv.cpp'), ('c10', 'opdrv.cpp'), ('c11', 'wkd_drv.cpp'), ('c13', 'wkd_drv.cpp'), ('c14', 'wkd_drv.cpp'), ('c15', 'scheme_drv.cpp'), ('c16', 'scheme_drv.cpp')]


def snapshot_workloads(ctx, work, objs):
    """the writable-symbol snapshot over the workloads of the other properties: the C20 driver only calls the C interface, the other drivers
    also call the C++-only entry points (field / tower / curve methods, map_to_cyclotomic, the multiplication variants ...).  Each driver
    copies the library's writable symbols when main starts and compares them when it exits."""
    import importlib
    import session
    names = set()
    for l in sh(['nm', '-S'] + objs).stdout.split('\n'):
        p = l.split()
        if len(p) == 4 and p[2] in 'DdBb':
            names.add(p[3])
    total = 0
    exes = {}
    for drv in sorted({d for _, d in SNAP_WORKLOADS}):
        exe = build.build_driver('prod', drv, extra_ld=['-no-pie'], name=drv.replace('.cpp', '') + '_nopie')
        f = os.path.join(work, 'symbols_%s.txt' % drv)
        n = 0
        with open(f, 'w') as fh:
            for l in sh(['nm', '-S', exe]).stdout.split('\n'):
                p = l.split()
                if len(p) == 4 and p[2] in 'DdBb' and p[3] in names:
                    fh.write('%s %d %s\n' % (p[0], int(p[1], 16), p[3]))
                    n += 1
        if not n:
            raise harness.HarnessError('no writable library symbols resolved in %s' % exe)
        exes[drv] = (exe, ['--snapshot', f])
    import multiprocessing as mp

    def proc(name, drv, conn):
        try:
            mod = importlib.import_module(name)
            sub = harness.Ctx(name.upper(), 'quick', ctx.seed)
            ex = {'prod': exes[drv], 'san': exes[drv]} if name == 'c15' else {'snap': exes[drv]}
            session.run_shards(sub, mod.worker, 16, ex, {'cfgs': ['snap']}, only=[0, 1, 9] if ctx.quick else [0, 1, 2, 5, 9, 13])
            conn.send({'violations': [v for v in sub.violations if 'mutable-state:' in v['key']], 'n': sub.evaluations, 'error': None})
        except Exception as e:
            conn.send({'violations': [], 'n': 0, 'error': '%s: %s' % (name, str(e)[-600:])})
        conn.close()
    procs = []
    for name, drv in SNAP_WORKLOADS:
        pc, cc = mp.Pipe(False)
        pr = mp.get_context('fork').Process(target=proc, args=(name, drv, cc))
        pr.start()
        procs.append((name, pr, pc))
    for name, pr, pc in procs:
        if not pc.poll(1800):
            pr.kill()
            raise harness.HarnessError('snapshot over the workload of %s did not finish in time (inconclusive)' % name)
        res = pc.recv()
        pr.join(30)
        if res['error']:
            raise harness.HarnessError('snapshot over a workload: %s' % res['error'])
        for v in res['violations']:
            syms = v['key'].split('mutable-state:', 1)[1]
            for n in syms.split('+'):
                ctx.violation('mutable-state:%s' % n, 'writable library symbol %s changed during the workload of %s (prod build): the library keeps state between calls' % (n, name.upper()), v['replay'])
        ctx.event('writable-symbols-unchanged-over-workload', name.upper(), n=max(1, res['n']))
        total += res['n']
    ctx.extra['snapshot_workload_events'] = total


def input_changes(ctx, out, cfg, how):
    """INPUT-CHANGED lines of the driver: a const input object differs from its snapshot after the workload"""
    for l in out.split('\n'):
        m = re.match(r'INPUT-CHANGED phase=(\S+) field=(\S+) offset=(\d+)', l)
        if m:
            ctx.violation('input-modified:%s' % m.group(2), 'the library wrote to an object it received as a const input (field %s of the shared inputs, first changed byte %s, %s phase, %s build, %s): '
                          'concurrent calls sharing that input are no longer independent' % (m.group(2), m.group(3), m.group(1), cfg, how), {'config': cfg, 'field': m.group(2)})


def readonly_inputs(ctx, cfgs):
    """production builds: the shared inputs live in read-only pages while every family runs sequentially and then on 8 threads"""
    for cfg in cfgs:
        try:
            exe = build.build_driver(cfg, 'c20_drv.cpp', extra_ld=['-lpthread'])
        except build.BuildError as e:
            raise harness.HarnessError(str(e)[-1500:])
        for rep in range(2 if ctx.quick else 10):
            seed = ctx.seed * 977 + rep
            rc, out, err = harness.run_driver(exe, None, args=['--roinputs', '8', str(16 if ctx.quick else 48), str(seed)], timeout=1800)
            m = re.search(r'WRITE-TO-SHARED-INPUT family=(\S+) field=(\S+)', out)
            if m:
                ctx.violation('input-written:%s:%s' % (m.group(1), m.group(2)), 'a %s operation wrote into a read-only input object (field %s) [%s build, seed %d]' % (m.group(1), m.group(2), cfg, seed),
                              {'config': cfg, 'seed': seed, 'mode': 'roinputs'})
                continue
            if rc != 0:
                ctx.violation('threads:crash:%s' % harness.classify_failure(rc, err), 'read-only-input run failed rc=%s: %s' % (rc, err[-800:]), {'config': cfg, 'seed': seed})
                continue
            mm = re.search(r'threads=(\d+) ops=(\d+) mismatches=(\d+) .* readonly=1', out)
            if not mm:
                raise harness.HarnessError('read-only-input run printed no summary: %s' % out[-300:])
            if int(mm.group(3)):
                fam = re.findall(r'MISMATCH thread=\d+ op=\d+ family=(\S+)', out)
                ctx.violation('threads:result-differs:%s' % (fam[0] if fam else '?'), 'concurrent calls returned results different from the sequential replay (%s build, read-only inputs, seed %d)' % (cfg, seed),
                              {'config': cfg, 'seed': seed, 'mode': 'roinputs'})
            input_changes(ctx, out, cfg, 'read-only run')
            ctx.event('read-only-inputs', cfg, n=int(mm.group(2)))


def helgrind(ctx, cfgs):
    """valgrind helgrind over the PRODUCTION code generation: unlike TSan it also sees the loads and stores of the assembly routines"""
    vg = shutil.which('valgrind')
    if not vg:
        raise harness.HarnessError('valgrind not found')
    for cfg in cfgs:
        try:
            exe = build.build_driver(cfg, 'c20_drv.cpp', extra_ld=['-lpthread'])
        except build.BuildError as e:
            raise harness.HarnessError(str(e)[-1500:])
        for rep in range(2 if ctx.quick else 6):
            T = (4, 8)[rep % 2]
            n = 10 if ctx.quick else 24
            seed = ctx.seed * 313 + rep
            r = subprocess.run([vg, '--tool=helgrind', '-q', '--error-exitcode=96', '--num-callers=16', exe, '--threads', str(T), str(n), str(seed)],
                               stdout=subprocess.PIPE, stderr=subprocess.PIPE, text=True, timeout=3000)
            if re.search(r'^==\d+== ', r.stderr, re.M):
                blocks = re.split(r'==\d+== -{20,}', r.stderr)
                seen = set()
                for blk in blocks:
                    k = harness.classify_valgrind(blk)
                    if not k or k in seen:
                        continue
                    seen.add(k)
                    ctx.violation('helgrind:%s' % k.split(':', 1)[1], 'helgrind report (%s build, %d threads, seed %d): %s' % (cfg, T, seed, blk[:1500]), {'config': cfg, 'threads': T, 'seed': seed, 'ops': n, 'tool': 'helgrind'})
            elif r.returncode != 0:
                ctx.violation('threads:crash:%s' % harness.classify_failure(r.returncode, r.stderr), 'helgrind run failed rc=%s: %s' % (r.returncode, r.stderr[-800:]), {'config': cfg, 'seed': seed})
                continue
            m = re.search(r'threads=(\d+) ops=(\d+) mismatches=(\d+) overlapping_pairs=(\d+)', r.stdout)
            if not m:
                raise harness.HarnessError('helgrind run printed no summary: %s %s' % (r.stdout[-300:], r.stderr[-300:]))
            if int(m.group(3)):
                fam = re.findall(r'MISMATCH thread=\d+ op=\d+ family=(\S+)', r.stdout)
                ctx.violation('threads:result-differs:%s' % (fam[0] if fam else '?'), 'concurrent calls under helgrind returned results different from the sequential replay', {'config': cfg, 'seed': seed, 'tool': 'helgrind'})
            input_changes(ctx, r.stdout, cfg, 'helgrind run')
            ctx.event('concurrent-run', 'helgrind-%s/T%d' % (cfg, T), n=int(m.group(2)))


def tsan_key(err):
    """dedupe a TSan report by its outermost library frames"""
    frames = re.findall(r'#\d+ (\S+) ', err)
    lib = [f for f in frames if 'embedded_pairing' in f or f.startswith('_ZN16embedded_pairing')]
    return (lib[0] if lib else (frames[0] if frames else 'unknown'))[:80]


def threads(ctx, cfgs):
    total_pairs = 0
    matrix = {}
    for cfg in cfgs:
        try:
            exe = build.build_driver(cfg, 'c20_drv.cpp')
        except build.BuildError as e:
            raise harness.HarnessError(str(e)[-1500:])
        reps = 6 if ctx.quick else (20 if cfg == cfgs[0] else 4)      # the portable TSan builds are 3-5x slower: fewer schedules there
        for rep in range(reps):
            T = (4, 8, 16)[rep % 3]
            n = 24 if ctx.quick else 60
            seed = ctx.seed * 1000 + rep
            rc, out, err = harness.run_driver(exe, None, args=['--threads', str(T), str(n), str(seed)], timeout=1800,
                                              env={'TSAN_OPTIONS': 'halt_on_error=0:exitcode=97:history_size=4'})
            if 'ThreadSanitizer' in err:
                for blk in err.split('WARNING: ThreadSanitizer')[1:]:
                    ctx.violation('tsan:%s:%s' % (re.sub(r'_?\(pid=\d+\)', '', blk.split('\n')[0].strip(': ')[:40].replace(' ', '_')), tsan_key(blk)),
                                  'ThreadSanitizer report (%s build, %d threads, seed %d): %s' % (cfg, T, seed, blk[:1500]), {'config': cfg, 'threads': T, 'seed': seed, 'ops': n})
            elif rc != 0:
                ctx.violation('threads:crash:%s' % harness.classify_failure(rc, err), 'threaded run failed rc=%s: %s' % (rc, err[-800:]), {'config': cfg, 'threads': T, 'seed': seed})
            m = re.search(r'threads=(\d+) ops=(\d+) mismatches=(\d+) overlapping_pairs=(\d+) distinct_family_pairs=(\d+)', out)
            if not m:
                if rc == 0:
                    raise harness.HarnessError('threaded run printed no summary: %s %s' % (out[-300:], err[-300:]))
                continue
            if int(m.group(3)):
                fam = re.findall(r'MISMATCH thread=\d+ op=\d+ family=(\S+)', out)
                ctx.violation('threads:result-differs:%s' % (fam[0] if fam else '?'), 'concurrent calls returned results different from the sequential replay (%s of %s operations; %s build, %d threads, seed %d)'
                              % (m.group(3), m.group(2), cfg, T, seed), {'config': cfg, 'threads': T, 'seed': seed, 'ops': n, 'detail': out[:600]})
            input_changes(ctx, out, cfg, '%d threads, seed %d' % (T, seed))
            total_pairs += int(m.group(4))
            for a, b, c in re.findall(r' ([\w-]+)\+([\w-]+)=(\d+)', out):
                matrix['%s+%s' % (a, b)] = matrix.get('%s+%s' % (a, b), 0) + int(c)
            ctx.event('concurrent-run', '%s/T%d' % (cfg, T), n=int(m.group(2)))
    for k, v in matrix.items():
        ctx.event('overlap-observed', k, n=v)
    ctx.extra['overlapping_operation_pairs_observed'] = total_pairs
    ctx.extra['distinct_family_pairs_overlapping'] = len(matrix)
    ctx.extra['overlap_matrix'] = dict(sorted(matrix.items()))
    if total_pairs < 50:
        raise harness.HarnessError('only %d overlapping operation pairs observed: the schedule exercised no concurrency' % total_pairs)


def run(ctx):
    work = os.path.join(harness.VERIF, 'work', 'c20-%d' % os.getpid())
    os.makedirs(work, exist_ok=True)
    try:
        closure(ctx, work)
        # (the 32-bit-word code is a configuration of its own - code under #if on the word size exists only there - so its writable symbols
        #  are snapshotted in the quick tier too)
        for cfg in (['prod', 'p32'] if ctx.quick else ['prod', 'p64', 'p32']):
            try:
                d, objs = build.build_lib(cfg)
                exe = build.build_driver(cfg, 'c20_drv.cpp', extra_ld=['-no-pie', '-lpthread'], name='c20_drv_nopie')
            except build.BuildError as e:
                raise harness.HarnessError(str(e)[-1500:])
            if cfg == 'prod':
                syscalls(ctx, work, exe)
            snapshot(ctx, work, cfg, exe, objs)
            if cfg == 'prod':
                snapshot_workloads(ctx, work, objs)
        readonly_inputs(ctx, ['prod'] if ctx.quick else ['prod', 'p64', 'p32'])
        threads(ctx, ['tsan'] if ctx.quick else ['tsan', 'p64-tsan', 'p32-tsan'])
        helgrind(ctx, ['prod-g'])
    finally:
        shutil.rmtree(work, ignore_errors=True)
    ctx.rule = ('(1) closure: undefined-symbol table of every library object (prod/portable-64/portable-32) against the allowed set, and a freestanding -nostdlib -static link with a runtime '
                'providing only memcpy/memmove/memset/memcmp/bcmp + libgcc that runs the static initialisers and a pairing/WKD-IBE/LQ-IBE smoke workload; (2) strace: no system call between two '
                'markers bracketing operations of all 15 API families; (3) every writable symbol of the library objects is snapshotted after load and compared after the workload; '
                '(4) TSan builds: 4/8/16 threads released from a barrier run seeded mixes of all families on private outputs sharing const inputs (params, keys, prepared G2), often the very same '
                'operation at once; no TSan report, results equal to a sequential replay; the evidence lists which family pairs were actually observed overlapping; '
                '(5) const inputs stay const: the shared inputs (parameters, keys, attribute lists with identities >= r and >= 2r and hidden entries, scalars >= r, prepared G2, hash inputs) are '
                'byte-compared with a snapshot after every workload, and production builds run every family sequentially and on 8 threads with those inputs in read-only pages (a write faults and '
                'names the family and the field); (6) valgrind helgrind over the production build, which also observes the memory accesses of the assembly routines')
    ctx.assumptions = ['TSan does not see inside the assembly routines (helgrind on the production build does, at lower volume)', 'a finite number of schedules is observed, not all interleavings']
    need = ['writable-symbols-unchanged-over-workload|C04', 'writable-symbols-unchanged-over-workload|C11', 'writable-symbols-unchanged-over-workload|C15', 'concurrent-run|helgrind-prod-g/T4', 'read-only-inputs|prod', 'closure-executed|prod', 'closure-executed|p64', 'closure-executed|p32', 'no-syscalls|', 'writable-symbol-unchanged|prod/', 'concurrent-run|tsan/T4', 'concurrent-run|tsan/T8']
    for r in need:
        if not any(k.startswith(r) for k in ctx.classes):
            ctx.required_classes.add(r)
    return None
