"""C04 - extension-field tower Fq2/Fq6/Fq12 implements the defining polynomial arithmetic."""
import random

import session
import codec as C
from oracle import bls as O

Q = O.Q
ENC = {'Fq2': C.enc_fq2, 'Fq6': C.enc_fq6, 'Fq12': C.enc_fq12}
DEC = {'Fq2': C.dec_fq2, 'Fq6': C.dec_fq6, 'Fq12': C.dec_fq12}
NCOEF = {'Fq2': 2, 'Fq6': 6, 'Fq12': 12}
CYC_EXP = (Q ** 6 - 1) * (Q ** 2 + 1)


# ---- reference arithmetic per level (schoolbook tower for Fq2/Fq6, flat for Fq12, cross-checked)
def to_flat(level, a):
    if level == 'Fq2':
        return O.tower_to_flat((((a), O.F2_ZERO, O.F2_ZERO), O.F6_ZERO))
    if level == 'Fq6':
        return O.tower_to_flat((a, O.F6_ZERO))
    return O.tower_to_flat(a)


def from_flat(level, f):
    t = O.flat_to_tower(f)
    if level == 'Fq12':
        return t
    assert O.f6_is_zero(t[1]), 'result left the subfield'
    if level == 'Fq6':
        return t[0]
    assert O.f2_is_zero(t[0][1]) and O.f2_is_zero(t[0][2])
    return t[0][0]


def r_add(level, a, b):
    return {'Fq2': O.f2_add, 'Fq6': O.f6_add, 'Fq12': O.f12_add}[level](a, b)


def r_sub(level, a, b):
    return {'Fq2': O.f2_sub, 'Fq6': O.f6_sub, 'Fq12': O.f12_sub}[level](a, b)


def r_neg(level, a):
    return {'Fq2': O.f2_neg, 'Fq6': O.f6_neg, 'Fq12': O.f12_neg}[level](a)


def r_mul(level, a, b):
    if level == 'Fq2':
        return O.f2_mul(a, b)
    if level == 'Fq6':
        return O.f6_mul(a, b)
    return O.f12_mul(a, b)


def r_pow(level, a, e):
    return from_flat(level, O.flat_pow(to_flat(level, a), e))


def r_frob(level, a, k):
    if level == 'Fq2':
        return O.f2_frobenius(a, k)
    return from_flat(level, O.flat_frobenius(to_flat(level, a), k))


def is_zero(level, a):
    return all(x == 0 for x in coeffs(level, a))


def coeffs(level, a):
    if level == 'Fq2':
        return list(a)
    if level == 'Fq6':
        return [x for c in a for x in c]
    return [x for h in a for c in h for x in c]


def from_coeffs(level, cs):
    if level == 'Fq2':
        return (cs[0], cs[1])
    if level == 'Fq6':
        return tuple((cs[2 * i], cs[2 * i + 1]) for i in range(3))
    return (from_coeffs('Fq6', cs[:6]), from_coeffs('Fq6', cs[6:]))


def one(level):
    return from_coeffs(level, [1] + [0] * (NCOEF[level] - 1))


SPECIAL = [0, 1, Q - 1, 2, Q - 2, (Q - 1) // 2]


def rand_elem(level, rng, shape=None):
    n = NCOEF[level]
    shape = shape or rng.choice(['rand', 'rand', 'rand', 'special', 'sparse', 'subfield', 'mixed', 'mont-sparse'])
    if shape == 'rand':
        cs = [rng.randrange(Q) for _ in range(n)]
    elif shape == 'mont-sparse':
        # coefficients whose INTERNAL (Montgomery) limbs are sparse: low words zero in every coefficient, single words, single bits
        rinv = pow(1 << 384, -1, Q)
        low0 = rng.choice([0, 32, 64, 192, 192, 320])

        def one():
            v = 0
            for w in range(low0 // 32, 12):
                if rng.random() < 0.4:
                    v |= rng.choice([1, 0xffffffff, 0x80000000, rng.getrandbits(32) | 1]) << (32 * w)
            v = (v or (1 << low0)) % Q
            return v * rinv % Q
        cs = [one() if rng.random() < 0.8 else 0 for _ in range(n)]
        if not any(cs):
            cs[0] = one()
    elif shape == 'special':
        cs = [rng.choice(SPECIAL) for _ in range(n)]
    elif shape == 'sparse':
        cs = [0] * n
        for _ in range(rng.randrange(1, 3)):
            cs[rng.randrange(n)] = rng.choice([1, Q - 1, rng.randrange(Q)])
    elif shape == 'subfield':
        cs = [0] * n
        k = rng.choice([1, 2] if n > 2 else [1])
        for i in range(k):
            cs[i] = rng.randrange(Q)
        if level == 'Fq12' and rng.random() < 0.5:      # element of Fq6
            cs = [rng.randrange(Q) for _ in range(6)] + [0] * 6
    else:
        cs = [rng.choice([0, 1, Q - 1, rng.randrange(Q)]) for _ in range(n)]
    return from_coeffs(level, cs), shape


def shape_of(level, a):
    cs = coeffs(level, a)
    nz = sum(1 for x in cs if x)
    if nz == 0:
        return 'zero'
    if cs == coeffs(level, one(level)):
        return 'one'
    sp = all(x in SPECIAL for x in cs)
    if nz == len(cs):
        return 'dense-special' if sp else 'dense'
    if level != 'Fq2' and all(x == 0 for x in cs[2:]):
        return 'in-Fq2' if cs[1] else 'in-Fq'
    if level == 'Fq2' and cs[1] == 0:
        return 'in-Fq'
    if level == 'Fq12' and all(x == 0 for x in cs[6:]):
        return 'in-Fq6'
    return 'sparse%d' % nz


def near_unitary_fq12(rng, m=None, kind=None):
    """Fq12 elements whose relative norm to Fq6, N = c0^2 - v*c1^2, is 1 (unitary), -1, or 1 + t*v^m for a single Fq2 coefficient t (in Fq, purely
    imaginary, or general): the values an inversion by norms passes through, perturbed in one coordinate.  All twelve coordinates of the element
    itself are random-looking (c1 is random, c0 a square root in Fq6); a random element has such a norm with probability q^-5 or less."""
    z2, one2 = (0, 0), (1, 0)
    m = rng.randrange(3) if m is None else m
    kind = kind or rng.choice(['unitary', 'minus-one', 't-in-Fq', 't-imaginary', 't-general'])
    for _ in range(40):
        k = rng.choice([1, Q - 1, 2, rng.randrange(1, Q)])
        t = {'unitary': z2, 'minus-one': (Q - 2, 0), 't-in-Fq': (k, 0), 't-imaginary': (0, k), 't-general': (k, rng.randrange(1, Q))}[kind]
        want = [one2, z2, z2]
        want[0 if kind == 'minus-one' else m] = O.f2_add(want[0 if kind == 'minus-one' else m], t)
        want = tuple(want)
        c1 = tuple((rng.randrange(Q), rng.randrange(Q)) for _ in range(3))
        c0 = O.f6_sqrt(O.f6_add(want, O.f6_mul_by_v(O.f6_mul(c1, c1))))
        if c0 is None:
            continue
        a = (c0, c1)
        assert O.f6_sub(O.f6_mul(c0, c0), O.f6_mul_by_v(O.f6_mul(c1, c1))) == want
        return a, 'relative-norm=%s' % (kind if kind in ('unitary', 'minus-one') else '1+%s*v^%d' % (kind, m))
    raise AssertionError('no near-unitary element found')


class Gen:
    def __init__(self):
        self.lines = []
        self.meta = []

    def add(self, line, *meta):
        self.lines.append(line)
        self.meta.append(meta)


FROB_POWERS = list(range(0, 14)) + [23, 24, 25, (1 << 31), (1 << 31) + 5, (1 << 32) - 1, (1 << 32) - 12]


def gen(sh, g, rng, n, cyc_pool):
    levels = ['Fq2', 'Fq6', 'Fq12']
    for _ in range(n):
        L = rng.choice(levels)
        e = ENC[L]
        a, sa = rand_elem(L, rng)
        b, sb = rand_elem(L, rng)
        ops = ['add', 'sub', 'mul', 'mul', 'sqr', 'dbl', 'neg', 'inv', 'frob', 'frob', 'eq', 'iszero', 'wr', 'rd', 'exp']
        if L == 'Fq2':
            ops += ['mulnr', 'norm', 'leg', 'sqrt', 'sqrt']
        if L == 'Fq6':
            ops += ['mulnr', 'mulc1', 'mulc01', 'mulc1', 'mulc01']
        if L == 'Fq12':
            ops += ['conj', 'mulc014', 'mulc014', 'mulc014', 'sqcyc', 'sqcyc']
        op = rng.choice(ops)
        if op in ('add', 'sub', 'mul'):
            g.add('%s.%s %s %s' % (L, op, e(a), e(b)), L, op, a, b)
        elif op == 'eq':
            if rng.random() < 0.4:
                b = a
            elif rng.random() < 0.3:
                cs = coeffs(L, a)
                i = rng.randrange(len(cs))
                cs[i] = (cs[i] + 1) % Q
                b = from_coeffs(L, cs)
            g.add('%s.eq %s %s' % (L, e(a), e(b)), L, op, a, b)
        elif op in ('sqr', 'dbl', 'neg', 'inv', 'iszero', 'wr', 'mulnr', 'norm', 'leg', 'conj'):
            g.add('%s.%s %s' % (L, op, e(a)), L, op, a)
        elif op == 'frob':
            k = rng.choice(FROB_POWERS)
            g.add('%s.frob %s %d' % (L, e(a), k), L, op, a, k)
        elif op == 'rd':
            nb = 48 * NCOEF[L]
            raw = rng.getrandbits(8 * nb).to_bytes(nb, 'big')
            if rng.random() < 0.3:
                # canonical bytes: round trip must be the identity
                raw = b''.join(x.to_bytes(48, 'big') for x in reversed(coeffs(L, a)))
            g.add('%s.rd %s' % (L, raw.hex()), L, op, raw)
        elif op == 'exp':
            ex = rng.choice([0, 1, 2, 3, rng.getrandbits(16), rng.getrandbits(256), (1 << 256) - 1, Q % (1 << 256)])
            g.add('%s.exp %s %s' % (L, e(a), C.le(ex, 32)), L, op, a, ex)
        elif op == 'sqrt':
            if rng.random() < 0.85:
                a = O.f2_sqr(a)
            g.add('Fq2.sqrt %s' % e(a), L, op, a)
        elif op == 'mulc1':
            c1, _ = rand_elem('Fq2', rng)
            g.add('Fq6.mulc1 %s %s' % (e(a), C.enc_fq2(c1)), L, op, a, c1)
        elif op == 'mulc01':
            c0, _ = rand_elem('Fq2', rng)
            c1, _ = rand_elem('Fq2', rng)
            g.add('Fq6.mulc01 %s %s %s' % (e(a), C.enc_fq2(c0), C.enc_fq2(c1)), L, op, a, c0, c1)
        elif op == 'mulc014':
            c0, _ = rand_elem('Fq2', rng)
            c1, _ = rand_elem('Fq2', rng)
            c4, _ = rand_elem('Fq2', rng)
            g.add('Fq12.mulc014 %s %s %s %s' % (e(a), C.enc_fq2(c0), C.enc_fq2(c1), C.enc_fq2(c4)), L, op, a, c0, c1, c4)
        elif op == 'sqcyc':
            # an element of the cyclotomic subgroup: product of powers of pool members
            x = O.FLAT_ONE
            for _ in range(rng.randrange(1, 3)):
                base, tag = rng.choice(cyc_pool)
                x = O.flat_mul(x, O.flat_pow(base, rng.choice([1, 2, 3, rng.getrandbits(32), O.R - 1, rng.getrandbits(128)])))
            g.add('Fq12.sqcyc %s' % C.enc_flat(x), L, op, O.flat_to_tower(x), tag)


def gen_directed(g, rng, cyc_pool, heavy):
    # exhaustive special-component elements for Fq2 x Fq2 multiplication / squaring / inversion
    sp = [0, 1, Q - 1, 2]
    f2s = [(x, y) for x in sp for y in sp]
    for a in f2s:
        for b in f2s:
            g.add('Fq2.mul %s %s' % (C.enc_fq2(a), C.enc_fq2(b)), 'Fq2', 'mul', a, b)
        for op in ('sqr', 'inv', 'mulnr', 'norm', 'leg', 'neg', 'dbl', 'iszero'):
            g.add('Fq2.%s %s' % (op, C.enc_fq2(a)), 'Fq2', op, a)
        g.add('Fq2.sqrt %s' % C.enc_fq2(O.f2_sqr(a)), 'Fq2', 'sqrt', O.f2_sqr(a))
    # unit vectors at every position times unit vectors: exposes any wrong cross term / reduction constant
    for L in ('Fq6', 'Fq12'):
        n = NCOEF[L]
        for i in range(n):
            for j in range(n):
                a = from_coeffs(L, [1 if t == i else 0 for t in range(n)])
                b = from_coeffs(L, [(Q - 1) if t == j else 0 for t in range(n)])
                g.add('%s.mul %s %s' % (L, ENC[L](a), ENC[L](b)), L, 'mul', a, b)
            a = from_coeffs(L, [rng.randrange(Q) if t == i else 0 for t in range(n)])
            for op in ('sqr', 'inv'):
                g.add('%s.%s %s' % (L, op, ENC[L](a)), L, op, a)
            for k in FROB_POWERS:
                g.add('%s.frob %s %d' % (L, ENC[L](a), k), L, 'frob', a, k)
    for L in ('Fq2', 'Fq6', 'Fq12'):
        for k in FROB_POWERS:
            a, _ = rand_elem(L, rng, 'rand')
            g.add('%s.frob %s %d' % (L, ENC[L](a), k), L, 'frob', a, k)
        for v in (one(L), from_coeffs(L, [0] * NCOEF[L]), from_coeffs(L, [Q - 1] + [0] * (NCOEF[L] - 1))):
            for op in ('sqr', 'inv', 'neg', 'dbl', 'iszero', 'wr'):
                g.add('%s.%s %s' % (L, op, ENC[L](v)), L, op, v)
            w, _ = rand_elem(L, rng, 'rand')
            g.add('%s.mul %s %s' % (L, ENC[L](v), ENC[L](w)), L, 'mul', v, w)
            g.add('%s.mul %s %s' % (L, ENC[L](w), ENC[L](v)), L, 'mul', w, v)
    # sparse shapes with zero members
    z2 = (0, 0)
    for _ in range(6):
        a, _ = rand_elem('Fq12', rng, 'rand')
        r = lambda: rand_elem('Fq2', rng, 'rand')[0]
        for (c0, c1, c4) in ((z2, r(), r()), (r(), z2, r()), (r(), r(), z2), (z2, z2, r()), (z2, z2, z2), (O.F2_ONE, z2, z2)):
            g.add('Fq12.mulc014 %s %s %s %s' % (C.enc_fq12(a), C.enc_fq2(c0), C.enc_fq2(c1), C.enc_fq2(c4)), 'Fq12', 'mulc014', a, c0, c1, c4)
        a6, _ = rand_elem('Fq6', rng, 'rand')
        for (c0, c1) in ((z2, r()), (r(), z2), (z2, z2)):
            g.add('Fq6.mulc01 %s %s %s' % (C.enc_fq6(a6), C.enc_fq2(c0), C.enc_fq2(c1)), 'Fq6', 'mulc01', a6, c0, c1)
        g.add('Fq6.mulc1 %s %s' % (C.enc_fq6(a6), C.enc_fq2(z2)), 'Fq6', 'mulc1', a6, z2)
    # elements with a (nearly) trivial relative norm: inversion, squaring, the cyclotomic map and products with the conjugate
    combos = [(m, kind) for kind in ('unitary', 't-in-Fq', 't-imaginary', 't-general') for m in range(3)] + [(0, 'minus-one')]
    for i in range(max(len(combos), heavy * 3)):
        a, tag = near_unitary_fq12(rng, *combos[i % len(combos)])
        g.add('Fq12.inv %s' % C.enc_fq12(a), 'Fq12', 'inv', a)
        g.add('Fq12.sqr %s' % C.enc_fq12(a), 'Fq12', 'sqr', a)
        g.add('Fq12.mul %s %s' % (C.enc_fq12(a), C.enc_fq12(O.f12_conj(a))), 'Fq12', 'mul', a, O.f12_conj(a))
        if i % 3 == 0:
            g.add('Fq12.mapcyc %s' % C.enc_fq12(a), 'Fq12', 'mapcyc', a)
    # map_to_cyclotomic against the generic power (expensive: sample)
    for _ in range(heavy):
        a, _ = rand_elem('Fq12', rng, rng.choice(['rand', 'mixed', 'special']))
        if is_zero('Fq12', a):
            continue
        g.add('Fq12.mapcyc %s' % C.enc_fq12(a), 'Fq12', 'mapcyc', a)
    # cyclotomic squaring on pool members themselves and the identity
    for base, tag in cyc_pool:
        g.add('Fq12.sqcyc %s' % C.enc_flat(base), 'Fq12', 'sqcyc', O.flat_to_tower(base), tag)
    g.add('Fq12.sqcyc %s' % C.enc_flat(O.FLAT_ONE), 'Fq12', 'sqcyc', O.F12_ONE, 'one')


def judge(sh, line, meta, out, deep):
    L, op = meta[0], meta[1]
    opn = '%s.%s' % (L, op)

    def fail(msg, key=None):
        sh.violation(key or ('value:%s' % opn), '%s: %s -> %s' % (msg, line[:700], ' '.join(out)[:400]), {'line': line, 'got': ' '.join(out)})

    def dec(tok, lvl=L):
        try:
            return DEC[lvl](tok)
        except C.NonCanonical as e:
            sh.violation('canonical:%s' % opn, '%s in result of %s' % (e, line[:300]), {'line': line})
            return None
    cls = None
    trivial = False
    if op in ('add', 'sub', 'mul'):
        a, b = meta[2], meta[3]
        r = dec(out[1])
        exp = {'add': r_add, 'sub': r_sub, 'mul': r_mul}[op](L, a, b)
        cls = '%s*%s' % (shape_of(L, a), shape_of(L, b))
        trivial = is_zero(L, a) and is_zero(L, b)
        if r is not None and r != exp:
            fail('wrong %s' % op)
        if deep and op == 'mul' and L == 'Fq12':
            assert O.f12_mul_tower(a, b) == exp
    elif op in ('sqr', 'dbl', 'neg', 'mulnr', 'conj'):
        a = meta[2]
        r = dec(out[1])
        if op == 'sqr':
            exp = r_mul(L, a, a)
        elif op == 'dbl':
            exp = r_add(L, a, a)
        elif op == 'neg':
            exp = r_neg(L, a)
        elif op == 'conj':
            exp = r_frob(L, a, 6)
        else:
            nr = O.XI if L == 'Fq2' else (O.F2_ZERO, O.F2_ONE, O.F2_ZERO)   # u+1 in Fq2, v in Fq6
            exp = r_mul(L, a, nr)
        cls = shape_of(L, a)
        trivial = is_zero(L, a)
        if r is not None and r != exp:
            fail('wrong %s' % op)
    elif op == 'inv':
        a = meta[2]
        r = dec(out[1])
        cls = shape_of(L, a)
        if is_zero(L, a):
            trivial = True
            if r is not None and not is_zero(L, r):
                fail('inverse(0) != 0')
        elif r is not None and r_mul(L, a, r) != one(L):
            fail('a * inverse(a) != 1')
    elif op == 'frob':
        a, k = meta[2], meta[3]
        r = dec(out[1])
        exp = r_frob(L, a, k)
        cls = 'k%s/%s' % (k if k < 14 else ('mod12=%d(big)' % (k % 12)), 'unit' if shape_of(L, a).startswith('sparse1') else 'gen')
        if r is not None and r != exp:
            fail('frobenius_map(power=%d) wrong' % k)
    elif op == 'eq':
        a, b = meta[2], meta[3]
        exp = int(a == b)
        cls = 'eq%d' % exp
        if int(out[1]) != exp:
            fail('equal() wrong')
    elif op == 'iszero':
        a = meta[2]
        exp = int(is_zero(L, a))
        cls = 'z%d' % exp
        if int(out[1]) != exp:
            fail('is_zero wrong')
    elif op == 'norm':
        a = meta[2]
        try:
            r = C.dec_fq(out[1])
        except C.NonCanonical as e:
            fail(str(e), 'canonical:' + opn)
            r = None
        cls = shape_of(L, a)
        if r is not None and r != O.f2_norm(a):
            fail('norm wrong')
    elif op == 'leg':
        a = meta[2]
        exp = O.f2_legendre(a) if deep else O.f2_legendre_fast(a)
        cls = 'leg%d' % exp
        if int(out[1]) != exp:
            fail('Fq2 legendre wrong (expected %d)' % exp)
    elif op == 'sqrt':
        a = meta[2]
        r = dec(out[1])
        lg = O.f2_legendre_fast(a)
        if lg == -1:
            cls = 'nonsquare(unjudged)'
            trivial = True
        else:
            cls = 'zero' if lg == 0 else ('square/in-Fq' if a[1] == 0 else 'square')
            if r is not None and O.f2_sqr(r) != a:
                fail('square_root(a)^2 != a')
    elif op == 'wr':
        a = meta[2]
        exp = b''.join(x.to_bytes(48, 'big') for x in reversed(coeffs(L, a))).hex()
        cls = shape_of(L, a)
        if out[1] != exp:
            fail('write_big_endian is not the canonical coefficients, highest first')
    elif op == 'rd':
        raw = meta[2]
        r = dec(out[1])
        n = NCOEF[L]
        vals = []
        noncanon = False
        for i in range(n):
            v = int.from_bytes(raw[48 * i:48 * (i + 1)], 'big')
            if (v & ((1 << 381) - 1)) >= Q or v >> 381:
                noncanon = True
            vals.append((v & ((1 << 381) - 1)) % Q)
        exp = from_coeffs(L, list(reversed(vals)))
        cls = 'noncanonical-bytes' if noncanon else 'canonical-bytes'
        if r is not None and r != exp:
            fail('read_big_endian wrong')
    elif op == 'exp':
        a, ex = meta[2], meta[3]
        r = dec(out[1])
        exp = r_pow(L, a, ex)
        cls = 'e=%s/%s' % ('0' if ex == 0 else ('small' if ex < 1 << 16 else 'wide'), shape_of(L, a))
        if r is not None and r != exp:
            fail('exponentiate wrong')
    elif op == 'mulc1':
        a, c1 = meta[2], meta[3]
        r = dec(out[1])
        exp = O.f6_mul(a, (O.F2_ZERO, c1, O.F2_ZERO))
        cls = '%s*c1:%s' % (shape_of(L, a), shape_of('Fq2', c1))
        if r is not None and r != exp:
            fail('multiply_by_c1 != product with (0,c1,0)')
    elif op == 'mulc01':
        a, c0, c1 = meta[2], meta[3], meta[4]
        r = dec(out[1])
        exp = O.f6_mul(a, (c0, c1, O.F2_ZERO))
        cls = '%s*c01:%s,%s' % (shape_of(L, a), shape_of('Fq2', c0), shape_of('Fq2', c1))
        if r is not None and r != exp:
            fail('multiply_by_c01 != product with (c0,c1,0)')
    elif op == 'mulc014':
        a, c0, c1, c4 = meta[2:6]
        r = dec(out[1])
        exp = O.f12_mul(a, ((c0, c1, O.F2_ZERO), (O.F2_ZERO, c4, O.F2_ZERO)))
        cls = '%s*c014:%s,%s,%s' % (shape_of(L, a), shape_of('Fq2', c0)[:5], shape_of('Fq2', c1)[:5], shape_of('Fq2', c4)[:5])
        if r is not None and r != exp:
            fail('multiply_by_c014 != product with ((c0,c1,0),(0,c4,0))')
    elif op == 'sqcyc':
        a, tag = meta[2], meta[3]
        r = dec(out[1])
        cls = 'member:' + tag
        if r is not None and r != r_mul(L, a, a):
            fail('square_cyclotomic(g) != g^2 for g in the cyclotomic subgroup')
    elif op == 'mapcyc':
        a = meta[2]
        r = dec(out[1])
        exp = r_pow(L, a, CYC_EXP)
        cls = shape_of(L, a)
        if r is not None and r != exp:
            fail('map_to_cyclotomic(a) != a^((q^6-1)(q^2+1))')
    else:
        raise AssertionError(op)
    sh.event(opn, cls, trivial)
    return cls


def cyc_pool(rng, n_mapped):
    """members of the cyclotomic subgroup produced by the reference model itself"""
    pool = [(O.e0(), 'gt-generator'), (O.flat_pow(O.e0(), rng.randrange(O.R)), 'gt-power')]
    for _ in range(n_mapped):
        a = [rng.randrange(Q) for _ in range(12)]
        m = O.flat_pow(a, CYC_EXP)       # generic power: in the cyclotomic subgroup, (almost surely) outside GT
        pool.append((m, 'mapped-by-generic-power'))
    return pool


def worker(sh):
    rng = sh.rng
    g = Gen()
    pool = cyc_pool(random.Random(sh.seed * 31 + sh.index), 1 if sh.quick else 3)
    if sh.index == 0:
        gen_directed(g, random.Random(4), pool, 6 if sh.quick else 40)
        sh.count('directed_events', len(g.lines))
    elif not sh.quick:
        gh = Gen()
        gen_directed(gh, rng, pool, 20)
        for l, m in zip(gh.lines, gh.meta):
            if m[1] == 'mapcyc':
                g.add(l, *m)
    gen(sh, g, rng, sh.pick(1500, 50000), pool)
    outs = session.run_all(sh, sh.payload['cfgs'], g.lines)
    for i, (line, meta, out) in enumerate(zip(g.lines, g.meta, outs)):
        if out is None:
            continue
        try:
            cls = judge(sh, line, meta, out, deep=(i % 50 == 0))
        except (IndexError, ValueError, AssertionError) as e:
            sh.violation('malformed:%s.%s' % (meta[0], meta[1]), 'unusable answer %r for %s (%r)' % (out, line[:200], e), {'line': line})
            continue
        if sh.index == 0:
            sh.sample({'op': line[:200], 'class': cls, 'answer': ' '.join(out)[:120]}, limit=4)


def run(ctx):
    O.selftest(random.Random(ctx.seed))
    cfgs = ['prod', 'san', 'p32', 'p64-O0'] if ctx.quick else ['prod', 'san', 'p64', 'p32', 'x86base', 'p64-O0', 'p32-O0', 'gcc-p64', 'gcc-p64-O0']
    specs = {c: (c if c != 'x86base' else 'prod', 'opdrv.cpp', ['--x86base'] if c == 'x86base' else []) for c in cfgs}
    exes = session.build_exes(specs)
    session.run_shards(ctx, worker, 16, exes, {'cfgs': cfgs})
    ctx.rule = ('one event = one Fq2/Fq6/Fq12 operation on raw limbs judged by the schoolbook tower Fq[u]/(u^2+1), Fq2[v]/(v^3-(u+1)), Fq6[w]/(w^2-v) '
                '(Fq12 products via a flattened Kronecker multiplication cross-checked against the tower at start-up and on every 50th event); '
                'class = (operation, operand shapes: dense/sparse/subfield/unit vector, Frobenius index, sparsity of c0/c1/c4, subgroup member kind)')
    ctx.extra['configs'] = cfgs
    ctx.extra['frobenius_powers'] = FROB_POWERS
    ctx.assumptions = ['Python integer arithmetic', 'oracle/bls.py tower (self-tested)', 'driver opdrv.cpp copies operands verbatim']
    need = ['Fq12.frob|k%d/' % k for k in range(14)] + ['Fq6.frob|k%d/' % k for k in range(14)] + ['Fq12.mapcyc|', 'Fq12.sqcyc|member:mapped', 'Fq12.sqcyc|member:gt',
                                                                                                  'Fq12.frob|kmod12=', 'Fq12.mulc014|', 'Fq6.mulc01|', 'Fq6.mulc1|', 'Fq2.sqrt|square']
    for r in need:
        if not any(k.startswith(r) for k in ctx.classes):
            ctx.required_classes.add(r)
    return None
