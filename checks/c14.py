"""C14 - WKD-IBE incremental and precomputed paths equal recomputation from scratch."""
import itertools
import random

import harness
import session
import wkd
from wkd import R, alist, fixed_list, free_slots, pstr

VALS3 = [1, R - 1, R + 2]           # includes a value >= r ; differences wrap in both directions
BIG = [0, 1, R - 1, R, R + 1, (1 << 256) - 1, (1 << 256) - 2, 2 * R, 2 * R + 5, 1 << 255]


def list_kind(a, b):
    """edit classes between two attribute lists"""
    da, db = dict(a), dict(b)
    k = set()
    for i in set(da) | set(db):
        if i in da and i not in db:
            k.add('del' + ('H' if da[i] is None else ''))
        elif i in db and i not in da:
            k.add('ins' + ('H' if db[i] is None else ''))
        elif da[i] != db[i]:
            if da[i] is None or db[i] is None:
                k.add('hid<->val')
            else:
                k.add('chg' + ('<' if (db[i] % R) < (da[i] % R) else '>') + ('/>=r' if max(da[i], db[i]) >= R else ''))
        else:
            k.add('same')
    return '+'.join(sorted(k)) if k else 'both-empty'


def worker(sh):
    rng = sh.rng
    sc = wkd.Script(rng)
    l = 3 if sh.index < 10 else [5, 8, 33, 257, 20, 65][sh.index - 10]
    sig = sh.index % 2 == 0
    sc.setup(0, l, sig)
    # ---- adjust_precomputed: all ordered pairs of lists over l=3 with values from a 3-element set (+hidden entries)
    if l == 3:
        per = [None] + VALS3
        lists = [[(i, v) for i, v in enumerate(c) if v is not None] for c in itertools.product(per, repeat=3)]
        pairs = list(itertools.product(lists, lists))
        mine = pairs[sh.index::10]
        if sh.quick:
            mine = mine[:: 2]
        for a, b in mine:
            sc.add('precmp 0 %s %s' % (alist(a), alist(b)), 'precmp', lists=[a, b])
        sh.count('exhaustive_list_pairs', len(mine))
    # values straddling r, chains of up to 6 adjustments
    for _ in range(sh.pick(25, 300)):
        n = rng.randrange(2, 7)
        chain = []
        for _ in range(n):
            ent = []
            for i in range(l):
                if rng.random() < 0.5:
                    v = rng.choice(BIG + [rng.getrandbits(256), rng.getrandbits(255), wkd.big_id(rng), wkd.big_id(rng), wkd.big_id(rng)])
                    ent.append((i, v))
            chain.append(ent)
        if rng.random() < 0.3:
            # equal-mod-r change: to = from + r
            base = chain[0]
            chain[1] = [(i, v + R if v + R < (1 << 256) else v) for i, v in base]
        sc.add('precmp 0 %s' % ' '.join(alist(e) for e in chain), 'precmp', lists=chain)
    # value changes whose DIFFERENCE has a prescribed bit length (2^k + small, for every k): a fast path for "small" differences has its
    # threshold somewhere in between the small test ids and the 255-bit random ones
    ks = list(range(1, 256)) if not sh.quick else [k for k in range(1, 256) if k % 16 == sh.index % 16] + [31, 32, 33, 63, 64, 65]
    for k in ks:
        i = rng.randrange(l)
        base = rng.choice([0, 1, rng.getrandbits(64), rng.getrandbits(200)])
        d = (1 << k) + rng.choice([0, 1, 5, 12345, (1 << k) - 1 if k < 255 else 0])
        a_, b_ = base, (base + d) % (1 << 256)
        other = [(j, rng.getrandbits(256)) for j in range(l) if j != i and rng.random() < 0.3][:3]
        la = sorted(other + [(i, a_)])
        lb = sorted(other + [(i, b_)])
        sc.add('precmp 0 %s %s %s' % (alist(la), alist(lb), alist(la)), 'precmp', lists=[la, lb, la])
    # ---- two views of ONE attribute array: a caller that keeps a single array and passes the list, its first k entries, its last k
    # entries, or the very same list as `from` and `to` ('=' asks the driver to make the related list a view of the other's storage)
    for _ in range(sh.pick(3, 12)):
        n = min(l, rng.choice([2, 3, 4, 6]))
        idxs = sorted(rng.sample(range(l), n))
        la = [(i, (None if rng.random() < 0.15 else rng.choice(BIG + [rng.getrandbits(256)]))) for i in idxs]
        k1, k2 = rng.randrange(1, n), rng.randrange(1, n)
        chain = [la, la[:k1], la, la[k2:], la, la, la[:k2], la[:k1] if k1 <= k2 else la[:k2]]
        hid = {i: rng.getrandbits(256) for i, v in la if v is None}
        toks = [alist(chain[0], False, hid)] + ['=' + alist(e, rng.random() < 0.2, hid) for e in chain[1:]]
        sc.add('precmp 0 %s' % ' '.join(toks), 'precmp', lists=chain, shared=True)
    # ---- adjust_nondelegable vs direct qualification, component for component
    parents = []
    for _ in range(sh.pick(2, 6)):
        ent = []
        for i in range(l):
            t = rng.random()
            if t < 0.2:
                ent.append((i, rng.choice(BIG)))
            elif t < 0.3:
                ent.append((i, None))
        op = rng.choice(['keygen', 'ndkeygen'])
        kid, pat = sc.keyop(op, 0, l, ent, False)
        parents.append((kid, pat))
    import c11
    for kid, pat in parents:
        if l == 3:
            opts = wkd.qualify_options(pat, VALS3[:2])
            combos = list(itertools.product(opts, opts))
            rng.shuffle(combos)
            combos = combos[:sh.pick(40, 400)]
        else:
            combos = [(c11.random_entries(pat, rng, l, False), c11.random_entries(pat, rng, l, False)) for _ in range(sh.pick(15, 150))]
        for frm, to in combos:
            # hidden entries carry an arbitrary id: it must be ignored
            frm = [(i, v) for i, v in frm]
            t = rng.random()
            if t < 0.25:
                # same slots, ids only just different (or the same): a shortcut that compares part of an id, or skips work for "equal" lists
                to = [(i, (v if (v is None or isinstance(pat[i], tuple) or rng.random() < 0.3) else wkd.near(v, rng))) for i, v in frm]
            oa_to = rng.random() < 0.25
            oa_from = rng.random() < 0.2
            if t >= 0.25 and t < 0.4 and len(frm) > 1:
                # `to` is a view of the first or last entries of `from` (or all of them)
                k = rng.randrange(1, len(frm) + 1)
                to = frm[:k] if rng.random() < 0.5 else frm[len(frm) - k:]
                hid = {i: rng.getrandbits(256) for i, v in frm if v is None}
                line = 'adjcmp 0 %d %s =%s' % (kid, alist(frm, oa_from, hid), alist(to, oa_to, hid))
            else:
                af, at = wkd.alist_pair(frm, to, rng, oa_to, oa_from)
                line = 'adjcmp 0 %d %s %s%s' % (kid, af, '=' if rng.random() < 0.5 else '', at)
            sc.add(line, 'adjcmp', frm=frm, to=to, parent=pat, oa=oa_to, oaf=oa_from)
    # ---- precomputed forms interchangeable with direct forms
    for kid, pat in parents[:2]:
        fl = fixed_list(pat)
        for mod in (0, 10):
            sc.dec(kid, 0, fl, 1, mod, 'matching pattern, %s' % ('encrypt_precomputed' if mod else 'encrypt'))
        if sig:
            free = free_slots(pat)
            ext = fl + [(i, rng.choice(BIG[1:5])) for i in free[:rng.randrange(0, len(free) + 1)]]
            ext.sort()
            msg = rng.getrandbits(256)
            for mode in (0, 1):
                sid = sc.newsig()
                fl_s = {i for i, v in ext if rng.random() < 0.5}
                sc.add('sign %d %d 0 %s %s %d %d %s' % (sid, kid, alist(ext, False, None, fl_s), wkd.idhex(msg), sc.seed(), mode, alist(ext)), 'sign', mode=mode)
                sc.add('verify %d 0 %s %s' % (sid, alist(ext), wkd.idhex(msg)), 'verify', expect=1, mode=mode)
    outs = session.run_all(sh, sh.payload['cfgs'], sc.lines)
    sh.count('scheme_ops_with_crafted_random_streams', getattr(sc, 'nstream', 0))
    for line, (kind, kw), out in zip(sc.lines, sc.exp, outs):
        if out is None:
            continue
        if kind == 'reobj':
            wkd.judge_reobj(sh, line, out)
            continue
        kv = wkd.parse_kv(out)

        def fail(key, msg):
            sh.violation(key, '%s: %s -> %s' % (msg, line[:500], ' '.join(out[1:])), {'line': line})
        try:
            if kind == 'precmp':
                lists = kw['lists']
                if kv['pre0'] != '1':
                    fail('precompute:value', 'precompute(list) != g3 * prod h_i^id_i')
                steps = '' if kv['steps'] == '-' else kv['steps']
                for si, ok in enumerate(steps):
                    cls = list_kind(lists[si], lists[si + 1])
                    if ok != '1':
                        big = any((v or 0) >= R for _, v in lists[si] + lists[si + 1])
                        fail('adjust_precomputed:%s' % ('ids>=r' if big else 'ids<r'),
                             'adjust_precomputed(precompute(from), from->to) != precompute(to) at step %d (%s)' % (si + 1, cls))
                    sh.event('adjust_precomputed', cls + ('/chain%d' % len(lists) if len(lists) > 2 else '') + ('/views-of-one-array' if kw.get('shared') else ''))
                if kw.get('shared'):
                    sh.count('adjust_calls_with_shared_list_storage', int(kv.get('shared', 0)))
                    if int(kv.get('shared', 0)) < len(lists) - 2:
                        # every list of this chain is a view of the first one's entries: the driver can only fail to share storage when the
                        # bytes of a list it had handed to the library (as const) are no longer what it parsed
                        fail('input-modified:attribute-list', 'an attribute list passed to adjust_precomputed as a const argument was modified by the call (views of one array shared storage in only %s of %d steps)'
                             % (kv.get('shared'), len(lists) - 1))
                if sh.index == 0:
                    sh.sample({'op': 'adjust_precomputed', 'lists': [[(i, (hex(v) if v is not None else 'hidden')) for i, v in e] for e in lists], 'steps': steps}, limit=2)
            elif kind == 'adjcmp':
                cls = list_kind(kw['frm'], kw['to']) + ('/omitAll' if kw['oa'] else '') + ('/fromOmitAll' if kw['oaf'] else '')
                for f in ('a0', 'a1', 'slots', 'bsig'):
                    if kv[f] != '1':
                        fail('adjust_nondelegable:%s' % f, 'adjusted key differs from qualifying the parent directly in %s (parent %s, %s)' % (f, pstr(kw['parent']), cls))
                a, b = kv['l'].split('/')
                if a != b:
                    fail('adjust_nondelegable:l', 'slot counts differ %s' % kv['l'])
                if kv['overflow'] != '0':
                    fail('adjust_nondelegable:overrun', 'slot array overrun')
                sh.event('adjust_nondelegable', cls + ('/views-of-one-array' if 'shared' in kv else ''))
                sh.count('adjust_calls_with_shared_list_storage', int(kv.get('shared', 0)))
                if sh.index == 1:
                    sh.sample({'op': 'adjust_nondelegable', 'parent': pstr(kw['parent']), 'from': str(kw['frm'])[:200], 'to': str(kw['to'])[:200], 'monitor': ' '.join(out[1:])}, limit=2)
            elif kind == 'dec':
                if kv['dec'] != '1' or kv['decmaster'] != '1':
                    fail('encrypt-paths', 'ciphertext made through %s does not decrypt' % kw['why'])
                sh.event('encrypt', kw['why'])
            elif kind == 'verify':
                if kv['verify'] != '1' or kv['verifypre'] != '1' or kv['equation'] != '1':
                    fail('sign-paths', 'signature made through mode %d: verify=%s verify_precomputed=%s equation=%s' % (kw['mode'], kv['verify'], kv['verifypre'], kv['equation']))
                sh.event('sign/verify', 'sign%s' % ('_precomputed' if kw['mode'] else ''))
            elif kind == 'keyop':
                c11.judge_keyop(sh, line, kw, kv, 'parent for C14')
            elif kind == 'setup':
                pass
        except KeyError as e:
            sh.violation('malformed:%s' % kind, 'driver answer lacks %s: %s' % (e, out), {'line': line})


def run(ctx):
    cfgs = ['prod', 'san', 'p32', 'p64-O0'] if ctx.quick else ['prod', 'san', 'p64', 'p32', 'p32-san', 'p64-O0', 'gcc-p64']
    exes = session.build_exes({c: (c, 'wkd_drv.cpp', []) for c in cfgs})
    session.run_shards(ctx, worker, 16, exes, {'cfgs': cfgs})
    ctx.rule = ('events: (a) adjust_precomputed along a chain of lists vs precompute(to) at every step (G1 equality), all ordered pairs of lists over l=3 with values {1, r-1, r+2} '
                '(quick: every second pair) plus random chains of <=6 lists with ids around r, 2r, 2^256; (b) adjust_nondelegable(ndqualify(parent,from), from->to) vs '
                'ndqualify(parent,to) component for component for documented list pairs incl. hidden entries with arbitrary ids; (c) encrypt/encrypt_precomputed and '
                'sign/sign_precomputed/verify/verify_precomputed interchangeable; class = edit kinds between the two lists (ins/del/chg< / chg> / >=r / hidden)')
    ctx.extra['configs'] = cfgs
    ctx.assumptions = ['library group arithmetic as instrument (C05/C06)', 'precompute itself checked against the monitor\'s own product']
    need = ['adjust_precomputed|', 'adjust_nondelegable|', 'encrypt|', 'adjust_precomputed|chg</>=r', 'adjust_precomputed|chg>/>=r', 'adjust_precomputed|del', 'adjust_precomputed|ins']
    for r in need:
        if not any(k.startswith(r) or (r.split('|')[1] and r.split('|')[0] == k.split('|')[0] and r.split('|')[1] in k) for k in ctx.classes):
            ctx.required_classes.add(r)
    return None
