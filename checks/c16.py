"""C16 - LQ-IBE: decryption re-derives the encryption key, bound to the identity."""
import random

import session
import codec as C
from oracle import bls as O
from c10 import tai1, rhs1, M381
import c07

Q, R = O.Q, O.R


def kvparse(out):
    d = {}
    i = 0
    while i < len(out):
        t = out[i]
        if t.endswith('=') and i + 1 < len(out):
            # "name= <hex>" or "name=1: <hex>"
            d[t[:-1]] = out[i + 1]
            i += 2
            continue
        if '=' in t:
            k, v = t.split('=', 1)
            if v in ('1:', '2:') and i + 1 < len(out):
                d[k] = out[i + 1]
                i += 2
                continue
            d[k] = v
        i += 1
    return d


def worker(sh):
    rng = sh.rng
    lines, meta = [], []
    import wkd
    masters = ['-'] * 6 + [C.le(v, 32) for v in (0, 1, R - 1, R, R + 5, (1 << 256) - 1, 2 * R + 3)] + [C.le(wkd.algebraic_scalar(rng), 32) for _ in range(6)] + [C.le(wkd.big_id(rng), 32) for _ in range(3)]
    keylens = [0, 1, 16, 32, 33, 64, 255, 1000]
    n = sh.pick(30, 300)
    for i in range(n):
        h = rng.getrandbits(384)
        if sh.index == 0 and i < 6:
            h = [0, 1, Q - 1, Q, (1 << 384) - 1, 1 << 383][i]
        hb = h.to_bytes(48, 'big').hex()
        mode = rng.choice([0, 0, 5]) if i % 3 else rng.choice([1, 2, 3, 4])
        if i < 6:
            mode = i
        ms = rng.choice(masters)
        if mode != 0 and ms != '-' and C.unle(ms) % R == 0:
            ms = '-'      # with s = 0 mod r every secret key is the identity: nothing can differ
        kl = rng.choice(keylens)
        # random streams for encryption / setup that force rejections in the exponent sampler: digits at and above |x|, candidates at
        # and just above r (the outer rejection), several of them in a row
        def stream():
            t = rng.randrange(4)
            if t == 0:
                return c07.make_stream(rng, rng.choice([0, 1, 3]), rng.choice([1, 1, 2, 3]))
            if t == 1:
                return c07.boundary_stream(rng, rng.choice([0, 0, 1, -1, 5, 1 << 64]))
            if t == 2:
                return c07.digit_edge_stream(rng, rng.randrange(4), rng.choice([c07.XA - 1, c07.XA, c07.XA + 1, (1 << 64) - 1]))
            return c07.make_stream(rng, rng.choice([1, 5]), 0)
        es = stream().hex() if rng.random() < 0.4 else '-'
        ss = stream().hex() if (ms == '-' and rng.random() < 0.25) else '-'
        lines.append('lq %d %s %d %d %s %s %s' % (rng.getrandbits(40), hb, kl, mode, ms, es, ss))
        meta.append((h, kl, mode, ms))
    outs = session.run_all(sh, sh.payload['cfgs'], lines)
    deep_budget = sh.pick(1, 6)
    for line, (h, kl, mode, ms), out in zip(lines, meta, outs):
        if out is None:
            continue
        kv = kvparse(out)

        def fail(aspect, msg):
            sh.violation('lqibe:%s' % aspect, '%s: %s -> %s' % (msg, line, ' '.join(out)[:300]), {'line': line})
        try:
            cls = 'mode%d/keylen%d/%s' % (mode, kl, 'random-master' if ms == '-' else ('master>=r' if C.unle(ms) >= R else 'master<r'))
            toks = line.split()
            if toks[6] != '-' or toks[7] != '-':
                cls += '/rejection-forcing-stream:' + '+'.join(n for n, t in (('encrypt', toks[6]), ('setup', toks[7])) if t != '-')
            if kv['calls'] != '2':
                fail('hash-calls', 'hash function called %s times for one encrypt + one decrypt' % kv['calls'])
            if kv['inlen'] != '720,720':
                fail('hash-input-length', 'hash input lengths %s, expected 48+96+576' % kv['inlen'])
            if kv['outlen'] != '%d,%d' % (kl, kl) or kv['outptr'] != '1,1':
                fail('output-length', 'requested key length/destination not passed through: %s %s' % (kv['outlen'], kv['outptr']))
            same = kv['same_input'] == '1'
            if mode in (0, 5):
                if not same or kv['same_key'] != '1':
                    fail('key-mismatch' if mode == 0 else 'key-mismatch:hash-function-reenters-library',
                         'decryption fed the hash different bytes than encryption' + (' (the hash function itself ran another decrypt/encrypt before reading its input)' if mode == 5 else ''))
            else:
                h2 = int.from_bytes(bytes(b ^ (0x5a if i == 20 else 0) for i, b in enumerate(h.to_bytes(48, 'big'))), 'big')
                degenerate = C.dec_g1a(kv['id']) is None or (mode in (1, 4) and tai1((h2 & M381) % Q)[0] == tai1((h & M381) % Q)[0])
                if same and not degenerate:
                    fail('not-bound:%s' % {1: 'other-identity-key', 2: 'other-master', 3: 'ciphertext-modified', 4: 'other-identity-object'}[mode],
                         'hashed bytes did not change although identity / master key / ciphertext differ')
            # structure of the hashed bytes (encrypt side)
            data = bytes.fromhex(kv['enc_input'])
            idp = C.dec_g1a(kv['id'])
            skp = C.dec_g1a(kv['sk'])
            rp = C.dec_g2a(kv['rp'])
            s = C.unle(kv['s'])
            if ms != '-' and s != C.unle(ms):
                fail('master-roundtrip', 'master scalar changed by (un)marshalling')
            if len(data) == 720:
                if idp is not None:
                    xb = bytearray(idp[0].to_bytes(48, 'big'))
                    got = bytearray(data[:48])
                    got[0] &= 0xdf
                    xb[0] |= 0x80
                    if bytes(got) != bytes(xb):
                        fail('hash-input:identity', 'first 48 bytes are not the compressed identity point')
                if rp is not None:
                    xb = bytearray(rp[0][1].to_bytes(48, 'big') + rp[0][0].to_bytes(48, 'big'))
                    got = bytearray(data[48:144])
                    got[0] &= 0xdf
                    xb[0] |= 0x80
                    if bytes(got) != bytes(xb):
                        fail('hash-input:ciphertext', 'bytes 48..144 are not the compressed ciphertext point')
            if kv['pairing_matches'] != '1' and mode != 5:
                fail('hash-input:pairing', 'last 576 bytes are not e(sk, rP) (library pairing)')
            # identity point and secret key by reference arithmetic
            x, nsteps = tai1((h & M381) % Q)
            y = O.fq_sqrt(rhs1(x))
            e = O.E1.mul((x, y), O.H1)
            if not (O.E1.eq(idp, e) or O.E1.eq(idp, O.E1.neg(e))):
                fail('identity-point', 'identity is not the cofactor-cleared hash-to-curve point')
            if not O.E1.eq(skp, O.E1.mul(idp, s % R)):
                fail('secret-key', 'secret key is not [s]Q_id (s=%x)' % s)
            if deep_budget > 0 and skp is not None and rp is not None and len(data) == 720:
                deep_budget -= 1
                pv = O.pairing_def(skp, rp)
                cs = [c for hh in O.flat_to_tower(pv) for cc in hh for c in cc]
                if b''.join(c.to_bytes(48, 'big') for c in reversed(cs)) != data[144:]:
                    fail('hash-input:pairing-definitional', 'pairing bytes differ from the definitional pairing e(sk, rP)')
                cls += '/definitional'
            sh.event('lqibe', cls)
            if sh.index == 0:
                sh.sample({'mode': mode, 'keylen': kl, 'idhash': hex(h), 'hash_input_prefix': data[:16].hex(), 'same_input': same}, limit=4)
        except (KeyError, C.NonCanonical) as ex:
            sh.violation('malformed:lq', 'unusable answer (%r): %s' % (ex, ' '.join(out)[:300]), {'line': line})


def run(ctx):
    O.selftest(random.Random(ctx.seed))
    cfgs = ['prod', 'san', 'p32', 'p64-O0'] if ctx.quick else ['prod', 'san', 'p64', 'p32', 'p32-san', 'p64-O0', 'gcc-p64']
    exes = session.build_exes({c: (c, 'scheme_drv.cpp', []) for c in cfgs})
    session.run_shards(ctx, worker, 16, exes, {'cfgs': cfgs})
    ctx.rule = ('events: one LQ-IBE setup/keygen/encrypt/decrypt with the caller-supplied hash function acting as recorder of the bytes it is handed; oracle: same bytes on both sides '
                '(honest case), 720 bytes = compressed identity | compressed ciphertext | pairing value (library pairing always, definitional pairing on a sample), identity = cofactor-cleared '
                'try-and-increment point, sk = [s]Q_id by reference multiplication incl. unmarshalled s >= r, requested length/destination passed through (0..1000); other identity key / other '
                'identity object / other master / modified ciphertext must change the bytes; class = (mode, key length, master kind)')
    ctx.extra['configs'] = cfgs
    ctx.assumptions = ['oracle/bls.py', 'library pairing as instrument for the always-on pairing comparison']
    need = ['lqibe|mode0/keylen0', 'lqibe|mode5', 'lqibe|mode1', 'lqibe|mode2', 'lqibe|mode3', 'lqibe|mode4']
    for r in need:
        if not any(k.startswith(r) for k in ctx.classes):
            ctx.required_classes.add(r)
    if not any('master>=r' in k for k in ctx.classes) or not any('definitional' in k for k in ctx.classes):
        ctx.required_classes.add('lqibe|master>=r-or-definitional')
    return None
