"""Slot-pattern model of WKD-IBE keys and script builder for drivers/wkd_drv.cpp (shared by C11-C14).

Pattern of a key: tuple over slots, each 'F' (free), 'H' (hidden) or ('X', value) (fixed).
"""
from oracle import bls as O

R = O.R
VALUES = [1, 2, 7, R - 1, R + 1, (1 << 256) - 1, 0, R]


def idhex(v):
    return int(v).to_bytes(32, 'little').hex()


def alist(entries, omit_all=False, hid=None, flagged=()):
    """entries: list of (idx, value or None for 'omit from keys') sorted by idx.
    hid: optional {idx: id} - the id field carried by hidden entries (the API gives it no meaning, so any value must be ignored)
    flagged: indices of VALUE entries that carry the omit-from-keys flag as well - only for lists handed to operations that build the
    attribute product of a ciphertext / signature check (encrypt, precompute, verify), where the flag has no meaning and the value counts"""
    s = 'o%d' % (1 if omit_all else 0)
    for idx, v in entries:
        s += ',%d:%s:%d' % (idx, idhex((hid or {}).get(idx, 0) if v is None else v), 1 if (v is None or idx in flagged) else 0)
    return s


def hidden_ids(entries, rng, other=None):
    """ids for the hidden entries of a list: zero (what the Go binding sends), arbitrary bits, another value of the same list, or -
    most hostile - exactly the value the same slot carries in a related list (`other`: list or pattern), i.e. a caller that copied an
    attribute and only toggled the flag"""
    rel = {}
    if other is not None:
        if isinstance(other, tuple):
            rel = {i: s[1] for i, s in enumerate(other) if isinstance(s, tuple)}
        else:
            rel = {i: v for i, v in other if v is not None}
    own = [v for _, v in entries if v is not None]
    out = {}
    for idx, v in entries:
        if v is not None:
            continue
        t = rng.random()
        if idx in rel and t < 0.6:
            out[idx] = rel[idx]
        elif t < 0.7:
            out[idx] = 0
        elif t < 0.8 and own:
            out[idx] = rng.choice(own)
        elif t < 0.9:
            out[idx] = rng.choice([1, R - 1, R, R + 1, (1 << 256) - 1])
        else:
            out[idx] = rng.getrandbits(256)
    return out


def alist_pair(frm, to, rng, omit_all_to=False):
    """render two related lists (adjust from -> to); hidden entries of each tend to carry the other's value for that slot"""
    return alist(frm, False, hidden_ids(frm, rng, to)), alist(to, omit_all_to, hidden_ids(to, rng, frm))


def fixed_list(pattern):
    """attribute list naming exactly the fixed slots of a pattern"""
    return [(i, s[1]) for i, s in enumerate(pattern) if isinstance(s, tuple)]


def free_slots(pattern):
    return [i for i, s in enumerate(pattern) if s == 'F']


def keygen_pattern(l, entries, omit_all):
    d = dict(entries)
    out = []
    for i in range(l):
        if i in d:
            out.append('H' if d[i] is None else ('X', d[i]))
        else:
            out.append('H' if omit_all else 'F')
    return tuple(out)


def qualify_pattern(parent, entries, omit_all):
    """documented use only: fixed slots repeated with the same value (mod r), hidden slots never given a value"""
    d = dict(entries)
    out = []
    for i, s in enumerate(parent):
        if isinstance(s, tuple):
            assert i in d and d[i] is not None and (d[i] - s[1]) % R == 0, 'fixed slot must be repeated'
            out.append(s)
        elif s == 'F':
            if i in d:
                out.append('H' if d[i] is None else ('X', d[i]))
            else:
                out.append('H' if omit_all else 'F')
        else:
            assert i not in d or d[i] is None, 'hidden slot must not be given a value'
            out.append('H')
    return tuple(out)


def resample_pattern(p, further):
    return p if further else tuple('H' if s == 'F' else s for s in p)


def qualify_options(parent, values, rng=None, limit=None):
    """all documented attribute lists for qualifying `parent` (per slot: fixed->same value; free->absent/value/omit; hidden->absent/omit)"""
    per = []
    for i, s in enumerate(parent):
        if isinstance(s, tuple):
            per.append([(i, s[1])])
        elif s == 'F':
            per.append([None] + [(i, v) for v in values] + [(i, None)])
        else:
            per.append([None, (i, None)])
    outs = [[]]
    for opts in per:
        outs = [o + ([x] if x is not None else []) for o in outs for x in opts]
    return outs


def pattern_vector(pattern_or_list, l):
    """values mod r per slot, absent/free/hidden = 0: two ciphertext lists are the same ciphertext product iff equal"""
    v = [0] * l
    if isinstance(pattern_or_list, tuple):
        for i, s in enumerate(pattern_or_list):
            if isinstance(s, tuple):
                v[i] = s[1] % R
    else:
        for i, x in pattern_or_list:
            v[i] = (0 if x is None else x) % R
    return v


def pstr(p):
    return ''.join(s if isinstance(s, str) else 'X' for s in p)


class Script:
    """collects driver lines with the model's expectations"""

    def __init__(self, rng):
        self.rng = rng
        self.lines = []
        self.exp = []       # (kind, dict)
        self.nkey = 0
        self.nsig = 0

    def seed(self):
        return self.rng.getrandbits(48)

    def add(self, line, kind, **kw):
        self.lines.append(line)
        self.exp.append((kind, kw))

    def newkey(self):
        self.nkey += 1
        assert self.nkey < 1000
        return self.nkey - 1

    def newsig(self):
        self.nsig += 1
        return (self.nsig - 1) % 60

    def setup(self, pid, l, sig):
        self.add('setup %d %d %d %d' % (pid, l, int(sig), self.seed()), 'setup', l=l, sig=sig)

    def keyop(self, op, pid, l, entries, omit_all, parent=None, parent_pattern=None, alloc=None):
        kid = self.newkey()
        al = alist(entries, omit_all, hidden_ids(entries, self.rng, parent_pattern))
        go_alloc = max(0, l - len(entries)) if alloc is None else alloc
        if parent is None:
            pat = keygen_pattern(l, entries, omit_all)
            self.add('%s %d %d %d %s %d' % (op, kid, pid, go_alloc, al, self.seed()), 'keyop', op=op, pattern=pat, alloc=go_alloc, entries=entries, omit_all=omit_all)
        else:
            pat = qualify_pattern(parent_pattern, entries, omit_all)
            self.add('%s %d %d %d %d %s %d' % (op, kid, pid, parent, go_alloc, al, self.seed()), 'keyop', op=op, pattern=pat, alloc=go_alloc, entries=entries, omit_all=omit_all,
                     parent_pattern=parent_pattern)
        return kid, pat

    def resample(self, pid, src, pattern, further):
        kid = self.newkey()
        self.add('resample %d %d %d %d %s %d' % (kid, pid, src, int(further), alist(fixed_list(pattern)), self.seed()), 'keyop', op='resample', pattern=resample_pattern(pattern, further),
                 alloc=None, entries=None, omit_all=None)
        return kid, resample_pattern(pattern, further)

    def checkkey(self, kid, pid, pattern, how):
        self.add('checkkey %d %d %s %d' % (kid, pid, alist(fixed_list(pattern)), self.seed()), 'checkkey', pattern=pattern, how=how)

    def dec(self, kid, pid, entries, expect, mod=0, why='', flag_some=False):
        flagged = {i for i, v in entries if v is not None and self.rng.random() < 0.5} if flag_some else ()
        self.add('dec %d %d %s %d %d' % (kid, pid, alist(entries, False, None, flagged), self.seed(), mod), 'dec', expect=expect, mod=mod,
                 why=why + ('/flagged-entries' if flagged else ''), entries=entries)


def parse_kv(tokens):
    d = {}
    for t in tokens[1:]:
        if '=' in t:
            k, v = t.split('=', 1)
            d[k] = v
    return d
