"""Slot-pattern model of WKD-IBE keys and script builder for drivers/wkd_drv.cpp (shared by C11-C14).

Pattern of a key: tuple over slots, each 'F' (free), 'H' (hidden) or ('X', value) (fixed).
"""
from oracle import bls as O

R = O.R
VALUES = [1, 2, 7, R - 1, R + 1, (1 << 256) - 1, 0, R]


def near(v, rng):
    """an identity that differs from v (also mod r), but only just: one bit, one 64-bit word (so that the low 64 / 128 / 192 bits or the high
    ones agree), two words exchanged, one 32-bit half changed - pairs that a comparison, copy or reduction looking at part of the number
    cannot tell apart.  Random and small test identities never form such pairs."""
    M = 1 << 256
    for _ in range(20):
        t = rng.randrange(6)
        if t == 0:
            w = v ^ (1 << rng.choice([0, 31, 32, 63, 64, 127, 128, 191, 192, 255]))
        elif t == 1:
            k = rng.choice([64, 128, 192])
            w = (v % (1 << k)) | (rng.getrandbits(256 - k) << k)
        elif t == 2:
            k = rng.choice([64, 128, 192])
            w = (v >> k << k) | rng.getrandbits(k)
        elif t == 3:
            ws = [(v >> (64 * j)) & (2 ** 64 - 1) for j in range(4)]
            a, b = rng.sample(range(4), 2)
            ws[a], ws[b] = ws[b], ws[a]
            w = sum(x << (64 * j) for j, x in enumerate(ws))
        elif t == 4:
            w = (v + (1 << rng.choice([64, 128, 192]))) % M
        else:
            w = v ^ (0xffffffff << (32 * rng.randrange(8)))
        if w != v and (w - v) % R:
            return w
    return v ^ (1 << 128)


def algebraic_scalar(rng):
    """a 256-bit value that is special for the scalar-multiplication algorithms underneath (GLV decomposition with eigenvalue lambda = -x^2,
    base-|x| digits): small multiples of x^2, lambda, |x|^i and their negatives mod r, with offsets 0 / +-1 and in every representative mod r"""
    XA = O.XA
    lam = rng.choice([(XA * XA - 1) % R, (-(XA * XA)) % R])      # the two primitive cube roots of unity mod r
    n = rng.choice([1, 2, 2, 3, 4, 5, 7, rng.randrange(1, 1 << 16), rng.randrange(1, 1 << 62)])
    v = rng.choice([n * XA * XA, R - n * XA * XA, n * lam % R, (R - n * lam) % R, n * XA, n * XA ** 3, R - n * XA, (n * XA * XA + n * XA) % R])
    v = (v + rng.choice([0, 0, 0, 1, -1])) % R
    v += rng.choice([0, 0, R, 2 * R])
    return v if v < (1 << 256) else v - R


def big_id(rng):
    t = rng.random()
    if t < 0.3:
        return algebraic_scalar(rng)
    if t < 0.5:
        return sparse_id(rng)
    """an identity placed relative to the fixed points of the reductions identities go through: a multiple of r (or 2^255, 2^256) plus or
    minus an offset of a random magnitude"""
    base = rng.choice([R, 2 * R, 1 << 255, 1 << 256, 0])
    j = rng.choice([1, 8, 32, 63, 64, 65, 100, 127, 128, 129, 192, 250])
    off = rng.getrandbits(j) | (1 << (j - 1))
    v = base + off if (rng.random() < 0.5 or base == 0) else base - off
    return v % (1 << 256)


def nudge(v, rng, small):
    """a value different from v mod r: v + (small non-zero), or a near miss of v"""
    if rng.random() < 0.5:
        return (v + rng.choice(small)) % (1 << 256)
    return near(v, rng)


_X2 = O.XA * O.XA
# values that are special for the GLV / base-|x| scalar decompositions underneath every h^id (see algebraic_scalar)
ALGEBRAIC = [_X2, 2 * _X2, R - _X2, R - 2 * _X2, R - 77 * _X2, _X2 - 1, R - (_X2 - 1), 2 * _X2 + R, R - _X2 + R, 3 * (_X2 - 1) % R, O.XA, O.XA ** 3]


# identities with whole 32- / 64-bit words equal to zero in the middle or at the bottom (and something above them): a width test that
# looks at one word or one double word takes them for short values
SPARSE_WORDS = [(7 << 128) | 42, 1 << 200, (1 << 192) | 1, 1 << 64, 1 << 128, 5 << 64, (0xabc << 224) | (3 << 32), (1 << 160) | (1 << 31), (0xffffffff << 96) | 9, 1 << 255,
                (1 << 64) - 1, ((1 << 64) - 1) << 20, (1 << 128) - 1, ((1 << 96) - 1) << 32, ((1 << 64) - 1) << 128]        # ... and long runs of one bits


def sparse_id(rng):
    """a 256-bit value in which a random non-empty subset of the eight 32-bit words is non-zero, all others zero"""
    v = 0
    for w in range(8):
        if rng.random() < 0.35:
            v |= rng.choice([1, 0xffffffff, 0x80000000, rng.getrandbits(32) | 1]) << (32 * w)
    return v or (1 << 128)


def idhex(v):
    return int(v).to_bytes(32, 'little').hex()


def alist(entries, omit_all=False, hid=None, flagged=()):
    """entries: list of (idx, value or None for 'omit from keys') sorted by idx.
    hid: optional {idx: id} - the id field carried by hidden entries (the API gives it no meaning, so any value must be ignored)
    flagged: indices of VALUE entries that carry the omit-from-keys flag as well - only for lists handed to operations that build the
    attribute product of a ciphertext / signature check (encrypt, precompute, verify), where the flag has no meaning and the value counts"""
    s = 'o%d' % (1 if omit_all else 0)
    for idx, v in entries:
        s += ',%d:%s:%d' % (idx, idhex((hid or {}).get(idx, 0) if v is None else v), 1 if (v is None or idx in flagged) else 0)
    return s


def hidden_ids(entries, rng, other=None):
    """ids for the hidden entries of a list: zero (what the Go binding sends), arbitrary bits, another value of the same list, or -
    most hostile - exactly the value the same slot carries in a related list (`other`: list or pattern), i.e. a caller that copied an
    attribute and only toggled the flag"""
    rel = {}
    if other is not None:
        if isinstance(other, tuple):
            rel = {i: s[1] for i, s in enumerate(other) if isinstance(s, tuple)}
        else:
            rel = {i: v for i, v in other if v is not None}
    own = [v for _, v in entries if v is not None]
    out = {}
    for idx, v in entries:
        if v is not None:
            continue
        t = rng.random()
        if idx in rel and t < 0.6:
            out[idx] = rel[idx]
        elif t < 0.7:
            out[idx] = 0
        elif t < 0.8 and own:
            out[idx] = rng.choice(own)
        elif t < 0.9:
            out[idx] = rng.choice([1, R - 1, R, R + 1, (1 << 256) - 1])
        else:
            out[idx] = rng.getrandbits(256)
    return out


def alist_pair(frm, to, rng, omit_all_to=False, omit_all_from=False):
    """render two related lists (adjust from -> to); hidden entries of each tend to carry the other's value for that slot"""
    return alist(frm, omit_all_from, hidden_ids(frm, rng, to)), alist(to, omit_all_to, hidden_ids(to, rng, frm))


def fixed_list(pattern):
    """attribute list naming exactly the fixed slots of a pattern"""
    return [(i, s[1]) for i, s in enumerate(pattern) if isinstance(s, tuple)]


def free_slots(pattern):
    return [i for i, s in enumerate(pattern) if s == 'F']


def keygen_pattern(l, entries, omit_all):
    d = dict(entries)
    out = []
    for i in range(l):
        if i in d:
            out.append('H' if d[i] is None else ('X', d[i]))
        else:
            out.append('H' if omit_all else 'F')
    return tuple(out)


def qualify_pattern(parent, entries, omit_all):
    """documented use only: fixed slots repeated with the same value (mod r), hidden slots never given a value"""
    d = dict(entries)
    out = []
    for i, s in enumerate(parent):
        if isinstance(s, tuple):
            assert i in d and d[i] is not None and (d[i] - s[1]) % R == 0, 'fixed slot must be repeated'
            out.append(s)
        elif s == 'F':
            if i in d:
                out.append('H' if d[i] is None else ('X', d[i]))
            else:
                out.append('H' if omit_all else 'F')
        else:
            assert i not in d or d[i] is None, 'hidden slot must not be given a value'
            out.append('H')
    return tuple(out)


def resample_pattern(p, further):
    return p if further else tuple('H' if s == 'F' else s for s in p)


def qualify_options(parent, values, rng=None, limit=None):
    """all documented attribute lists for qualifying `parent` (per slot: fixed->same value; free->absent/value/omit; hidden->absent/omit)"""
    per = []
    for i, s in enumerate(parent):
        if isinstance(s, tuple):
            per.append([(i, s[1])])
        elif s == 'F':
            per.append([None] + [(i, v) for v in values] + [(i, None)])
        else:
            per.append([None, (i, None)])
    outs = [[]]
    for opts in per:
        outs = [o + ([x] if x is not None else []) for o in outs for x in opts]
    return outs


def pattern_vector(pattern_or_list, l):
    """values mod r per slot, absent/free/hidden = 0: two ciphertext lists are the same ciphertext product iff equal"""
    v = [0] * l
    if isinstance(pattern_or_list, tuple):
        for i, s in enumerate(pattern_or_list):
            if isinstance(s, tuple):
                v[i] = s[1] % R
    else:
        for i, x in pattern_or_list:
            v[i] = (0 if x is None else x) % R
    return v


def pstr(p):
    return ''.join(s if isinstance(s, str) else 'X' for s in p)


class Script:
    """collects driver lines with the model's expectations"""

    def __init__(self, rng):
        self.rng = rng
        self.lines = []
        self.exp = []       # (kind, dict)
        self.nkey = 0
        self.nsig = 0

    def seed(self):
        return self.rng.getrandbits(48)

    SEEDPOS = {'setup': 4, 'keygen': 5, 'qualify': 6, 'resample': 6, 'dec': 4, 'sign': 6}

    def crafted_stream(self):
        """bytes for the caller's random source that force the exponent sampler through its rejection branches: digits at and above
        |x|, candidates at and just above r, several rejected candidates in a row"""
        import c07
        rng = self.rng
        # (no stream here makes the ACCEPTED exponent 0 or -1: the library's Zp* sampler does not redraw 0, and an operation whose
        # total exponent is 0 - probability 2^-255 with an honest source - yields degenerate objects: a ciphertext that carries the
        # message in the clear, a signature (g2^alpha, O) that verifies for everything; the scheme properties quantify over keys,
        # lists and messages, not over such streams.  C07/C10 cover the sampler itself, including those outcomes.)
        t = rng.choice([0, 1, 2, 4])
        if t == 0:
            return c07.make_stream(rng, rng.choice([0, 1, 3]), rng.choice([1, 1, 2, 3]))
        if t == 1:
            # (delta >= 0 only: the candidate r-1 would be ACCEPTED as exponent -1, which cancels the fixed exponent 1 of every
            # non-delegable key - the same degenerate class as exponent 0)
            return c07.boundary_stream(rng, rng.choice([0, 0, 1, 5, 1 << 64]))
        if t == 2:
            return c07.digit_edge_stream(rng, rng.randrange(4), rng.choice([c07.XA - 1, c07.XA, c07.XA + 1, (1 << 64) - 1]))
        return c07.make_stream(rng, rng.choice([1, 5]), 0)

    def add(self, line, kind, **kw):
        pend = getattr(self, 'pending', None)
        if pend:
            self.pending = None
            self.lines.append(pend[0])
            self.exp.append((pend[1], {}))
        toks = line.split(' ')
        pos = self.SEEDPOS.get(toks[0])
        if pos is not None and len(toks) > pos and toks[pos].isdigit() and self.rng.random() < 0.15:
            # the operation's random source starts with a crafted stream instead of PRNG output ('x<hex>' in place of the seed)
            toks[pos] = 'x' + self.crafted_stream().hex()
            line = ' '.join(toks)
            self.nstream = getattr(self, 'nstream', 0) + 1
        self.lines.append(line)
        self.exp.append((kind, kw))

    def newkey(self):
        self.nkey += 1
        assert self.nkey < 1000
        return self.nkey - 1

    def newsig(self):
        self.nsig += 1
        return (self.nsig - 1) % 60

    def setup(self, pid, l, sig):
        self.add('setup %d %d %d %d' % (pid, l, int(sig), self.seed()), 'setup', l=l, sig=sig)
        if self.rng.random() < 0.4:
            # parameters and master key as a second process sees them: through marshal + validating unmarshal (normalised representatives)
            self.add('reparams %d %d' % (pid, self.rng.randrange(2)), 'reobj')

    def maybe_rekey(self, kid, p=0.15):
        # deferred to just before the next line, so that callers can still annotate exp[-1] of the operation they added
        if self.rng.random() < p:
            self.pending = ('rekey %d %d' % (kid, self.rng.randrange(2)), 'reobj')

    def keyop(self, op, pid, l, entries, omit_all, parent=None, parent_pattern=None, alloc=None):
        kid = self.newkey()
        al = alist(entries, omit_all, hidden_ids(entries, self.rng, parent_pattern))
        go_alloc = max(0, l - len(entries)) if alloc is None else alloc
        if parent is None:
            pat = keygen_pattern(l, entries, omit_all)
            self.add('%s %d %d %d %s %d' % (op, kid, pid, go_alloc, al, self.seed()), 'keyop', op=op, pattern=pat, alloc=go_alloc, entries=entries, omit_all=omit_all)
        else:
            pat = qualify_pattern(parent_pattern, entries, omit_all)
            self.add('%s %d %d %d %d %s %d' % (op, kid, pid, parent, go_alloc, al, self.seed()), 'keyop', op=op, pattern=pat, alloc=go_alloc, entries=entries, omit_all=omit_all,
                     parent_pattern=parent_pattern)
        self.maybe_rekey(kid)
        return kid, pat

    def resample(self, pid, src, pattern, further):
        kid = self.newkey()
        self.add('resample %d %d %d %d %s %d' % (kid, pid, src, int(further), alist(fixed_list(pattern)), self.seed()), 'keyop', op='resample', pattern=resample_pattern(pattern, further),
                 alloc=None, entries=None, omit_all=None)
        self.maybe_rekey(kid)
        return kid, resample_pattern(pattern, further)

    def checkkey(self, kid, pid, pattern, how):
        self.add('checkkey %d %d %s %d' % (kid, pid, alist(fixed_list(pattern)), self.seed()), 'checkkey', pattern=pattern, how=how)

    def dec(self, kid, pid, entries, expect, mod=0, why='', flag_some=False):
        flagged = {i for i, v in entries if v is not None and self.rng.random() < 0.5} if flag_some else ()
        self.add('dec %d %d %s %d %d' % (kid, pid, alist(entries, False, None, flagged), self.seed(), mod), 'dec', expect=expect, mod=mod,
                 why=why + ('/flagged-entries' if flagged else ''), entries=entries)


def judge_reobj(sh, line, out):
    """rekey / reparams lines: the library's own output must be accepted by the validating unmarshal, with the same slot count"""
    kv = parse_kv(out)
    if kv.get('ok') != '1':
        sh.violation('reobj:%s' % line.split()[0], 'marshal + validating unmarshal of a live %s failed: %s -> %s' % ('key' if line.startswith('rekey') else 'parameter set', line, ' '.join(out[1:])), {'line': line})
    sh.event('object-through-unmarshal', line.split()[0] + ('/compressed' if line.split()[2] == '1' else '/uncompressed'))


def parse_kv(tokens):
    d = {}
    for t in tokens[1:]:
        if '=' in t:
            k, v = t.split('=', 1)
            d[k] = v
    return d
