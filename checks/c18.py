"""C18 - results do not depend on whether the output object aliases an input."""
import re

import build
import harness
import session

ROW = re.compile(r'^row (.+) (out=\S+) tried=(\d+) mismatches=(\d+) first=(-?\d+)$')


def run(ctx):
    # aliasing bugs depend on what the compiler keeps in registers: the unoptimised portable build (every source-level load and store
    # happens, in order) and g++ are code generations of their own
    cfgs = ['prod', 'san', 'p64', 'p32', 'p64-O0', 'gcc-p64'] if ctx.quick else ['prod', 'san', 'p64', 'p32', 'p32-san', 'gcc-san', 'p64-O0', 'p32-O0', 'gcc-p64', 'gcc-p64-O0']
    exes = session.build_exes({c: (c, 'alias_drv.cpp', []) for c in cfgs})
    trials = 24 if ctx.quick else 400
    rows_seen = {}
    for cfg in cfgs:
        for rep in range(1 if ctx.quick else 3):
            seed = ctx.seed * 100 + rep
            rc, out, err = harness.run_driver(exes[cfg][0], None, args=['--trials', str(trials), '--seed', str(seed)], timeout=1800)
            fail = harness.classify_failure(rc, err)
            if fail:
                # the process died inside a library operation (rows are printed as they complete: the one after the last row was in flight)
                done = [m.group(1) + ' ' + m.group(2) for m in (ROW.match(l) for l in out.split('\n')) if m]
                ctx.violation('san:%s:%s' % (cfg, fail), 'alias driver %s: %s in the row after "%s"\n%s' % (cfg, fail, done[-1] if done else '(first row)', err[-2000:]),
                              {'config': cfg, 'seed': seed, 'stderr': err[-3000:], 'last_completed_row': done[-1] if done else None})
            n = 0
            for line in out.split('\n'):
                m = ROW.match(line)
                if not m:
                    continue
                n += 1
                op, pat, tried, bad, first = m.group(1), m.group(2), int(m.group(3)), int(m.group(4)), int(m.group(5))
                ctx.event(op, pat, n=tried)
                rows_seen[(op, pat)] = rows_seen.get((op, pat), 0) + tried
                if bad:
                    ctx.violation('alias:%s:%s' % (op, pat), '%s with %s differs from the non-aliased call in %d of %d operand sets (first at trial %d, build %s, seed %d)'
                                  % (op, pat, bad, tried, first, cfg, seed), {'config': cfg, 'op': op, 'pattern': pat, 'seed': seed, 'trial': first, 'trials': trials})
            if n < 140 and not fail:
                raise harness.HarnessError('alias driver produced only %d rows on %s (rc=%s): %s' % (n, cfg, rc, err[-500:]))
    ctx.rule = ('one row = (operation, aliasing pattern out=a / out=b / out=a=b as far as the signature permits); each row runs the operation with a distinct output and with the output '
                'aliased on the same operand values (specials: zero, one, minus one, identity, z=1, all-ones; plus seeded random) and compares bytes for integers/field elements and '
                'group equality for points; restrict-qualified operands are never aliased. evaluations = operand sets, distinct = rows')
    ctx.extra['configs'] = cfgs
    ctx.extra['rows'] = len(rows_seen)
    ctx.extra['trials_per_row_per_config'] = trials
    ctx.sample({'row': 'Fq6::multiply out=b', 'operand_sets': rows_seen.get(('Fq6::multiply', 'out=b'))})
    ctx.sample({'row': 'BigInt<256>::shift_right(64) out=a', 'operand_sets': rows_seen.get(('BigInt<256>::shift_right(64)', 'out=a'))})
    ctx.sample({'row': 'embedded_pairing_bls12_381_gt_add out=a=b', 'operand_sets': rows_seen.get(('embedded_pairing_bls12_381_gt_add', 'out=a=b'))})
    ctx.assumptions = ['the non-aliased result is what C02-C08 judge', 'comparison of points uses library group equality']
    for need in [('Fq6::multiply', 'out=b'), ('Fq12::multiply', 'out=a=b'), ('G1::add', 'out=a'), ('G2::add_mixed', 'out=a'), ('BigInt<384>::shift_right(100)', 'out=a'),
                 ('embedded_pairing_bls12_381_g2_multiply', 'out=a'), ('Fq12::exponentiate_gt(PowersOfX)', 'out=a'), ('final_exponentiation', 'out=a')]:
        if need not in rows_seen:
            ctx.required_classes.add('%s|%s' % need)
    return None
