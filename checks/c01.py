"""C01 - the pairing is the (cubed) BLS12-381 optimal-ate pairing: absolute values, bilinearity, non-degeneracy, order r."""
import random

import session
import codec as C
import gtlib
import points
from oracle import bls as O
from c06 import scalars, kclass, GenTable

R = O.R


class Gen:
    def __init__(self):
        self.lines = []
        self.meta = []

    def add(self, line, *meta):
        self.lines.append(line)
        self.meta.append(meta)


def worker(sh):
    rng = sh.rng
    g = Gen()
    gc1, gc2 = points.GroupCtx(1), points.GroupCtx(2)
    t1, t2 = GenTable(gc1), GenTable(gc2)
    gtlib.selfcheck(rng)
    sc = scalars(256, random.Random(3), 0)
    directed = [0, 1, 2, R - 1, R, R + 1, 2 * R, (1 << 255), (1 << 256) - 1, O.XA, O.XA ** 2, O.XA ** 3, (O.XA * O.XA - 1) % R]
    n_sc = sh.pick(60, 1500)
    pairs = []
    if sh.index == 0:
        for a in directed:
            for b in (1, 0, R - 1, (1 << 256) - 1):
                pairs.append((a, b))
                pairs.append((b, a))
        pairs = pairs[:sh.pick(40, 200)]
    for _ in range(n_sc):
        t = rng.random()
        if t < 0.25:
            a, b = rng.choice(sc), rng.getrandbits(256)
        elif t < 0.5:
            a, b = rng.getrandbits(256), rng.choice(sc)
        else:
            a, b = rng.getrandbits(256), rng.getrandbits(256)
        pairs.append((a, b))
    # library-made points, all multiplication routes, all three pairing entry points
    for (a, b) in pairs:
        rp, rq, which = rng.randrange(4), rng.randrange(4), rng.randrange(3)
        g.add('c.pairing_sc %s %s %d %d %d' % (C.le(a, 32), C.le(b, 32), rp, rq, which), 'sc', a, b, rp, rq, which)
        if rng.random() < 0.35:
            # bilinearity on an independent path: e(P, [ab]Q) and e([ab]P, Q)
            ab = (a % R) * (b % R) % R
            g.add('c.pairing_sc %s %s %d %d %d' % (C.le(1, 32), C.le(ab, 32), rng.randrange(4), rng.randrange(4), rng.randrange(3)), 'sc', 1, ab, -1, -1, which)
    # reference-made points (canonical affine input), incl. identity with junk coordinates and points with special coordinates
    for _ in range(sh.pick(12, 300)):
        a = rng.choice([0, 1, 2, rng.randrange(R), rng.randrange(R)])
        b = rng.choice([0, 1, 3, rng.randrange(R), rng.randrange(R)])
        P, Qp = t1.mul(a), t2.mul(b)
        g.add('c.pairing %s %s' % (gc1.aff(P, rng, True), gc2.aff(Qp, rng, True)), 'ref', a, b)
        g.add('c.pairing_cpp %s %s' % (gc1.aff(P, rng, True), gc2.aff(Qp, rng, True)), 'ref', a, b)
    # points handed over as Jacobian representatives with a chosen z (z = 1, -1, random, and every structured value a sloppy
    # "already normalised?" test confuses with 1), converted by the library itself and then paired
    if sh.index < 8:
        for zk2 in gc2.zkinds():
            for zk1 in rng.sample(gc1.zkinds(), 2):
                a, b = rng.randrange(1, R), rng.randrange(1, R)
                r1, k1 = gc1.rep(t1.mul(a), rng, zk1)
                r2, k2 = gc2.rep(t2.mul(b), rng, zk2)
                which = rng.randrange(3) | (4 if rng.random() < 0.5 else 0)
                g.add('c.pairing_proj %s %s %d' % (r1, r2, which), 'proj', a, b, k1, k2, which)
    # definitional oracle on points whose discrete logs nobody knows (hashed identity point, scripted random G2)
    for _ in range(sh.pick(1, 10) if sh.index < 12 else 0):
        h = rng.getrandbits(384).to_bytes(48, 'big').hex()
        stream = rng.getrandbits(8 * 97 * 12).to_bytes(97 * 12, 'little').hex()
        g.add('c.lq_id_from_hash %s' % h, 'mkP')
        g.add('c.g2_random %s' % stream, 'mkQ')
    outs = session.run_all(sh, sh.payload['cfgs'], g.lines)
    unknown = []
    lastP = None
    for line, meta, out in zip(g.lines, g.meta, outs):
        if out is None:
            continue
        op = line.split(' ')[0]

        def fail(msg, key):
            sh.violation(key, '%s: %s -> %s' % (msg, line[:400], ' '.join(out)[:300]), {'line': line, 'got': ' '.join(out)})
        try:
            if meta[0] == 'sc':
                a, b, rp, rq, which = meta[1:]
                P = gc1.dec_a(out[1])
                Qp = gc2.dec_a(out[2])
                e = C.dec_flat(out[3])
                if not O.E1.eq(P, t1.mul(a)) or not O.E2.eq(Qp, t2.mul(b)):
                    fail('library-made input point is not [a]G (multiplication route %d/%d)' % (rp, rq), 'input:pairing_sc:point')
                exp = gtlib.e0_pow((a % R) * (b % R))
                entry = ('c.pairing', 'pairing<G2Affine>', 'prepared')[which]
                cls = '%s/%s,%s/routes%d%d/%s' % (entry, kclass(a, 256).split('/')[0], kclass(b, 256).split('/')[0], rp, rq,
                                                  'identity' if (a * b) % R == 0 else 'generic')
                if e != exp:
                    fail('pairing value is not E0^(ab) (a=%x b=%x)' % (a, b), 'value:%s:%s' % (entry, 'identity' if (a * b) % R == 0 else 'generic'))
                if ((a * b) % R == 0) != (e == O.FLAT_ONE):
                    fail('degeneracy: e == 1 must hold exactly when P or Q is the identity', 'degenerate:%s' % entry)
                sh.event(entry, cls)
                if sh.index == 0:
                    sh.sample({'a': hex(a), 'b': hex(b), 'entry': entry, 'e.c0.c0.c0': hex(O.flat_to_tower(e)[0][0][0])}, limit=3)
            elif meta[0] == 'ref':
                a, b = meta[1], meta[2]
                e = C.dec_flat(out[1])
                exp = gtlib.e0_pow(a * b)
                cls = '%s/ref-points/%s' % (op, 'identity' if (a * b) % R == 0 else ('generators' if (a, b) == (1, 1) else 'generic'))
                if e != exp:
                    fail('pairing value is not E0^(ab)', 'value:%s:ref' % op)
                sh.event(op, cls)
            elif meta[0] == 'proj':
                a, b, k1, k2, which = meta[1:]
                e = C.dec_flat(out[1])
                entry = ('c.pairing', 'pairing<G2Affine>', 'prepared')[which & 3]
                if e != gtlib.e0_pow(a * b):
                    fail('pairing of points converted from Jacobian representatives (z kinds %s, %s) is not E0^(ab)' % (k1, k2), 'value:%s:from-projective' % entry)
                sh.event(entry, 'from-projective/%s,%s' % (k1, k2))
            elif meta[0] == 'mkP':
                lastP = gc1.dec_a(out[1])
            elif meta[0] == 'mkQ':
                Qp = gc2.dec_p(out[1])
                if lastP is not None and Qp is not None:
                    unknown.append((lastP, Qp))
        except C.NonCanonical as ex:
            sh.violation('canonical:%s' % op, '%s in result of %s' % (ex, line[:300]), {'line': line})
    # second round: pair the unknown-log points, judge with the definitional pairing
    if unknown:
        lines2 = ['c.pairing %s %s' % (gc1.aff(P), gc2.aff(Qp)) for P, Qp in unknown]
        outs2 = session.run_all(sh, sh.payload['cfgs'], lines2)
        for (P, Qp), line, out in zip(unknown, lines2, outs2):
            if out is None:
                continue
            if not (O.g1_in_subgroup(P) and O.g2_in_subgroup(Qp)):
                sh.violation('input:unknown-log-point', 'library-sampled point outside the subgroup', {'line': line})
                continue
            try:
                e = C.dec_flat(out[1])
            except C.NonCanonical as ex:
                sh.violation('canonical:c.pairing', str(ex), {'line': line})
                continue
            exp = O.pairing_def(P, Qp)
            if e != exp:
                sh.violation('value:c.pairing:definitional', 'pairing differs from the definition f_{|x|,Q}(P)^(-3(q^12-1)/r): %s' % line[:300], {'line': line})
            if O.flat_pow(e, R) != O.FLAT_ONE:
                sh.violation('order:c.pairing', 'pairing output ^ r != 1', {'line': line})
            sh.event('c.pairing', 'definitional/unknown-dlog')


def run(ctx):
    O.selftest(random.Random(ctx.seed), heavy=True)
    cfgs = ['prod', 'san', 'p32'] if ctx.quick else ['prod', 'san', 'p64', 'p32', 'x86base', 'p64-O0', 'gcc-p64']
    specs = {c: (c if c != 'x86base' else 'prod', 'opdrv.cpp', ['--x86base'] if c == 'x86base' else []) for c in cfgs}
    exes = session.build_exes(specs)
    # generator constants first (single process)
    import harness
    rc, out, err = harness.run_driver(exes['prod'][0], 'gt.const\n')
    toks = out.split('\n')[0].split(' ')
    e0 = O.e0()
    for i, name in ((1, 'embedded_pairing_bls12_381_gt_generator'), (3, 'generator_pairing')):
        if C.dec_flat(toks[i]) != e0:
            ctx.violation('value:%s' % name, 'exported generator pairing differs from the definitional pairing of the published generators')
        ctx.event(name, 'constant-vs-definition')
    if C.dec_flat(toks[2]) != O.FLAT_ONE:
        ctx.violation('value:gt_zero', 'exported target-group identity is not 1')
    session.run_shards(ctx, worker, 16, exes, {'cfgs': cfgs})
    ctx.rule = ('events (a, b, P, Q, e): P=[a]G1, Q=[b]G2 made by the library through a random multiplication route and a real projective->affine conversion '
                '(or made by the reference model), paired through the C API, the C++ template or the prepared form; oracle: P,Q verified by reference arithmetic, '
                'e == E0^(ab mod r) coefficient-wise with E0 the definitional pairing of the generators, e==1 iff ab=0 mod r; plus points of unknown discrete log '
                '(hashed identity point x scripted random G2 point) judged by the definitional Miller function and integer final exponent; '
                'class = (entry point, scalar classes, routes, identity/generic)')
    ctx.extra['configs'] = cfgs
    ctx.assumptions = ['Python integer arithmetic', 'oracle/bls.py definitional pairing (bilinearity self-tested each run)']
    need = ['c.pairing|from-projective/', 'prepared|from-projective/', 'c.pairing|c.pairing/', 'pairing<G2Affine>|', 'prepared|', 'c.pairing|definitional/unknown-dlog', 'c.pairing|c.pairing/ref-points/identity',
            'c.pairing_cpp|c.pairing_cpp/ref-points/']
    for r in need:
        if not any(k.startswith(r) for k in ctx.classes):
            ctx.required_classes.add(r)
    if not any('identity' in k for k in ctx.classes) or not any('k>=2r' in k for k in ctx.classes):
        ctx.required_classes.add('identity-or-k>=2r-class')
    return None
