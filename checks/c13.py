"""C13 - WKD-IBE signatures verify exactly for the signed message and attribute list."""
import random

import session
import wkd
import c11
from c12 import NZ, differ
from wkd import R, alist, fixed_list, free_slots, pstr, idhex

MSGS = [0, 1, R - 1, R, R + 1, (1 << 256) - 1, 2]


def worker(sh):
    rng = sh.rng
    sc = wkd.Script(rng)
    l = [3, 3, 3, 1, 2, 4, 5, 33, 8, 257, 12, 20, 6, 3, 65, 8][sh.index]
    # two shards run hierarchies WITHOUT signature support: signing still yields a verifying signature for the list (the message is
    # then not bound, by construction, so the other-message negatives do not apply there)
    sigsup = sh.index not in (6, 13)
    tag = '' if sigsup else '/no-signature-support'
    sc.setup(0, l, sigsup)
    keys = []
    for h in range(sh.pick(4, 24)):
        ent = c11.random_entries(None, rng, l, True)
        if h == 0:
            ent = []
        op = rng.choice(['keygen', 'keygen', 'ndkeygen'])
        kid, pat = sc.keyop(op, 0, l, ent, False)
        keys.append((kid, pat, op))
        if op == 'keygen' and rng.random() < 0.6:
            ent2 = c11.random_entries(pat, rng, l, False)
            op2 = rng.choice(['qualify', 'ndqualify'])
            k2, pat2 = sc.keyop(op2, 0, l, ent2, False, parent=kid, parent_pattern=pat)
            keys.append((k2, pat2, op2))
            if rng.random() < 0.3:
                k3, pat3 = sc.resample(0, k2, pat2, rng.random() < 0.5) if op2 == 'qualify' else (k2, pat2)
                if k3 != k2:
                    keys.append((k3, pat3, 'resample'))

    def verify(sid, ent, msg, expect, why):
        # in a list handed to verify the omit-from-keys flag has no meaning: value entries carrying it count all the same
        flagged = {i for i, v in ent if v is not None and rng.random() < 0.5} if rng.random() < 0.25 else ()
        sc.add('verify %d 0 %s %s' % (sid, alist(ent, False, None, flagged), idhex(msg)), 'verify', expect=expect, why=why)

    for kid, pat, op in keys:
        fl = fixed_list(pat)
        free = free_slots(pat)
        hidden = [i for i, s in enumerate(pat) if s == 'H']
        for rep in range(sh.pick(2, 5)):
            sub = [i for i in free if rng.random() < 0.5]
            ext = sorted(fl + [(i, rng.choice(NZ + [0, rng.getrandbits(256)])) for i in sub])
            msg = rng.choice(MSGS + [rng.getrandbits(256), rng.getrandbits(255), wkd.big_id(rng), wkd.big_id(rng)])
            mode = rng.randrange(2)
            sid = sc.newsig()
            null_ok = mode == 1 and not sub and rng.random() < 0.5
            # the omit-from-keys flag has no meaning in a signing list either: flagged value entries (a caller that reuses its key-derivation
            # list) must sign exactly like unflagged ones - the verifier's product counts them
            fl_s = {i for i, v in ext if v is not None and rng.random() < 0.5} if rng.random() < 0.4 else ()
            fl_p = {i for i, v in ext if v is not None and rng.random() < 0.5} if rng.random() < 0.3 else ()
            sc.add('sign %d %d 0 %s %s %d %d %s' % (sid, kid, 'null' if null_ok else alist(ext, False, None, fl_s), idhex(msg), sc.seed(), mode, alist(ext, False, None, fl_p)), 'sign', mode=mode)
            tg = tag + ('/flagged-signing-list' if (fl_s and not null_ok) else '')
            how = 'sign_precomputed' + ('(null list)' if null_ok else '') if mode else 'sign'
            verify(sid, ext, msg, 1, 'positive/%s%s' % (how, tg))
            if msg + R < (1 << 256):
                verify(sid, ext, msg + R, 1, 'positive/message+r' + tg)
            eq = [(i, v + R if v + R < (1 << 256) else v) for i, v in ext]
            verify(sid, eq, msg, 1, 'positive/list-equal-mod-r')
            # negatives
            m2 = wkd.nudge(msg, rng, NZ)
            if (m2 - msg) % R and sigsup:
                verify(sid, ext, m2, 0, 'other-message')
            d = dict(ext)
            if d:
                i = rng.choice(list(d))
                d2 = dict(d)
                d2[i] = wkd.nudge(d2[i], rng, NZ)
                if differ(l, sorted(d.items()), sorted(d2.items())):
                    verify(sid, sorted(d2.items()), msg, 0, 'list:value-changed')
                d3 = dict(d)
                if d3[i] % R:
                    del d3[i]
                    verify(sid, sorted(d3.items()), msg, 0, 'list:slot-dropped')
            cand = [i for i in range(l) if i not in d]
            if cand:
                d4 = dict(d)
                d4[rng.choice(cand)] = rng.choice(NZ)
                verify(sid, sorted(d4.items()), msg, 0, 'list:slot-added')
            for which in (1, 2, 3, 4):
                if rng.random() < 0.5:
                    s2 = sc.newsig()
                    sc.add('sigmod %d %d %d' % (s2, sid, which), 'raw')
                    verify(s2, ext, msg, 0, 'signature:component-%d-altered' % which)
        # lists the key is not entitled to: a hidden slot set / a fixed slot with another value
        if hidden:
            i = rng.choice(hidden)
            bad = sorted(fl + [(i, rng.choice(NZ))])
            msg = rng.getrandbits(256)
            for mode in (0, 1):
                sid = sc.newsig()
                sc.add('sign %d %d 0 %s %s %d %d %s' % (sid, kid, alist(bad), idhex(msg), sc.seed(), mode, alist(bad)), 'sign', mode=mode)
                verify(sid, bad, msg, 0, 'incompatible:hidden-slot-set')
        if fl:
            d = dict(fl)
            i = rng.choice(list(d))
            d[i] = wkd.nudge(d[i], rng, NZ)
            bad = sorted(d.items())
            if differ(l, sorted(dict(fl).items()), bad):
                msg = rng.getrandbits(256)
                sid = sc.newsig()
                sc.add('sign %d %d 0 %s %s %d %d %s' % (sid, kid, alist(bad), idhex(msg), sc.seed(), rng.randrange(2), alist(bad)), 'sign', mode=0)
                verify(sid, bad, msg, 0, 'incompatible:fixed-slot-other-value')
    outs = session.run_all(sh, sh.payload['cfgs'], sc.lines)
    sh.count('scheme_ops_with_crafted_random_streams', getattr(sc, 'nstream', 0))
    for line, (kind, kw), out in zip(sc.lines, sc.exp, outs):
        if out is None:
            continue
        if kind == 'reobj':
            wkd.judge_reobj(sh, line, out)
            continue
        kv = wkd.parse_kv(out)
        try:
            if kind == 'verify':
                why = kw['why']
                v1, v2, eqn = int(kv['verify']), int(kv['verifypre']), int(kv['equation'])
                exp = kw['expect']
                if (v1, v2, eqn) != (exp, exp, exp):
                    aspect = 'accepts' if exp == 0 else 'rejects'
                    sh.violation('verify:%s:%s' % (aspect, why), 'verify=%d verify_precomputed=%d monitor-equation=%d, expected %d (%s): %s' % (v1, v2, eqn, exp, why, line[:400]), {'line': line})
                sh.event('verify', why)
                if sh.index == 0:
                    sh.sample({'why': why, 'verify': v1, 'verify_precomputed': v2, 'equation': eqn}, limit=4)
            elif kind == 'sign':
                if kv['member'] != '1':
                    sh.violation('sign:membership', 'signature components outside the subgroups', {'line': line})
                sh.event('sign', 'mode%d' % kw['mode'])
            elif kind == 'keyop':
                c11.judge_keyop(sh, line, kw, kv, 'setup for C13')
        except KeyError as e:
            sh.violation('malformed:%s' % kind, 'driver answer lacks %s: %s' % (e, out), {'line': line})


def run(ctx):
    cfgs = ['prod', 'san', 'p32'] if ctx.quick else ['prod', 'san', 'p64', 'p32', 'p32-san', 'p64-O0', 'gcc-p64']
    exes = session.build_exes({c: (c, 'wkd_drv.cpp', []) for c in cfgs})
    session.run_shards(ctx, worker, 16, exes, {'cfgs': cfgs})
    ctx.rule = ('events: sign / sign_precomputed (incl. the null-list form) with keys from delegation histories on extension lists over free slots, then verify, verify_precomputed and the '
                'verification equation e(a0,g)=e(g2,g1)e(hsig^m g3 prod h_i^v_i, a1) evaluated by the monitor with separate pairings; positives: same list/message and equal-mod-r '
                'representatives; negatives (each a real difference mod r): other message, value changed, slot dropped, slot added, hidden slot set, fixed slot with another value, '
                'each signature component altered; all three verdicts must agree with the expectation. class = reason')
    ctx.extra['configs'] = cfgs
    ctx.assumptions = ['library pairing as instrument', 'message negatives only for parameters with signature support (without it the message is not bound by construction); positives for both']
    need = ['verify|positive/sign/no-signature-support', 'verify|positive/sign_precomputed/no-signature-support', 'verify|positive/sign', 'verify|positive/sign_precomputed', 'verify|positive/sign_precomputed(null list)', 'verify|positive/message+r', 'verify|other-message', 'verify|list:value-changed',
            'verify|list:slot-dropped', 'verify|list:slot-added', 'verify|incompatible:hidden-slot-set', 'verify|incompatible:fixed-slot-other-value', 'verify|signature:component-1', 'verify|signature:component-2']
    for r in need:
        if not any(k.startswith(r) for k in ctx.classes):
            ctx.required_classes.add(r)
    return None
