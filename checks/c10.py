"""C10 - hash-to-scalar, hash-to-curve and random sampling always land in the right set."""
import random

import session
import codec as C
import points
from oracle import bls as O
from c07 import sampler_replay, make_stream, boundary_stream, digit_edge_stream

Q, R = O.Q, O.R
M381 = (1 << 381) - 1


LONG_RUN_G1 = int('011781d236a772f890aac1a1597a36cb9156535f94219d508e17a7a4acf613f7f18f7b0e2e6e01beed075e078596181a', 16)                     # 34 increments
LONG_RUN_G2 = (int('0bbb8c67ec69e10a6663862eb2efdfd652dab1c8c95aa4e3d676434a9f686c4c9d4deeea5bd8aa52ed591e0baad39efb', 16),
               int('02a3e791eee2badbd6b835ac14781ba1297b6d01c416ae0397d3c7efbcbc642f024745f8dbedc2d4861706efd5a3a30f', 16))                  # 35 increments


def rhs1(x):
    return (x * x * x + 4) % Q


def rhs2(x):
    return O.f2_add(O.f2_mul(O.f2_sqr(x), x), O.E2.b)


def ok1(x):
    return O.fq_legendre(rhs1(x)) != -1


def ok2(x):
    return O.f2_legendre_fast(rhs2(x)) != -1


def tai1(start):
    x, n = start, 0
    while not ok1(x):
        x = (x + 1) % Q
        n += 1
    return x, n


def tai2(start):
    x, n = start, 0
    while not ok2(x):
        x = ((x[0] + 1) % Q, x[1])
        n += 1
    return x, n


def find_start1(rng, k):
    """an x that needs exactly k increments"""
    while True:
        x = rng.randrange(Q - 64)
        if tai1(x)[1] == k and (k == 0 or True):
            return x


def find_start2(rng, k):
    while True:
        x = (rng.randrange(Q - 64), rng.randrange(Q))
        if tai2(x)[1] == k:
            return x


def fq_stream(rng, v, nrej):
    """48-byte little-endian chunks: nrej rejected draws (masked value >= q) then v, junk in the 3 unused bits"""
    b = b''
    for _ in range(nrej):
        b += (rng.randrange(Q, M381 + 1) | (rng.getrandbits(3) << 381)).to_bytes(48, 'little')
    return b + (O.fq_to_raw(v) | (rng.getrandbits(3) << 381)).to_bytes(48, 'little')


def replay_fq(stream, pos):
    rej = 0
    while True:
        if pos + 48 > len(stream):
            return None, pos, rej
        v = int.from_bytes(stream[pos:pos + 48], 'little') & M381
        pos += 48
        if v < Q:
            return O.fq_from_raw(v), pos, rej     # Fq::random fills the internal (Montgomery) limbs: the element is raw * 2^-384
        rej += 1


def replay_group(which, stream):
    """specified sampler: x uniform (rejection), one byte for the sign, retry until x^3+b is a square; result = cofactor * point.
    returns (x, signbit, consumed, field_rejections, curve_rejections) or None"""
    pos = 0
    frej = crej = 0
    trej = TORSION_RETRIES
    trej[0] = 0
    while True:
        if which == 1:
            x, pos, r = replay_fq(stream, pos)
            if x is None:
                return None
            frej += r
        else:
            c0, pos, r0 = replay_fq(stream, pos)
            if c0 is None:
                return None
            c1, pos, r1 = replay_fq(stream, pos)
            if c1 is None:
                return None
            frej += r0 + r1
            x = (c0, c1)
        if pos + 1 > len(stream):
            return None
        b = stream[pos]
        pos += 1
        if (ok1(x) if which == 1 else ok2(x)):
            # the specified sampler retries when the cofactor multiple is the identity (points of order dividing the cofactor)
            y = O.fq_sqrt(rhs1(x)) if which == 1 else O.f2_sqrt(rhs2(x))
            E = O.E1 if which == 1 else O.E2
            if E.mul((x, y), O.H1 if which == 1 else O.H2) is None:
                trej[0] += 1
                continue
            return x, b & 1, pos, frej, crej
        crej += 1


TORSION_RETRIES = [0]


SMALL1 = [3, 11, 10177]
SMALL2 = [13, 23, 2713]


def torsion_stream(which, rng, n_torsion, small=False):
    """first draws are abscissas of points whose order divides the cofactor (their cofactor multiple is the identity: the
    sampler must draw again), then an ordinary acceptable draw"""
    s = b''
    E = O.E1 if which == 1 else O.E2
    for i in range(n_torsion):
        if which == 1 and i == 0:
            x = 0                                   # (0, +-2) has order 3 and 3 divides the G1 cofactor
        else:
            while True:
                P = O.find_point1(rng) if which == 1 else O.find_point2(rng)
                if small:
                    # a point of SMALL prime order l (l divides the cofactor): the multiplication routine that clears the cofactor then
                    # meets accumulator = table entry, the case a "these never coincide" shortcut gets wrong
                    ell = rng.choice(SMALL1 if which == 1 else SMALL2)
                    H = O.H1 if which == 1 else O.H2
                    m = H
                    while m % ell == 0:
                        m //= ell
                    T = E.mul(P, m * R)                 # lies in the l-primary part; walk down to order exactly l
                    while T is not None and E.mul(T, ell) is not None:
                        T = E.mul(T, ell)
                else:
                    T = E.mul(P, R)                     # order divides the cofactor
                if T is not None:
                    break
            x = T[0]
        if which == 1:
            s += fq_stream(rng, x, 0)
        else:
            s += fq_stream(rng, x[0], 0) + fq_stream(rng, x[1], 0)
        s += bytes([rng.getrandbits(8)])
    return s + group_stream(which, rng, 0, 0)


def group_stream(which, rng, frej, crej):
    def xs(good):
        while True:
            x = rng.randrange(Q) if which == 1 else (rng.randrange(Q), rng.randrange(Q))
            if (ok1(x) if which == 1 else ok2(x)) == good:
                return x
    s = b''
    for i in range(crej + 1):
        x = xs(i == crej)
        if which == 1:
            s += fq_stream(rng, x, frej if i == 0 else 0)
        else:
            s += fq_stream(rng, x[0], frej if i == 0 else 0) + fq_stream(rng, x[1], 1 if frej and i == 0 else 0)
        s += bytes([rng.getrandbits(8)])
    return s


def worker(sh):
    rng = sh.rng
    lines, meta = [], []

    def add(line, *m):
        lines.append(line)
        meta.append(m)
    gc1, gc2 = points.GroupCtx(1), points.GroupCtx(2)
    directed = sh.index == 0
    # ---- hash to scalar
    hs = [rng.getrandbits(256) for _ in range(sh.pick(30, 2000))]
    if directed:
        hs += [0, 1, R - 1, R, R + 1, 2 * R - 1, (1 << 255) - 1, 1 << 255, (1 << 256) - 1, (1 << 255) | R, (1 << 255) | (R - 1)] + [1 << k for k in range(0, 256, 17)]
    for h in hs:
        add('c.zp_from_hash %s' % h.to_bytes(32, 'big').hex(), 'zp', h)
        add('c.scalar_hash_reduce %s' % C.le(h, 32), 'shr', h)
    # ---- hash to curve
    h1 = [rng.getrandbits(384) for _ in range(sh.pick(25, 1500))]
    if directed:
        h1 += [0, 1, Q - 1, Q, Q + 1, M381, (1 << 384) - 1, 1 << 383, 1 << 381, (7 << 381) | 5] + [1 << k for k in range(0, 384, 29)]
        for k in range(0, 9):
            x = find_start1(rng, k)
            h1 += [x, x | (rng.getrandbits(3) << 381)]
            if x + Q <= M381:
                h1.append(x + Q)
    # hashes whose point has its y at the boundary of the sort rule that picks the root (Montgomery form of y within a small distance of
    # (q-1)/2 on either side): x is a cube root of y^2 - 4
    if sh.index < 8:
        import c09
        for P, d in c09.boundary_y_points(rng, 6):
            h1.append(P[0] | (rng.getrandbits(3) << 381))
    # the far end of try-and-increment: inputs whose first curve point is MORE than 32 increments away (a 2^-32 fraction; these two were found
    # by a 12-thread exhaustive search during seeded round 9 and are re-verified by the reference model on every run)
    if sh.index < 4:
        assert tai1((LONG_RUN_G1 & M381) % Q)[1] == 34
        h1.append(LONG_RUN_G1)
    for h in h1:
        hb = h.to_bytes(48, 'big').hex()
        add('c.g1affine_from_hash %s' % hb, 'h1', h)
        if rng.random() < 0.4 or directed:
            add('c.lq_id_from_hash %s' % hb, 'id', h)
    # consecutive derivations from RELATED hashes (a derivation must not depend on the previous one): same hash twice, hashes sharing a
    # 16/32/40-byte prefix with the rest zeroed or changed, hashes sharing a suffix, in both orders
    if sh.index < 8:
        for _ in range(sh.pick(3, 30)):
            A = rng.getrandbits(384).to_bytes(48, 'big')
            variants = [A]
            for cut in (16, 32, 40, 47):
                variants += [A[:cut] + bytes(48 - cut), A[:cut] + bytes(rng.getrandbits(8) for _ in range(48 - cut))]
            variants += [bytes(16) + A[16:], bytes([A[0] ^ 1]) + A[1:], A[:47] + bytes([A[47] ^ 1])]
            # the same words in another order, and edits that leave every word-wise xor / sum of the hash unchanged: what a digest-of-the-
            # digest key (a folded tag, a checksum) cannot tell apart
            for wlen in (8, 4, 16):
                ws = [A[i:i + wlen] for i in range(0, 48, wlen)]
                i, j = rng.sample(range(len(ws)), 2)
                sw = list(ws); sw[i], sw[j] = sw[j], sw[i]
                variants.append(b''.join(sw))
                variants.append(b''.join(ws[1:] + ws[:1]))
            x = bytearray(A); bit = 1 << rng.randrange(8); o = rng.randrange(8); x[o] ^= bit; x[o + 8 * rng.randrange(1, 6)] ^= bit
            variants.append(bytes(x))
            x = bytearray(A); o = rng.randrange(40); d = rng.randrange(1, 256)
            if x[o + 7] + d < 256 and x[o + 7 + 8 if o + 15 < 48 else o + 7] - d >= 0 and o + 15 < 48:
                x[o + 7] += d; x[o + 15] -= d
                variants.append(bytes(x))
            seq = [A]
            for v in variants[1:]:
                seq += [v, A] if rng.random() < 0.5 else [A, v]
            for v in seq + seq[::-1]:
                h = int.from_bytes(v, 'big')
                add('c.lq_id_from_hash %s' % v.hex(), 'id', h)
                if rng.random() < 0.3:
                    add('c.g1affine_from_hash %s' % v.hex(), 'h1', h)
    h2 = [(rng.getrandbits(384), rng.getrandbits(384)) for _ in range(sh.pick(12, 700))]
    if directed:
        h2 += [(0, 0), (Q - 1, Q - 1), (Q, Q), (M381, M381), ((1 << 384) - 1, (1 << 384) - 1), (1, 0), (0, 1)]
        for k in range(0, 8):
            x = find_start2(rng, k)
            h2.append((x[1] | (rng.getrandbits(3) << 381), x[0] | (rng.getrandbits(3) << 381)))
        # c0 wraps around q while incrementing
        for _ in range(3):
            # (c1 is drawn until c0 = q-1 itself is not an abscissa, so that at least one increment - the wrap - really happens: the
            #  class is required, and with a blind draw every eighth seed missed it and ended inconclusive)
            while True:
                c1 = rng.randrange(Q)
                if tai2((Q - 1, c1))[1] >= 1:
                    break
            h2.append((c1, Q - 1))
    # abscissas whose x^3 + b lies in a proper subfield-like slice of Fq2 - the square root then takes its special branches: right-hand
    # side in Fq (a residue there: real root; a non-residue: purely imaginary root) or purely imaginary.  2^-381 for a random hash.
    for _ in range(sh.pick(4, 24)):
        want_real = rng.random() < 0.6
        for _try in range(200):
            if want_real:
                x1 = rng.randrange(1, Q)
                t = (x1 * x1 * x1 - 4) * pow(3 * x1, -1, Q) % Q          # Im(x^3) + 4 = 3 x0^2 x1 - x1^3 + 4 = 0
                if O.fq_legendre(t) != 1:
                    continue
                x0 = O.fq_sqrt(t)
                x0 = rng.choice([x0, Q - x0])
            else:
                x0 = rng.randrange(1, Q)
                t = (x0 * x0 * x0 + 4) * pow(3 * x0, -1, Q) % Q          # Re(x^3) + 4 = x0^3 - 3 x0 x1^2 + 4 = 0
                if O.fq_legendre(t) != 1:
                    continue
                x1 = O.fq_sqrt(t)
                x1 = rng.choice([x1, Q - x1])
            r2 = rhs2((x0, x1))
            assert r2[1 if want_real else 0] == 0
            h2.append((x1 | (rng.getrandbits(3) << 381), x0 | (rng.getrandbits(3) << 381)))
            break
    if sh.index < 4:
        assert tai2(((LONG_RUN_G2[1] & M381) % Q, (LONG_RUN_G2[0] & M381) % Q))[1] == 35
        h2.append(LONG_RUN_G2)
    for (f0, f1) in h2:      # f0 = first 48 bytes (c1), f1 = second (c0)
        add('c.g2affine_from_hash %s' % (f0.to_bytes(48, 'big') + f1.to_bytes(48, 'big')).hex(), 'h2', f0, f1)
    # ---- samplers
    plans = [(0, 0), (1, 0), (4, 0), (0, 1), (0, 3), (2, 2), (0, 6)] if sh.index < 6 else []
    plans += [(rng.randrange(2), rng.randrange(3)) for _ in range(sh.pick(3, 60))]
    for (fr, cr) in plans:
        for which, opn in ((1, 'c.g1_random'), (2, 'c.g2_random'), (1, 'c.wkd_random_g1'), (2, 'c.wkd_random_g2')):
            if which == 2 and rng.random() < 0.5 and not directed:
                continue
            s = group_stream(which, rng, fr, cr)
            add('%s %s' % (opn, s.hex()), 'grand', which, s)
    for _ in range(sh.pick(3, 40)):
        s = rng.getrandbits(8 * 49 * 30).to_bytes(49 * 30, 'little')
        add('c.g1_random %s' % s.hex(), 'grand', 1, s)
    if sh.index < 8:
        for which, opn in ((1, 'c.g1_random'), (2, 'c.g2_random'), (1, 'c.wkd_random_g1'), (2, 'c.wkd_random_g2')):
            s = torsion_stream(which, rng, 1 + (sh.index % 2))
            add('%s %s' % (opn, s.hex()), 'grand', which, s)
            s = torsion_stream(which, rng, 2, small=True)
            add('%s %s' % (opn, s.hex()), 'grand', which, s)
    for (dr, orj) in ([(0, 0), (2, 0), (0, 1), (5, 1)] if sh.index < 4 else []) + [(rng.randrange(2), 0) for _ in range(sh.pick(2, 30))]:
        s = make_stream(rng, dr, orj)
        add('rc.pox.random %s' % s.hex(), 'prand', s)
    if sh.index < 6:
        for delta in (0, -1, 1):
            add('rc.pox.random %s' % boundary_stream(rng, delta).hex(), 'prand', boundary_stream(rng, delta))
            lines[-1] = 'rc.pox.random %s' % meta[-1][1].hex()
    if sh.index < 8:
        XA = O.XA
        for pos in range(4):
            for first in (XA, XA - 1, XA + 1):
                if pos == 3 and first == XA - 1:
                    continue
                es = digit_edge_stream(rng, pos, first)
                add('rc.pox.random %s' % es.hex(), 'prand', es)
        # a field / scalar draw exactly on the rejection boundary: modulus (must be redrawn), modulus - 1 (largest admissible), modulus + 1
        for d in (0, -1, 1):
            tail48 = (rng.randrange(Q) | (rng.getrandbits(3) << 381)).to_bytes(48, 'little')
            s = ((Q + d) | (rng.getrandbits(3) << 381)).to_bytes(48, 'little') + tail48
            add('Fq.random %s' % s.hex(), 'fqrand', s)
            s2 = (rng.randrange(Q)).to_bytes(48, 'little') + ((Q + d)).to_bytes(48, 'little') + tail48
            add('Fq2.random %s' % s2.hex(), 'fq2rand', s2)
            for topbit in (0, 1):
                rs = ((R + d) | (topbit << 255)).to_bytes(32, 'little') + (rng.randrange(1, R)).to_bytes(32, 'little') + (rng.randrange(1, R)).to_bytes(32, 'little')
                add('c.zp_random %s' % rs.hex(), 'zprand', rs)
                add('c.random_zpstar %s' % rs.hex(), 'zprand', rs)
    for k in range(0, sh.pick(4, 40)):
        nrej = k % 7
        v = rng.randrange(Q)
        s = fq_stream(rng, v, nrej)
        add('Fq.random %s' % s.hex(), 'fqrand', s)
        s2 = fq_stream(rng, rng.randrange(Q), nrej) + fq_stream(rng, rng.randrange(Q), (nrej + 1) % 3)
        add('Fq2.random %s' % s2.hex(), 'fq2rand', s2)
        rs = b''.join((rng.randrange(R, 1 << 255) | (rng.getrandbits(1) << 255)).to_bytes(32, 'little') for _ in range(nrej)) + (rng.randrange(R) | (rng.getrandbits(1) << 255)).to_bytes(32, 'little')
        add('c.zp_random %s' % rs.hex(), 'zprand', rs)
        add('c.random_zpstar %s' % rs.hex(), 'zprand', rs)

    outs = session.run_all(sh, sh.payload['cfgs'], lines)
    for line, m, out in zip(lines, meta, outs):
        if out is None:
            continue
        op = line.split(' ')[0]

        def fail(msg, key):
            sh.violation(key, '%s: %s -> %s' % (msg, line[:260], ' '.join(out)[:260]), {'line': line, 'got': ' '.join(out)})
        try:
            kind = m[0]
            if kind in ('zp', 'shr'):
                h = m[1]
                v = C.unle(out[1])
                exp = (h & ((1 << 255) - 1)) % R
                cls = ('masked>=r' if (h & ((1 << 255) - 1)) >= R else 'masked<r') + ('/topbit' if h >> 255 else '')
                if v != exp:
                    fail('result is not (h mod 2^255) mod r', 'hash:%s' % op)
                sh.event(op, cls)
            elif kind == 'h1':
                h = m[1]
                P = gc1.dec_a(out[1])
                start = (h & M381) % Q
                x, n = tai1(start)
                cls = 'incr%s%s%s' % (min(n, 9) if n < 32 else '>=32', '/flagbits' if h >> 381 else '', '/>=q' if (h & M381) >= Q else '')
                if P is None or not O.E1.on_curve(P):
                    fail('from_hash result is not a curve point', 'hash:%s:off-curve' % op)
                elif P[0] != x:
                    fail('abscissa is not the first x >= hashed value with x^3+4 a square (expected +%d)' % n, 'hash:%s:not-first-x' % op)
                elif O.sort_greater(1, P[1]):
                    # the function has always returned the root its sort rule calls smaller; identities derived from it are stored and exchanged
                    fail('ordinate is the greater of the two roots (sort rule: order of the Montgomery forms)', 'hash:%s:root-choice' % op)
                else:
                    ym = P[1] * O.RQ % Q
                    if min(abs(ym - (Q - 1) // 2), abs(ym - (Q + 1) // 2)) < (1 << 65):
                        cls += '/y-at-sort-boundary'
                sh.event(op, cls)
                if sh.index == 0:
                    sh.sample({'op': op, 'hash': hex(h), 'increments': n, 'x': hex(x)}, limit=3)
            elif kind == 'id':
                h = m[1]
                P = gc1.dec_a(out[1])
                start = (h & M381) % Q
                x, n = tai1(start)
                y = O.fq_sqrt(rhs1(x))
                e = O.E1.mul((x, y), O.H1)
                # a try-and-increment point of order dividing the cofactor (e.g. x = 0, order 3) legitimately maps to the identity,
                # which is a member of G1; the property only asks for membership
                cls = ('incr%d' % min(n, 9)) + ('/maps-to-identity' if e is None else '')
                if P is not None and (not O.E1.on_curve(P) or O.E1.mul(P, R) is not None):
                    fail('derived identity point is not in G1', 'hash:%s:not-in-subgroup' % op)
                if not (O.E1.eq(P, e) or O.E1.eq(P, O.E1.neg(e))):
                    fail('identity point is not cofactor * try-and-increment point', 'hash:%s:not-cofactor-multiple' % op)
                elif e is not None and not O.E1.eq(P, e if not O.sort_greater(1, y) else O.E1.neg(e)):
                    fail('identity point is the cofactor multiple of the GREATER root (sort rule: order of the Montgomery forms)', 'hash:%s:root-choice' % op)
                sh.event(op, cls)
            elif kind == 'h2':
                f0, f1 = m[1], m[2]
                P = gc2.dec_a(out[1])
                start = ((f1 & M381) % Q, (f0 & M381) % Q)
                x, n = tai2(start)
                cls = 'incr%s%s%s' % (min(n, 9) if n < 32 else '>=32', '/flagbits' if (f0 >> 381 or f1 >> 381) else '', '/c0-wraps' if start[0] + n >= Q else '')
                rr = rhs2(x)
                if rr[1] == 0 or rr[0] == 0:
                    cls += '/rhs-in-Fq:%s' % ('residue' if O.fq_legendre(rr[0]) == 1 else 'non-residue') if rr[1] == 0 else '/rhs-imaginary'
                if P is None or not O.E2.on_curve(P):
                    fail('from_hash result is not a curve point', 'hash:%s:off-curve' % op)
                elif P[0] != x:
                    fail('abscissa is not the first x (stepping c0) with x^3+b a square (expected +%d)' % n, 'hash:%s:not-first-x' % op)
                elif O.sort_greater(2, P[1]):
                    fail('ordinate is the greater of the two roots (sort rule: order of the Montgomery forms, u-coefficient first)', 'hash:%s:root-choice' % op)
                sh.event(op, cls)
            elif kind == 'grand':
                which, s = m[1], m[2]
                gc = gc1 if which == 1 else gc2
                E = gc.E
                P = gc.dec_p(out[1])
                consumed, exhausted = int(out[2]), int(out[3])
                if P is None:
                    fail('sampled group element is the identity', 'sampler:%s:identity' % op)
                elif not E.on_curve(P) or E.mul(P, R) is not None:
                    fail('sampled group element is not in the order-r subgroup', 'sampler:%s:not-in-subgroup' % op)
                rep = replay_group(which, s)
                if rep is None or exhausted:
                    cls = 'stream-exhausted(membership only)'
                else:
                    x, sb, pos, frej, crej = rep
                    cls = 'field-rej%d/curve-rej%d' % (min(frej, 5), min(crej, 7)) + ('/torsion-retry%d' % TORSION_RETRIES[0] if TORSION_RETRIES[0] else '')
                    y = O.fq_sqrt(rhs1(x)) if which == 1 else O.f2_sqrt(rhs2(x))
                    e = E.mul((x, y), gc.cof)
                    if consumed != pos:
                        fail('sampler consumed %d bytes, the specified sampler %d' % (consumed, pos), 'sampler:%s:replay' % op)
                    elif P is not None and not (E.eq(P, e) or E.eq(P, E.neg(e))):
                        fail('result is not cofactor * (first acceptable x, +-y)', 'sampler:%s:not-cofactor-multiple' % op)
                sh.event(op, cls)
            elif kind == 'prand':
                s = m[1]
                y = C.unle(out[1])
                digs = [C.unle(t) for t in out[2:6]]
                rep = sampler_replay(s)
                if y >= R or sum(c * O.XA ** i for i, c in enumerate(digs)) != y or any(c >= O.XA for c in digs):
                    fail('decomposed exponent inconsistent with the returned scalar / out of range', 'sampler:PowersOfX::random:consistency')
                cls = 'exhausted' if rep is None else 'digit-rej%d/outer-rej%d' % (min(rep[3], 9), rep[4])
                if rep is not None and (rep[0] != y or int(out[6]) != rep[2]):
                    fail('exponent differs from the specified sampler on this stream', 'sampler:PowersOfX::random:replay')
                sh.event('PowersOfX::random', cls)
            elif kind in ('fqrand', 'fq2rand'):
                s = m[1]
                n = 1 if kind == 'fqrand' else 2
                toks = out[1]
                pos = 0
                rejs = 0
                for i in range(n):
                    raw = C.unle(toks[96 * i:96 * (i + 1)])
                    v, pos, rj = replay_fq(s, pos)
                    rejs += rj
                    if raw >= Q:
                        fail('sampled field element not below q', 'sampler:%s:range' % op)
                    if v is not None and O.fq_from_raw(raw) != v:
                        fail('sampled element is not the first draw below q', 'sampler:%s:replay' % op)
                if int(out[2]) != pos:
                    fail('byte consumption differs', 'sampler:%s:replay' % op)
                sh.event(op, 'rej%d' % min(rejs, 9))
            elif kind == 'zprand':
                s = m[1]
                v = C.unle(out[1])
                pos = 0
                rj = 0
                exp = None
                while pos + 32 <= len(s):
                    c = int.from_bytes(s[pos:pos + 32], 'little') & ((1 << 255) - 1)
                    pos += 32
                    if c < R:
                        exp = c
                        break
                    rj += 1
                if v >= R:
                    fail('sampled scalar not below r', 'sampler:%s:range' % op)
                if exp is not None and (v != exp or int(out[2]) != pos):
                    fail('sampled scalar is not the first draw below r', 'sampler:%s:replay' % op)
                sh.event(op, 'rej%d' % min(rj, 9))
        except C.NonCanonical as ex:
            sh.violation('canonical:%s' % op, '%s in result of %s' % (ex, line[:200]), {'line': line})


def run(ctx):
    O.selftest(random.Random(ctx.seed))
    cfgs = ['prod', 'san', 'p64', 'p32'] if ctx.quick else ['prod', 'san', 'p64', 'p32', 'x86base']
    specs = {c: (c if c != 'x86base' else 'prod', 'opdrv.cpp', ['--x86base'] if c == 'x86base' else []) for c in cfgs}
    exes = session.build_exes(specs)
    session.run_shards(ctx, worker, 16, exes, {'cfgs': cfgs})
    ctx.rule = ('events: outputs of zp_from_hash / scalar_hash_reduce / g1affine_from_hash / g2affine_from_hash / lqibe compute_id_from_hash and of every sampler '
                '(zp_random, random_zpstar, g1_random, g2_random, wkdibe random_g1/g2, PowersOfX::random, Fq/Fq2::random) with the exact byte stream delivered by the callback; '
                'oracle: (h mod 2^255) mod r; result on curve with the FIRST abscissa >= masked-and-reduced hash for which x^3+b is a square (c0 stepped for Fq2); identity = cofactor '
                'multiple in G1; samplers replayed on the recorded stream (rejections of field elements and of non-residue abscissas), result = cofactor * that point up to sign, '
                '[r]P=O, P != O; byte-identical across builds (platform independence); class = (operation, increments / rejection counts / flag bits)')
    ctx.extra['configs'] = cfgs
    ctx.extra['not_judged'] = 'which of the two roots y is selected (deterministic and build-independent is checked by the differential runs)'
    ctx.assumptions = ['Python integer arithmetic', 'oracle/bls.py']
    need = ['c.g1affine_from_hash|incr0', 'c.g1affine_from_hash|incr6', 'c.g1affine_from_hash|incr8', 'c.g2affine_from_hash|incr5', 'c.g2affine_from_hash|incr0', 'c.lq_id_from_hash|incr',
            'c.g1_random|field-rej0/curve-rej3', 'c.g2_random|field-rej0/curve-rej3', 'c.g1_random|field-rej4', 'c.wkd_random_g1|', 'c.wkd_random_g2|', 'c.zp_from_hash|masked>=r',
            'PowersOfX::random|digit-rej0/outer-rej1', 'Fq2.random|', 'c.zp_random|rej3', 'c.random_zpstar|']
    for G in ('c.g1_random', 'c.g2_random', 'c.wkd_random_g1', 'c.wkd_random_g2'):
        if not any(k.startswith(G + '|') and 'torsion-retry' in k for k in ctx.classes):
            ctx.required_classes.add(G + '|torsion-retry')
    if not any('c0-wraps' in k for k in ctx.classes):
        ctx.required_classes.add('c.g2affine_from_hash|c0-wraps')
    for r in need:
        if not any(k.startswith(r) for k in ctx.classes):
            ctx.required_classes.add(r)
    return None
