"""C09 - point encodings round-trip; validating decode accepts only canonical encodings of subgroup points."""
import random

import session
import codec as C
import points
from oracle import bls as O
from c06 import GenTable

Q, R = O.Q, O.R
F_COMP, F_INF, F_GT = 0x80, 0x40, 0x20
M381 = (1 << 381) - 1


def coord_bytes(gc, v):
    if gc.which == 1:
        return v.to_bytes(48, 'big')
    return v[1].to_bytes(48, 'big') + v[0].to_bytes(48, 'big')     # c1 first, then c0


def parse_fields(gc, data):
    """split an encoding into raw 48-byte integers"""
    return [int.from_bytes(data[i:i + 48], 'big') for i in range(0, len(data), 48)]


def spec_validate(gc, data, compressed):
    """Independent statement of 'the encoding the library itself would produce for a point on the curve and in the subgroup'.
    returns ('invalid', reason) | ('valid', point) | ('valid-x', x) for compressed (y fixed by the flag, either root acceptable here,
    pinned afterwards by re-encoding)"""
    E = gc.E
    fl = data[0] & 0xe0
    if bool(fl & F_COMP) != compressed:
        return 'invalid', 'wrong-form-flag'
    fields = parse_fields(gc, data)
    first = fields[0] & M381
    rest = fields[1:]
    if fl & F_INF:
        if (fl & F_GT) or first != 0 or any(rest):
            return 'invalid', 'malformed-infinity'
        return 'valid', None
    if any(f >> 381 for f in rest):
        return 'invalid', 'flag-bits-in-later-field'
    vals = [first] + rest
    if any(v >= Q for v in vals):
        return 'invalid', 'coordinate-not-reduced'
    nf = 1 if gc.which == 1 else 2
    if gc.which == 1:
        x = vals[0]
        F_mul = lambda a, b: a * b % Q
        rhs = (x * x * x + 4) % Q
        is_sq = O.fq_legendre(rhs) != -1
    else:
        x = (vals[1], vals[0])
        rhs = O.f2_add(O.f2_mul(O.f2_sqr(x), x), E.b)
        is_sq = O.f2_legendre_fast(rhs) != -1
    if compressed:
        if not is_sq:
            return 'invalid', 'x-has-no-y'
        y = O.fq_sqrt(rhs) if gc.which == 1 else O.f2_sqrt(rhs)
        P = (x, y)
        if E.mul(P, R) is not None:
            return 'invalid', 'not-in-subgroup'
        return 'valid-x', x
    if fl & F_GT:
        return 'invalid', 'greater-flag-on-uncompressed'
    y = vals[1] if gc.which == 1 else (vals[3], vals[2])
    P = (x, y)
    if not E.on_curve(P):
        return 'invalid', 'off-curve'
    if E.mul(P, R) is not None:
        return 'invalid', 'not-in-subgroup'
    return 'valid', P


def mutations(gc, P, comp_bytes, unc_bytes, rng, pool):
    """hostile neighbourhood of one valid encoding: (label, compressed?, bytes)"""
    out = []
    cb, ub = bytearray(comp_bytes), bytearray(unc_bytes)
    nf = 48 if gc.which == 1 else 96
    # other form's flag
    t = bytearray(cb); t[0] &= ~F_COMP & 0xff; out.append(('comp-without-flag', True, bytes(t)))
    t = bytearray(ub); t[0] |= F_COMP; out.append(('unc-with-comp-flag', False, bytes(t)))
    t = bytearray(ub); t[0] |= F_GT; out.append(('unc-with-greater-flag', False, bytes(t)))
    # the same string offered as the other form's length
    out.append(('unc-prefix-as-comp', True, bytes(ub[:nf])))
    out.append(('comp-padded-as-unc', False, bytes(cb) + bytes(nf)))
    # infinity flag with payload / greater flag
    t = bytearray(cb); t[0] |= F_INF; out.append(('inf-flag-with-payload', True, bytes(t)))
    t = bytearray(ub); t[0] |= F_INF; out.append(('inf-flag-with-payload', False, bytes(t)))
    t = bytearray(nf); t[0] = F_COMP | F_INF | F_GT; out.append(('inf-with-greater', True, bytes(t)))
    t = bytearray(nf); t[0] = F_COMP | F_INF; t[-1] = 1; out.append(('inf-with-low-bit', True, bytes(t)))
    t = bytearray(2 * nf); t[0] = F_INF; t[nf] = 1; out.append(('inf-with-y-payload', False, bytes(t)))
    t = bytearray(2 * nf); t[0] = F_INF; t[-1] = 1; out.append(('inf-with-y-payload', False, bytes(t)))
    # identity flag followed by padding that PARSES to zero without being zero: a later 48-byte field holding exactly q (reduces to 0), q with
    # control bits, or control bits alone (masked off by the coordinate parser); also the first field holding q below the flag bits
    qb = Q.to_bytes(48, 'big')
    for comp in (True, False):
        n = nf if comp else 2 * nf
        flags = (F_COMP if comp else 0) | F_INF
        for fi in range(n // 48):
            variants = [qb, bytes([qb[0] | 0x80]) + qb[1:], bytes([qb[0] | 0xe0]) + qb[1:]] + [bytes([b]) + bytes(47) for b in (0x80, 0x40, 0x20, 0xe0)]
            for v in variants:
                t = bytearray(n); t[0] = flags
                if fi == 0:
                    if v[0] & 0xe0 or not any(v[1:]):
                        continue             # the first field's top bits ARE the flags
                    t[0:48] = v; t[0] |= flags
                else:
                    t[48 * fi:48 * fi + 48] = v
                out.append(('inf-with-padding-that-parses-to-zero', comp, bytes(t)))
    # identity flag followed by padding that is not zero but NEUTRAL for a word-wise accumulator: two lanes that cancel under +
    # (v and 2^w - v), two equal lanes (cancel under xor), all lanes all-ones plus a correcting lane - for lane widths 8, 4 and 2 bytes,
    # either endianness, lanes chosen anywhere in the string (also lane 0, which holds the flags)
    for comp in (True, False):
        n = nf if comp else 2 * nf
        for w in (8, 4, 2):
            for _ in range(3):
                t = bytearray(n); t[0] = F_INF | (F_COMP if comp else 0)
                lanes = n // w
                i, j = rng.sample(range(lanes), 2)
                v = rng.randrange(1, 1 << (8 * w))
                order = rng.choice(['little', 'big'])
                kind = rng.choice(['sum', 'xor', 'sum-flags'])
                if kind == 'sum-flags' or 0 in (i, j):
                    # one of the two lanes is lane 0: the other lane must cancel the flag byte's contribution as well
                    i, j = 0, max(i, j, 1)
                    lane0 = int.from_bytes(bytes(t[0:w]), order)
                    extra = rng.choice([0, F_GT])              # optionally a stray sort bit, cancelled by the other lane
                    t[0] |= extra
                    lane0m = int.from_bytes(bytes(t[0:w]), order) - lane0 if extra else 0
                    # lanes other than 0 carry v and -(v + stray) so that masked lane 0 + others == 0
                    k = rng.choice([x for x in range(1, lanes) if x != j] or [j])
                    if k != j:
                        t[k * w:(k + 1) * w] = v.to_bytes(w, order)
                        t[j * w:(j + 1) * w] = ((-(v + lane0m)) % (1 << (8 * w))).to_bytes(w, order)
                    else:
                        t[j * w:(j + 1) * w] = ((-lane0m) % (1 << (8 * w))).to_bytes(w, order)
                elif kind == 'sum':
                    t[i * w:(i + 1) * w] = v.to_bytes(w, order)
                    t[j * w:(j + 1) * w] = ((1 << (8 * w)) - v).to_bytes(w, order)
                else:
                    t[i * w:(i + 1) * w] = v.to_bytes(w, order)
                    t[j * w:(j + 1) * w] = v.to_bytes(w, order)
                if any(t[1:]) or (t[0] & 0x3f):
                    out.append(('inf-with-accumulator-neutral-padding', comp, bytes(t)))
    # flipped greater flag = the opposite point (valid)
    t = bytearray(cb); t[0] ^= F_GT; out.append(('flip-greater(valid)', True, bytes(t)))
    # y perturbed / negated-and-perturbed
    t = bytearray(ub); t[-1] ^= 1; out.append(('y-perturbed', False, bytes(t)))
    t = bytearray(ub); t[nf - 1] ^= 1; out.append(('x-perturbed-unc', False, bytes(t)))
    t = bytearray(cb); t[-1] ^= 1; out.append(('x-perturbed-comp', True, bytes(t)))
    # non-reduced coordinates: field + q wherever it still fits into 381 bits
    for form, src in ((True, cb), (False, ub)):
        nfields = len(src) // 48
        for fi in range(nfields):
            v = int.from_bytes(src[48 * fi:48 * fi + 48], 'big')
            fl = (v >> 381) << 381
            vv = v & M381
            if vv + Q <= M381:
                t = bytearray(src)
                t[48 * fi:48 * fi + 48] = ((vv + Q) | fl).to_bytes(48, 'big')
                out.append(('field%d+q' % fi, form, bytes(t)))
            if fi > 0:
                for bit in (0x80, 0x40, 0x20, 0xe0):
                    t = bytearray(src)
                    t[48 * fi] |= bit
                    out.append(('flagbits-in-field%d' % fi, form, bytes(t)))
        # the same stray bits in SEVERAL later fields (their first bytes sit in equivalent positions of every 2-, 4-, 8-, 16-byte lane): a
        # comparison with the canonical form that folds differences with xor or + instead of or sees them cancel
        later = list(range(1, nfields))
        for a in range(len(later)):
            for b in range(a + 1, len(later)):
                for bit in (0x20, 0x80, 0xe0):
                    t = bytearray(src)
                    t[48 * later[a]] |= bit
                    t[48 * later[b]] |= bit
                    out.append(('flagbits-in-fields%d+%d' % (later[a], later[b]), form, bytes(t)))
        if len(later) >= 3:
            t = bytearray(src)
            for fi in later:
                t[48 * fi] |= 0x40
            out.append(('flagbits-in-all-later-fields', form, bytes(t)))
            # ... and pairs that cancel under addition: 0x80 + 0x80 wraps a byte, 0x40 + 0x40 + 0x80
            t = bytearray(src); t[48 * later[0]] |= 0x40; t[48 * later[1]] |= 0x40; t[48 * later[2]] |= 0x80
            out.append(('flagbits-summing-to-zero', form, bytes(t)))
    # a point of an isomorphic curve y^2 = x^3 + lambda^6 b: (lambda^2 x, lambda^3 y).  The group-law formulas never use b, so
    # multiplication by r still gives the identity: only the curve-equation check can reject it (uncompressed form)
    for _ in range(2):
        if gc.which == 1:
            lam = rng.randrange(2, Q)
            l2, l3 = lam * lam % Q, lam * lam * lam % Q
            if pow(lam, 6, Q) == 1:
                continue
            iso = (P[0] * l2 % Q, P[1] * l3 % Q)
        else:
            lam = (rng.randrange(1, Q), rng.randrange(Q))
            l2 = O.f2_sqr(lam)
            l3 = O.f2_mul(l2, lam)
            if O.f2_pow(lam, 6) == O.F2_ONE:
                continue
            iso = (O.f2_mul(P[0], l2), O.f2_mul(P[1], l3))
        out.append(('isomorphic-curve-point', False, coord_bytes(gc, iso[0]) + coord_bytes(gc, iso[1])))
    # ... and points of SMALL prime order dividing the cofactor (13, 23, 2713 on the twist; 3, 11, 10177 on the curve): a subgroup test
    # that is not literally "[r]P = O" (an endomorphism shortcut, a comparison of abscissas only) tends to let exactly these through
    smalls = []
    for ell in O.SMALL_ORDERS[gc.which][:2]:
        T, _ = O.small_order_point(gc.which, rng, ell)
        smalls.append(T)
    for S in smalls:
        xb = coord_bytes(gc, S[0])
        yb = coord_bytes(gc, S[1])
        t = bytearray(xb); t[0] |= F_COMP | (F_GT if O.sort_greater(gc.which, S[1]) else 0); out.append(('not-in-subgroup', True, bytes(t)))
        out.append(('not-in-subgroup', False, xb + yb))
    # abscissa of a curve point outside the subgroup, both forms
    for S in pool.curve[:2]:
        xb = coord_bytes(gc, S[0])
        yb = coord_bytes(gc, S[1])
        for gt in (0, F_GT):
            t = bytearray(xb); t[0] |= F_COMP | gt; out.append(('not-in-subgroup', True, bytes(t)))
        out.append(('not-in-subgroup', False, xb + yb))
    return out


def degenerate_y_points(rng, n):
    """points of the twist E'(Fq2) whose y has a ZERO component (y real, or y purely imaginary): the sign rule 'compare y with -y,
    c1 first, then c0' takes its second arm only for them.  x = x0 + x1 u must make Im(x^3 + 4 + 4u) = 3 x0^2 x1 - x1^3 + 4 vanish;
    then x^3 + b is in Fq and y is real if it is a square there, purely imaginary otherwise.  (Not subgroup points: a validating
    decode must reject them; a non-validating decode must still return the root that was encoded.)"""
    out = []
    inv3 = pow(3, -1, Q)
    while len(out) < n:
        x1 = rng.randrange(1, Q)
        t = (pow(x1, 3, Q) - 4) * inv3 % Q * pow(x1, -1, Q) % Q
        if O.fp_legendre(t, Q) != 1:
            continue
        x0 = O.fp_sqrt(t, Q) if hasattr(O, 'fp_sqrt') else pow(t, (Q + 1) // 4, Q)
        if x0 * x0 % Q != t:
            continue
        real = (pow(x0, 3, Q) - 3 * x0 * x1 * x1 + 4) % Q
        if real == 0:
            continue
        if O.fp_legendre(real, Q) == 1:
            y = (pow(real, (Q + 1) // 4, Q), 0)
        else:
            y = (0, pow((-real) % Q, (Q + 1) // 4, Q))
        P = ((x0, x1), y)
        if O.E2.on_curve(P):
            out.append(P)
    return out


def boundary_y_points(rng, n):
    """G1 curve points whose y sits at the boundary of the sort rule: the Montgomery form of y is (q-1)/2 - d or (q+1)/2 + d for d = 0, 1,
    2^j, a few random d below 2^20 / 2^64 - the neighbourhood in which 'is y greater than -y' flips.  (Not subgroup points in general.)"""
    out = []
    half = (Q - 1) // 2
    rinv = pow(O.RQ, -1, Q)
    ds = [0, 1, 2, 3] + [1 << j for j in (4, 8, 12, 14, 15, 16, 20, 32, 63, 64)] + [rng.randrange(1 << 15), rng.randrange(1 << 20), rng.randrange(1 << 64)]
    rng.shuffle(ds)
    for d in ds:
        for ym in (half - d, half + 1 + d):
            y = ym * rinv % Q
            x = O.fq_cbrt((y * y - 4) % Q)
            if x is not None:
                out.append(((x, y), d))
        if len(out) >= n:
            break
    return out


def worker(sh):
    rng = sh.rng
    lines, meta = [], []
    for which in (1, 2):
        gc = points.GroupCtx(which)
        tab = GenTable(gc)
        pool = points.Pool(gc, rng, n_random=1, n_curve=2)
        nf = 48 if which == 1 else 96
        cn = gc.cname
        # (i)+(ii) round trips of reference-made points
        ks = [0, 1, 2, R - 1] + [rng.randrange(R) for _ in range(sh.pick(10, 200) if which == 1 else sh.pick(5, 100))]
        enc_of = {}
        for k in ks:
            P = tab.mul(k)
            for comp in (1, 0):
                lines.append('c.%s_marshal %d %s' % (cn, comp, gc.aff(P, rng, True)))
                meta.append(('marshal', gc, P, comp, k))
            lines.append('c.%s_marshal 1 %s' % (cn, gc.aff(gc.E.neg(P), rng, True)))
            meta.append(('marshal-neg', gc, P, 1, k))
        degs = {}
        if which == 2 and sh.index < 8:
            for j, P in enumerate(degenerate_y_points(rng, 2)):
                degs['deg%d' % j] = P
                for comp in (1, 0):
                    lines.append('c.%s_marshal %d %s' % (cn, comp, gc.aff(P)))
                    meta.append(('marshal', gc, P, comp, 'deg%d' % j))
                lines.append('c.%s_marshal 1 %s' % (cn, gc.aff(gc.E.neg(P))))
                meta.append(('marshal-neg', gc, P, 1, 'deg%d' % j))
        if which == 1 and sh.index < 8:
            for j, (P, d) in enumerate(boundary_y_points(rng, 6)):
                assert O.E1.on_curve(P)
                degs['bnd%d' % j] = P
                for comp in (1, 0):
                    lines.append('c.%s_marshal %d %s' % (cn, comp, gc.aff(P)))
                    meta.append(('marshal', gc, P, comp, 'bnd%d' % j))
                lines.append('c.%s_marshal 1 %s' % (cn, gc.aff(gc.E.neg(P))))
                meta.append(('marshal-neg', gc, P, 1, 'bnd%d' % j))
        # run marshal first to learn the library's encodings (needed to build the hostile neighbourhood)
        sh.payload.setdefault('_stage', {})[which] = (gc, tab, pool, ks, len(lines), degs)
    outs = session.run_all(sh, sh.payload['cfgs'], lines)
    encs = {}
    for line, m, out in zip(lines, meta, outs):
        if out is None:
            continue
        kind, gc, P, comp, k = m
        data = bytes.fromhex(out[1])
        nf = 48 if gc.which == 1 else 96

        def fail(msg, key):
            sh.violation(key, '%s: %s -> %s' % (msg, line[:200], out[1][:400]), {'line': line, 'got': ' '.join(out)})
        if int(out[2]) != 1:
            fail('marshal wrote outside its %d bytes' % len(data), 'format:%s_marshal:overrun' % gc.cname)
        fl = data[0] & 0xe0
        name = 'c.%s_marshal' % gc.cname
        if kind == 'marshal':
            if P is None:
                expflags = (F_COMP if comp else 0) | F_INF
                if fl != expflags or any(data[1:]) or data[0] & 0x1f:
                    fail('identity encoding is not flag byte + zeros', 'format:%s:identity' % name)
            else:
                fields = parse_fields(gc, data)
                xs = [fields[0] & M381] + (fields[1:2] if gc.which == 2 else [])
                xexp = [P[0]] if gc.which == 1 else [P[0][1], P[0][0]]
                if xs != xexp:
                    fail('x field is not the canonical big-endian coordinate (c1 then c0)', 'format:%s:x' % name)
                if comp:
                    if not (fl & F_COMP) or (fl & F_INF):
                        fail('flag bits wrong', 'format:%s:flags' % name)
                    # which of y, -y carries the flag is part of the wire format: the root the library's sort rule calls greater
                    if bool(fl & F_GT) != O.sort_greater(gc.which, P[1]):
                        fail('greater flag does not follow the sort rule (order of the Montgomery forms of y and -y)', 'format:%s:greater-rule' % name)
                    if isinstance(k, str) and k.startswith('bnd'):
                        sh.event(name, 'comp/y-at-sort-boundary')
                else:
                    if fl != 0:
                        fail('uncompressed encoding carries flag bits', 'format:%s:flags' % name)
                    ys = fields[1:] if gc.which == 1 else fields[2:]
                    yexp = [P[1]] if gc.which == 1 else [P[1][1], P[1][0]]
                    if ys != yexp:
                        fail('y field is not the canonical big-endian coordinate', 'format:%s:y' % name)
            encs[(gc.which, k, comp)] = data
            sh.event(name, '%s/%s' % ('comp' if comp else 'unc', 'identity' if P is None else 'point'))
        else:
            if P is not None:
                mine = encs.get((gc.which, k, 1))
                if mine is not None:
                    if mine[1:] != data[1:] or (mine[0] ^ data[0]) != F_GT:
                        fail('encodings of P and -P must differ exactly in the greater flag', 'format:%s:greater' % name)
                    encs[(gc.which, k, 'neg')] = data
            sh.event(name, 'negated-point', trivial=P is None)
    # stage 2: decode round trips + hostile neighbourhood
    lines2, meta2 = [], []
    for which in (1, 2):
        gc, tab, pool, ks, _, degs = sh.payload['_stage'][which]
        cn = gc.cname
        nf = 48 if which == 1 else 96
        for dk, P in degs.items():
            kindy = 'sort-boundary' if which == 1 else ('real' if P[1][1] == 0 else 'imaginary')
            for key, pt, comp in ((1, P, 1), ('neg', gc.E.neg(P), 1), (0, P, 0)):
                data = encs.get((which, dk, key))
                if data is not None:
                    lines2.append('c.%s_decenc %d %s' % (cn, comp, data.hex()))
                    meta2.append((gc, 'degenerate-y/%s' % kindy, comp, data, pt))
        for k in ks:
            P = tab.mul(k)
            cb, ub = encs.get((which, k, 1)), encs.get((which, k, 0))
            if cb is None or ub is None:
                continue
            for comp, data in ((1, cb), (0, ub)):
                lines2.append('c.%s_decenc %d %s' % (cn, comp, data.hex()))
                meta2.append((gc, 'roundtrip', comp, data, P))
            if P is None:
                continue
            budget = sh.pick(3, 40) if which == 1 else sh.pick(2, 20)
            if k in ks[:4] or ks.index(k) < 4 + budget:
                for label, comp, data in mutations(gc, P, cb, ub, rng, pool):
                    # history: every third hostile string is decoded right after a successful validating decode of the point it is a
                    # spelling / neighbour of (either form) - a verdict must not depend on what was validated just before
                    if rng.random() < 0.34:
                        pc, pdata = rng.choice(((1, cb), (0, ub)))
                        lines2.append('c.%s_decenc %d %s' % (cn, pc, pdata.hex()))
                        meta2.append((gc, 'roundtrip', pc, pdata, P))
                        label += '/after-validating-the-same-point'
                    lines2.append('c.%s_decenc %d %s' % (cn, int(comp), data.hex()))
                    meta2.append((gc, label, int(comp), data, None))
        # uniformly random strings and extreme strings
        for _ in range(sh.pick(60, 1500)):
            comp = rng.randrange(2)
            n = nf if comp else 2 * nf
            data = bytearray(rng.getrandbits(8 * n).to_bytes(n, 'big'))
            if rng.random() < 0.7:
                data[0] = (data[0] & 0x1f) | (F_COMP if comp else 0) | (F_GT if comp and rng.random() < 0.5 else 0)
                if rng.random() < 0.8:
                    data[0] &= 0x9f if comp else 0x0f       # keep x mostly below q
                    data[0] &= 0xef if (data[0] & 0x1f) >= 0x1a else 0xff
            lines2.append('c.%s_decenc %d %s' % (cn, comp, bytes(data).hex()))
            meta2.append((gc, 'random-string', comp, bytes(data), None))
        # every combination of the three flag bits over a zero payload and over a valid x payload, in both forms
        # (covers e.g. the identity encoding carrying the other form's compression flag)
        k0 = next((k for k in ks if tab.mul(k) is not None and encs.get((which, k, 1))), None)
        for comp in (0, 1):
            n = nf if comp else 2 * nf
            for fl in range(8):
                z = bytearray(n)
                z[0] = fl << 5
                lines2.append('c.%s_decenc %d %s' % (cn, comp, bytes(z).hex()))
                meta2.append((gc, 'flags%d%d%d-zero-payload' % (fl >> 2, (fl >> 1) & 1, fl & 1), comp, bytes(z), None))
                if k0 is not None:
                    v = bytearray(encs[(which, k0, 1 if comp else 0)])
                    v[0] = (v[0] & 0x1f) | (fl << 5)
                    lines2.append('c.%s_decenc %d %s' % (cn, comp, bytes(v).hex()))
                    meta2.append((gc, 'flags%d%d%d-valid-payload' % (fl >> 2, (fl >> 1) & 1, fl & 1), comp, bytes(v), None))
        for comp in (0, 1):
            n = nf if comp else 2 * nf
            for label, data in (('all-ff', b'\xff' * n), ('all-zero', bytes(n)), ('only-comp-flag', bytes([F_COMP]) + bytes(n - 1))):
                lines2.append('c.%s_decenc %d %s' % (cn, comp, data.hex()))
                meta2.append((gc, label, comp, data, None))
    outs2 = session.run_all(sh, sh.payload['cfgs'], lines2)
    for line, m, out in zip(lines2, meta2, outs2):
        if out is None:
            continue
        gc, label, comp, data, Pknown = m
        name = 'c.%s_unmarshal' % gc.cname
        E = gc.E

        def fail(msg, key):
            sh.violation(key, '%s [%s, %s]: %s' % (msg, label, 'compressed' if comp else 'uncompressed', line[:500]), {'line': line, 'got': ' '.join(out), 'label': label})
        try:
            i = 1
            okc = int(out[i]); i += 1
            Pc = reenc = None
            if okc:
                Pc = gc.dec_a(out[i]); reenc = bytes.fromhex(out[i + 1]); i += 2
            oku = int(out[i]); i += 1
            Pu = gc.dec_a(out[i], strict=False) if oku else None
        except C.NonCanonical as ex:
            sh.violation('canonical:%s' % name, '%s for %s' % (ex, line[:200]), {'line': line})
            continue
        verdict, info = spec_validate(gc, data, bool(comp))
        form = 'comp' if comp else 'unc'
        if verdict == 'invalid':
            cls = '%s/reject:%s/%s' % (form, info, label)
            if okc:
                # which validation is missing?
                fail('validating decode accepted a string that is not a canonical encoding of a subgroup point (%s)' % info, 'accept:%s:%s:%s' % (name, form, info))
        else:
            cls = '%s/accept/%s' % (form, label)
            if not okc:
                fail('validating decode rejected a canonical encoding', 'reject-valid:%s:%s' % (name, form))
            else:
                if verdict == 'valid' and not E.eq(Pc, info):
                    fail('decode returned a different point', 'decode:%s:%s:point' % (name, form))
                if verdict == 'valid-x' and (Pc is None or Pc[0] != info or not E.on_curve(Pc)):
                    fail('decode returned a point with another abscissa / off the curve', 'decode:%s:%s:point' % (name, form))
                if Pknown is not None and not E.eq(Pc, Pknown):
                    fail('round trip returned a different point', 'decode:%s:%s:roundtrip' % (name, form))
                if reenc != data:
                    fail('accepted string is not what the library itself encodes for the returned point', 'accept:%s:%s:not-reencodable' % (name, form))
                if not oku or not E.eq(Pu, Pc):
                    fail('non-validating decode of a valid encoding differs from validating decode', 'decode:%s:%s:unchecked-differs' % (name, form))
        if label.startswith('degenerate-y') and Pknown is not None:
            # outside the subgroup (so rejected above), but the non-validating decode must return exactly the root that was encoded
            if not oku or Pu is None or Pu != Pknown:
                fail('non-validating decode of the library\'s own encoding of a curve point with a zero y-component returned another point', 'decode:%s:%s:degenerate-y-root' % (name, form))
        if okc and Pc is not None and not (E.on_curve(Pc)):
            fail('accepted point is off the curve', 'accept:%s:%s:off-curve-result' % (name, form))
        sh.event(name, cls)
        if sh.index == 0 and label not in ('random-string', 'roundtrip'):
            sh.sample({'label': label, 'form': form, 'bytes': data.hex()[:64] + '...', 'spec': verdict if verdict != 'invalid' else info, 'library_accepts': bool(okc)}, limit=5)
    sh.payload.pop('_stage', None)


def run(ctx):
    O.selftest(random.Random(ctx.seed))
    cfgs = ['prod', 'san', 'p32'] if ctx.quick else ['prod', 'san', 'p64', 'p32', 'x86base']
    specs = {c: (c if c != 'x86base' else 'prod', 'opdrv.cpp', ['--x86base'] if c == 'x86base' else []) for c in cfgs}
    exes = session.build_exes(specs)
    session.run_shards(ctx, worker, 16, exes, {'cfgs': cfgs})
    ctx.rule = ('events: marshal of reference-made points (format judged byte by byte) and decode of byte strings: every valid encoding plus its hostile neighbourhood '
                '(other form flag, infinity with payload/greater flag, flipped greater flag, perturbed x/y, field+q wherever it fits in 381 bits, flag bits in later fields, '
                'abscissas of curve points outside the subgroup, random and extreme strings). Oracle: an independent statement of canonical validity (flags, reduced coordinates, '
                'curve equation, [r]P=O by reference arithmetic); accepted strings must re-encode to themselves and agree with the non-validating decode; '
                'class = (form, accept | reject reason, mutation label)')
    ctx.extra['configs'] = cfgs
    ctx.assumptions = ['Python integer arithmetic', 'oracle/bls.py curve arithmetic']
    need = ['c.g2_unmarshal|comp/reject:not-in-subgroup/degenerate-y/real', 'c.g2_unmarshal|comp/reject:not-in-subgroup/degenerate-y/imaginary']
    for G in ('g1', 'g2'):
        for c in ('comp', 'unc'):
            need += ['c.%s_unmarshal|%s/accept/roundtrip' % (G, c), 'c.%s_unmarshal|%s/reject:not-in-subgroup' % (G, c), 'c.%s_unmarshal|%s/reject:coordinate-not-reduced' % (G, c),
                     'c.%s_unmarshal|%s/reject:malformed-infinity' % (G, c), 'c.%s_unmarshal|%s/reject:wrong-form-flag' % (G, c)]
        need += ['c.%s_unmarshal|comp/reject:x-has-no-y' % G, 'c.%s_unmarshal|unc/reject:off-curve' % G, 'c.%s_unmarshal|unc/reject:greater-flag-on-uncompressed' % G,
                 'c.%s_unmarshal|unc/reject:flag-bits-in-later-field' % G, 'c.%s_unmarshal|comp/accept/flip-greater' % G, 'c.%s_marshal|comp/identity' % G]
    need += ['c.g1_unmarshal|unc/reject:off-curve/isomorphic-curve-point', 'c.g2_unmarshal|unc/reject:off-curve/isomorphic-curve-point', 'c.g2_unmarshal|comp/reject:flag-bits-in-later-field', 'c.g1_unmarshal|comp/reject:wrong-form-flag/flags010-zero-payload', 'c.g2_unmarshal|unc/reject:wrong-form-flag/flags110-zero-payload',
             'c.g1_unmarshal|comp/accept/flags110-zero-payload', 'c.g1_unmarshal|unc/accept/flags010-zero-payload']
    for r in need:
        if not any(k.startswith(r) for k in ctx.classes):
            ctx.required_classes.add(r)
    return None
