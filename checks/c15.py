"""C15 - scheme objects survive marshalling unchanged and length accounting is exact."""
import random

import session
import codec as C
from oracle import bls as O

Q = O.Q
M381 = (1 << 381) - 1


def parse_gen(out_line):
    """'gen  kind=.. c=.. ... bytes= <hex> elems=... | kind=...' -> list of dicts"""
    segs = out_line.split('|')
    recs = []
    for s in segs:
        toks = s.strip().split(' ')
        d = {}
        i = 0
        while i < len(toks):
            t = toks[i]
            if t in ('gen', ''):
                i += 1
                continue
            if t == 'bytes=':
                d['bytes'] = bytes.fromhex(toks[i + 1]) if toks[i + 1] != '-' else b''
                i += 2
                continue
            if t.startswith('elems='):
                # elements are separated by commas but hex payloads follow a space after the tag
                rest = ' '.join(toks[i:])[len('elems='):]
                d['elems'] = rest
                break
            if '=' in t:
                k, v = t.split('=', 1)
                d[k] = v
            i += 1
        if d:
            recs.append(d)
    return recs


def parse_elems(s):
    """'B1,2: <hex>,1: <hex>,T: <hex>,I5' -> list of (tag, payload)"""
    out = []
    for part in s.strip().split(','):
        part = part.strip()
        if not part:
            continue
        if part[0] == 'B':
            out.append(('B', int(part[1:])))
        elif part[0] == 'I':
            out.append(('I', int(part[1:])))
        else:
            tag, hx = part.split(':', 1)
            out.append((tag, hx.strip()))
    return out


def expected_layout(elems, compressed, kind):
    """list of (tag, offset, length, expected bytes with mask) in marshalling order"""
    res = []
    off = 0
    for tag, val in elems:
        if tag == 'B':
            res.append((tag, off, 1, bytes([val]), None))
            off += 1
        elif tag == 'I':
            res.append((tag, off, 4, val.to_bytes(4, 'big'), None))
            off += 4
        elif tag == 'S':
            res.append((tag, off, 32, bytes.fromhex(val), None))
            off += 32
        elif tag == 'T':
            if compressed and kind == 'wparams':
                continue        # compressed parameters omit the pairing value
            t = C.dec_fq12(val)
            # big-endian canonical coefficients, highest first
            cs = [x for h in t for c in h for x in c]
            res.append((tag, off, 576, b''.join(x.to_bytes(48, 'big') for x in reversed(cs)), None))
            off += 576
        elif tag in ('1', '2'):
            nf = 48 if tag == '1' else 96
            P = C.dec_g1a(val) if tag == '1' else C.dec_g2a(val)
            n = nf if compressed else 2 * nf
            if P is None:
                b = bytearray(n)
                b[0] = 0x40 | (0x80 if compressed else 0)
                res.append((tag, off, n, bytes(b), None))
            else:
                xb = P[0].to_bytes(48, 'big') if tag == '1' else P[0][1].to_bytes(48, 'big') + P[0][0].to_bytes(48, 'big')
                if compressed:
                    b = bytearray(xb)
                    b[0] |= 0x80
                    res.append((tag, off, n, bytes(b), 0x20))     # the greater flag is not predicted here (see C09 / known finding C02)
                else:
                    yb = P[1].to_bytes(48, 'big') if tag == '1' else P[1][1].to_bytes(48, 'big') + P[1][0].to_bytes(48, 'big')
                    res.append((tag, off, n, xb + yb, None))
            off += n
    return res, off


def invalid_element(tag, compressed, how, rng):
    """bytes of an element that a validating decode must reject"""
    which = 1 if tag == '1' else 2
    nf = 48 if which == 1 else 96

    def xb(x):
        return x.to_bytes(48, 'big') if which == 1 else x[1].to_bytes(48, 'big') + x[0].to_bytes(48, 'big')
    if how in ('not-in-subgroup', 'small-order'):
        if how == 'small-order':
            P, _ = O.small_order_point(which, rng)      # order 3 / 11 / 10177 (G1 curve), 13 / 23 / 2713 (twist)
        else:
            P = O.find_point1(rng) if which == 1 else O.find_point2(rng)
        b = bytearray(xb(P[0]))
        if compressed:
            b[0] |= 0x80 | (0x20 if rng.random() < 0.5 else 0)
            return bytes(b)
        return bytes(b) + xb(P[1])
    if how == 'off-curve':
        if compressed:
            while True:
                x = rng.randrange(Q) if which == 1 else (rng.randrange(Q), rng.randrange(Q))
                ok = O.fq_legendre((x ** 3 + 4) % Q) != -1 if which == 1 else O.f2_legendre_fast(O.f2_add(O.f2_mul(O.f2_sqr(x), x), O.E2.b)) != -1
                if not ok:
                    b = bytearray(xb(x))
                    b[0] |= 0x80
                    return bytes(b)
        P = O.find_point1(rng) if which == 1 else O.find_point2(rng)
        y = (P[1] + 1) % Q if which == 1 else ((P[1][0] + 1) % Q, P[1][1])
        return xb(P[0]) + xb(y)
    if how == 'isomorphic-curve':
        # (c^2 x, c^3 y) of a SUBGROUP point: a point of order r on the isomorphic curve y^2 = x^3 + c^6 b.  The group-law formulas never
        # use b, so the order test passes; only the curve equation rejects it.  Exists in the uncompressed form only.
        if compressed:
            return invalid_element(tag, compressed, 'off-curve', rng)
        k = rng.randrange(1, O.R)
        if which == 1:
            P = O.E1.mul(O.G1_GEN, k)
            c = rng.choice([2, Q - 1 - 1, rng.randrange(2, Q)])
            if pow(c, 6, Q) == 1:
                c = 2
            return xb(P[0] * c * c % Q) + xb(P[1] * pow(c, 3, Q) % Q)
        P = O.E2.mul(O.G2_GEN, k)
        c = rng.choice([(2, 0), (0, 1), (1, 1), (rng.randrange(1, Q), rng.randrange(Q))])
        if O.f2_pow(c, 6) == O.F2_ONE:
            c = (2, 0)
        c2 = O.f2_sqr(c)
        return xb(O.f2_mul(P[0], c2)) + xb(O.f2_mul(P[1], O.f2_mul(c2, c)))
    if how == 'wrong-form':
        n = nf if compressed else 2 * nf
        b = bytearray(rng.getrandbits(8 * n).to_bytes(n, 'big'))
        b[0] = (b[0] & 0x1f) | (0 if compressed else 0x80)
        return bytes(b)
    if how == 'garbage':
        n = nf if compressed else 2 * nf
        return b'\xff' * n
    raise AssertionError(how)


def worker(sh):
    rng = sh.rng
    lines, meta = [], []
    ls = [0, 1, 2, 3, 5, 8, 20] if sh.index == 0 else [rng.randrange(0, 21) for _ in range(sh.pick(2, 60))]
    for l in ls:
        for sig in (0, 1):
            if sh.index and rng.random() < 0.5:
                continue
            mask = rng.getrandbits(l) if l else 0
            if sh.index == 0:
                mask = (1 << l) - 1 if sig else rng.getrandbits(l) if l else 0
            lines.append('gen %d %d %d %d' % (l, sig, mask, rng.getrandbits(40)))
            meta.append((l, sig, mask))
    # objects in which some elements ARE the group identity (three internal representations), alone and in combination
    for k in range(sh.pick(3, 16)):
        l = rng.choice([1, 2, 3, 5])
        sel = (1 << ((sh.index * 3 + k) % 13)) if k % 2 == 0 else (rng.getrandbits(13) or 1)
        lines.append('gen %d %d %d %d 0 %d' % (l, rng.randrange(2), rng.getrandbits(l), rng.getrandbits(40), sel | (rng.randrange(3) << 16)))
        meta.append((l, int(lines[-1].split()[2]), int(lines[-1].split()[3])))
    if sh.index == 1:
        # free slots with indices >= 256 (needs l > 256): every slot from 64 upwards stays free
        lines.append('gen 300 1 %d %d 1' % (rng.getrandbits(64), rng.getrandbits(40)))
        meta.append((300, 1, None))
    outs = sh.run('prod', lines)
    outs_san = sh.run('san', lines)
    # a single free slot with an arbitrary 32-bit index (byte order and width of the index field)
    idxs = [0, 1, 255, 256, 257, 0xffff, 0x10000, 0x01020304, 0x80000000, 0xffffffff] if sh.index == 0 else []
    idxs += [rng.getrandbits(32) for _ in range(sh.pick(4, 40))] + [rng.getrandbits(rng.randrange(1, 33)) for _ in range(sh.pick(4, 40))]
    sl = ['slot %d %d' % (ix, c) for ix in idxs for c in (0, 1)]
    for cfg in ('prod', 'san'):
        so = sh.run(cfg, sl)
        if cfg != 'prod':
            continue
        for line, out in zip(sl, so):
            if out is None:
                continue
            ix = int(line.split(' ')[1])
            kv = {t.split('=')[0]: t.split('=')[1] for t in out if '=' in t}
            tail = out[-1]
            if kv.get('ok') != '1' or int(kv.get('idx_back', -1)) != ix or tail != ix.to_bytes(4, 'big').hex():
                sh.violation('marshal:wsk:slot-index', 'free-slot index %d (0x%x) does not survive marshalling as four big-endian bytes: %s' % (ix, ix, ' '.join(out)), {'line': line})
            sh.event('slot-index', 'bits%d' % min(32, (ix.bit_length() + 7) // 8 * 8))
    for i, (a, b) in enumerate(zip(outs, outs_san)):
        if a is not None and b is not None and a != b:
            sh.violation('diff:prod-vs-san:gen', 'configurations disagree on %s' % lines[i], {'line': lines[i]})
    stage2, meta2 = [], []
    pool = {}        # (kind, c) -> [(bytes, point layout)] : valid buffers of different parameter sets
    for line, (l, sig, mask), out in zip(lines, meta, outs):
        if out is None:
            continue
        recs = parse_gen(' '.join(out))
        nfree = bin(mask).count('1') if mask is not None else None
        if len(recs) != 20:
            sh.violation('malformed:gen', 'expected 20 records, got %d for %s' % (len(recs), line), {'line': line})
            continue
        for d in recs:
            kind, c = d['kind'], int(d['c'])
            if nfree is None:
                nfree = int(d['slots']) if kind == 'wsk' else 0
                if kind == 'wsk' and nfree < 300 - 64:
                    sh.violation('marshal:wsk:high-slots', 'key with all slots >= 64 free lists only %d free slots' % nfree, {'line': line})
            ident = '%s/%s l=%d sig=%d free=%d' % (kind, 'compressed' if c else 'uncompressed', l, sig, nfree)
            idsub = len(line.split()) > 6
            if idsub:
                ident += ' identity-substituted(sel=0x%x)' % (int(line.split()[6]) & 0xffff)

            def fail(aspect, msg):
                sh.violation('marshal:%s:%s' % (kind, aspect), '%s [%s] (%s)' % (msg, ident, line), {'line': line, 'record': {k: (v if k != 'bytes' else v.hex()[:200]) for k, v in d.items()}})
            data = d['bytes']
            if int(d['len']) != len(data) or int(d['len']) != int(d['lenfn']):
                fail('length', 'get_marshalled_length %s, *_marshalled_length %s, bytes %d' % (d['len'], d['lenfn'], len(data)))
            if d['allwritten'] != '1':
                fail('bytes-written', 'marshal did not write every byte of the reported length (or depends on prior buffer content)')
            if kind in ('wparams', 'wsk'):
                exp_slots = l if kind == 'wparams' else (nfree if mask is not None else int(d['slots']))
                if int(d['setlen']) != exp_slots or int(d['slots']) != exp_slots:
                    fail('recovered-length', 'set_length/unmarshalled_length gave %s, object has %s slots (expected %d)' % (d['setlen'], d['slots'], exp_slots))
            for f, what in (('checked', 'validating unmarshal rejected the library\'s own bytes'), ('equal', 'unmarshalled object differs'), ('resame', 're-marshalling differs'),
                            ('unchecked', 'non-validating unmarshal failed'), ('uequal', 'non-validating unmarshal gives a different object')):
                if d[f] != '1':
                    fail(f, what)
            # byte layout by the reference model
            try:
                elems = parse_elems(d['elems'])
                layout, total = expected_layout(elems, bool(c), kind)
                if total != len(data):
                    fail('layout-length', 'embedded elements account for %d bytes, buffer has %d' % (total, len(data)))
                for tag, off, n, expb, mask_bit in layout:
                    got = bytearray(data[off:off + n])
                    e = bytearray(expb)
                    if mask_bit:
                        got[0] &= ~mask_bit & 0xff
                        e[0] &= ~mask_bit & 0xff
                    if bytes(got) != bytes(e):
                        fail('layout', 'element %s at offset %d is not the canonical encoding' % (tag, off))
                        break
            except C.NonCanonical as ex:
                fail('canonical', str(ex))
                layout = []
            sh.event('roundtrip:%s' % kind, '%s/l%d/sig%d/free%d' % ('c' if c else 'u', min(l, 9), sig, min(nfree, 9)))
            if idsub:
                nid = sum(1 for tag, off, n, expb, mb in layout if tag in ('1', '2') and expb[0] & 0x40)
                sh.event('roundtrip-with-identity-elements:%s' % kind, '%s/%d' % ('c' if c else 'u', min(nid, 3)))
            if sh.index == 0:
                sh.sample({'object': ident, 'len': len(data), 'first_bytes': data[:24].hex()}, limit=5)
            # stage 2: single-element corruptions of this valid buffer
            pts = [(tag, off, n) for tag, off, n, _, _ in layout if tag in ('1', '2')]
            if len(data) < 6000:
                pool.setdefault((kind, c), []).append((data, pts, ident))
            if pts and rng.random() < (0.5 if sh.quick else 0.8):
                for how in ('not-in-subgroup', 'small-order', 'off-curve', 'isomorphic-curve', 'wrong-form', 'garbage'):
                    tag, off, n = rng.choice(pts)
                    if sh.index == 0 or rng.random() < 0.5:
                        bad = invalid_element(tag, bool(c), how, rng)
                        assert len(bad) == n
                        buf = data[:off] + bad + data[off + n:]
                        stage2.append('unm %s %d 1 %s' % (kind, c, buf.hex()))
                        meta2.append((kind, c, how, tag, off, ident))
                # an element slot holding the identity: the exact identity encoding is a valid element (accepted), the same bytes with the
                # sort bit set, with a payload bit set, or with the other form's flag are not
                tag, off, n = rng.choice(pts)
                idb = bytearray(n)
                idb[0] = 0x40 | (0x80 if c else 0)
                variants = [('identity-element', bytes(idb), 1)]
                v = bytearray(idb); v[0] |= 0x20
                variants.append(('identity+sort-bit', bytes(v), 0))
                v = bytearray(idb); v[rng.randrange(1, n)] |= 1 << rng.randrange(8)
                variants.append(('identity+payload-bit', bytes(v), 0))
                v = bytearray(idb); v[0] ^= 0x80
                variants.append(('identity+other-form', bytes(v), 0))
                for how, el, okexp in variants:
                    buf = data[:off] + el + data[off + n:]
                    stage2.append('unm %s %d 1 %s' % (kind, c, buf.hex()))
                    meta2.append((kind, c, how if not okexp else 'valid:' + how, tag, off, ident))
    for cfg in ('prod', 'san'):
        outs2 = sh.run(cfg, stage2)
        if cfg == 'san':
            continue
        for line, (kind, c, how, tag, off, ident), out in zip(stage2, meta2, outs2):
            if out is None:
                continue
            kv = {t.split('=')[0]: t.split('=')[1] for t in out if '=' in t}
            if how.startswith('valid:'):
                if kv.get('accepted') != '1':
                    sh.violation('valid-rejected:%s:%s' % (kind, how[6:]), 'validating unmarshal rejected a buffer whose G%s element at offset %d is the identity encoding [%s]' % (tag, off, ident), {'line': line[:2000]})
                elif kv.get('resame') != '1':
                    # the accepted object contains the group identity: marshalling it again must reproduce the identity encoding
                    sh.violation('roundtrip:%s:identity-element' % kind, 'marshal(unmarshal(buffer)) differs from the buffer when the G%s element at offset %d is the identity [%s, %s]'
                                 % (tag, off, ident, 'compressed' if c else 'uncompressed'), {'line': line[:2000]})
                sh.event('corrupt:%s' % kind, '%s/%s' % (how, 'c' if c else 'u'))
                continue
            if kv.get('accepted') == '1':
                sh.violation('corruption-accepted:%s:%s' % (kind, how), 'validating unmarshal accepted a buffer whose embedded G%s element at offset %d is invalid (%s) [%s]' % (tag, off, how, ident),
                             {'line': line[:2000]})
            sh.event('corrupt:%s' % kind, '%s/%s' % (how, 'c' if c else 'u'))
    # stage 3: the destination object is REUSED (a caller that retries after a rejected buffer): unmarshal A, then B with one element
    # made invalid (every element position in turn), then the intact B - the result must be what a fresh destination gives for B,
    # and for parameters the stored pairing value must be e(g2, g1) of B
    stage3, meta3 = [], []
    for (kind, c), items in sorted(pool.items()):
        if len(items) < 2:
            continue
        for bi, (B, pts, ident) in enumerate(items):
            if sh.quick and bi >= 2 and kind not in ('wparams',):
                break
            A = items[(bi + 1) % len(items)][0]
            cand = pts if (len(pts) <= 6 or not sh.quick) else pts[:5] + [pts[-1]]
            for tag, off, n in cand:
                how = rng.choice(['not-in-subgroup', 'small-order', 'off-curve', 'isomorphic-curve', 'garbage'])
                bad = B[:off] + invalid_element(tag, bool(c), how, rng) + B[off + n:]
                stage3.append('unmseq %s %d 3 1 %s 1 %s 1 %s' % (kind, c, A.hex(), bad.hex(), B.hex()))
                meta3.append((kind, c, 'A,B-bad@%s%d,B' % (tag, off), ident))
            stage3.append('unmseq %s %d 2 %d %s 1 %s' % (kind, c, rng.randrange(2), A.hex(), B.hex()))
            meta3.append((kind, c, 'A,B', ident))
            stage3.append('unmseq %s %d 3 1 %s 1 %s 0 %s' % (kind, c, B.hex(), A.hex(), B.hex()))
            meta3.append((kind, c, 'B,A,B-unchecked', ident))
    for cfg in ('prod', 'san'):
        outs3 = sh.run(cfg, stage3)
        for line, (kind, c, shape, ident), out in zip(stage3, meta3, outs3):
            if out is None:
                continue
            kv = {t.split('=')[0]: t.split('=')[1] for t in out if '=' in t}
            if kv.get('fresh') != '1' or kv.get('acc', '').split(',')[-1] != '1':
                sh.violation('reused-destination:%s:rejected' % kind, 'intact buffer rejected after the destination had been used before (%s) [%s, %s]: %s' % (shape, ident, cfg, ' '.join(out)), {'line': line[:6000], 'config': cfg})
            elif kv.get('same') != '1' or kv.get('pairing') != '1':
                sh.violation('reused-destination:%s:%s' % (kind, 'stale-pairing' if kv.get('pairing') != '1' else 'differs'),
                             'unmarshalling into a destination that was used before (%s) gives an object different from unmarshalling into a fresh one [%s, %s]: %s'
                             % (shape, ident, cfg, ' '.join(out)), {'line': line[:6000], 'config': cfg})
            if 'bad' in shape and kv.get('acc', ',,').split(',')[1] == '1':
                sh.violation('corruption-accepted:%s:in-sequence' % kind, 'invalid element accepted (%s) [%s]' % (shape, ident), {'line': line[:6000], 'config': cfg})
            if cfg == 'prod':
                sh.event('reused-destination:%s' % kind, '%s/%s' % ('c' if c else 'u', 'retry-after-rejection' if 'bad' in shape else shape))


def run(ctx):
    exes = session.build_exes({'prod': ('prod', 'scheme_drv.cpp', []), 'san': ('san', 'scheme_drv.cpp', [])})
    session.run_shards(ctx, worker, 16, exes, {})
    ctx.rule = ('events: for WKD-IBE params/master key/secret key/ciphertext/signature and LQ-IBE params/id/master key/secret key/ciphertext, in both encodings, for slot counts 0..20, '
                'free-slot subsets and signature support on/off: marshal into a buffer of exactly the reported length (twice over different fill bytes), recover the length, unmarshal through '
                'the Go-binding protocol into exactly sized arrays (validating and not), compare objects, re-marshal; the byte layout is parsed by the reference model (flag byte, element '
                'order, canonical coordinates, big-endian slot index, GT coefficients); then single embedded elements are replaced by invalid ones (outside the subgroup, off the curve, '
                'wrong form, garbage) and validating unmarshal must reject; then destinations are reused: A, B with one invalid element (each element position), intact B into the same object must equal B into a fresh object and, for parameters, store e(g2,g1) of B; class = (object kind, encoding, l, sig, free slots) / (kind, corruption)')
    ctx.extra['configs'] = ['prod', 'san']
    ctx.assumptions = ['library group equality used to compare objects', 'oracle/bls.py for layout and for constructing invalid elements']
    need = ['slot-index|bits16', 'slot-index|bits32', 'roundtrip:wsk|c/l9/sig1/free9', 'roundtrip:wparams|c/l0', 'roundtrip:wsk|c/l0', 'roundtrip:wsk|u/l9', 'roundtrip:wparams|u/l9', 'roundtrip:wct|', 'roundtrip:wsig|', 'roundtrip:wmaster|', 'roundtrip:lparams|', 'roundtrip:lid|',
            'roundtrip:lmaster|', 'roundtrip:lsk|', 'roundtrip:lct|', 'corrupt:wparams|not-in-subgroup', 'corrupt:wsk|off-curve', 'corrupt:wct|', 'corrupt:lct|', 'corrupt:wsig|wrong-form', 'corrupt:wparams|identity+sort-bit', 'corrupt:wsk|identity+sort-bit', 'corrupt:wparams|valid:identity-element', 'reused-destination:wparams|c/retry-after-rejection', 'reused-destination:wsk|c/retry-after-rejection', 'reused-destination:wparams|u/retry-after-rejection', 'reused-destination:wct|']
    for r in need:
        if not any(k.startswith(r) for k in ctx.classes):
            ctx.required_classes.add(r)
    return None
