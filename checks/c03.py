"""C03 - all field-arithmetic back ends compute the same function.

The same vectors are executed by: x86-64 BMI2/ADX assembly (dispatch default on this host and called directly), x86-64 baseline assembly
(dispatch pointers re-pointed, and called directly), portable C++ with 64-bit words, portable C++ with 32-bit words, and the AArch64 assembly
under oracle/a64.py.  Every answer must equal the integer result and all back ends must be byte-identical.
"""
import os
import random
import shutil

import build
import harness
import session
from codec import le, unle
from oracle import a64
from oracle import thumb
from oracle import bls as O
import c02
from c02 import FQ, FR, cls_vs_p, chain, redc_v

A64 = 'embedded_pairing_core_arch_aarch64_'
V6M = 'embedded_pairing_core_arch_armv6_m_'
W = 1 << 384


def redc_metacarries(F, T, w=64):
    """word-serial Montgomery reduction (the algorithm, not the library's code): which rounds produce a meta-carry"""
    n = F.bits // w
    m = (1 << w) - 1
    inv = (-pow(F.p, -1, 1 << w)) & m
    a = [(T >> (w * i)) & m for i in range(2 * n)]
    pw = [(F.p >> (w * i)) & m for i in range(n)]
    meta = 0
    rounds = []
    for i in range(n):
        u = (a[i] * inv) & m
        carry = (u * pw[0] + a[i]) >> w
        for j in range(1, n):
            t = u * pw[j] + a[i + j] + carry
            carry = t >> w
            a[i + j] = t & m
        s = a[i + n] + carry + meta
        meta = s >> w
        a[i + n] = s & m
        if meta:
            rounds.append(i)
    return rounds


def gen_vectors(rng, n_random, directed):
    """list of (kind, field, params dict)"""
    V = []
    for F in (FQ, FR):
        p = F.p
        top = 1 << F.bits
        sp = c02.specials(F)
        full = [0, 1, top - 1, top - 2, top >> 1, (top >> 1) - 1, int('55' * F.nb, 16), int('aa' * F.nb, 16)] + [((1 << 64) - 1) << (64 * i) for i in range(F.bits // 64)] + \
               [top - (1 << (64 * i)) for i in range(F.bits // 64)] + [(1 << (32 * i)) - 1 for i in range(1, F.bits // 32)]
        def special_words(limit=None):
            """operand whose words are mostly extreme values (0, 1, all-ones, top bit, half words): maximal and minimal partial products and carries"""
            while True:
                v = 0
                for k in range(F.bits // 64):
                    t = rng.random()
                    wv = rng.choice([0, 1, (1 << 64) - 1, (1 << 64) - 2, 1 << 63, (1 << 63) - 1, (1 << 32) - 1, 1 << 32, 0xffffffff00000000, 0x00000000ffffffff + 1]) if t < 0.75 else rng.getrandbits(64)
                    v |= wv << (64 * k)
                if limit is None or v < limit:
                    return v
                v %= limit
                return v
        ints = full + [rng.getrandbits(F.bits) for _ in range(n_random)] + [special_words() for _ in range(n_random)]
        if directed:
            for a in full:
                for b in full[::2]:
                    V.append(('add', F, {'a': a, 'b': b}))
                    V.append(('sub', F, {'a': a, 'b': b}))
                V.append(('shl1', F, {'a': a}))
                V.append(('sqr', F, {'a': a}))
                for b in full[::3]:
                    V.append(('mul', F, {'a': a, 'b': b}))
            # carries through every limb: a = 2^k - 1, b = 1 ; borrows likewise
            for k in range(1, F.bits + 1, 7):
                V.append(('add', F, {'a': (1 << k) - 1, 'b': 1}))
                V.append(('sub', F, {'a': (1 << k) % top, 'b': 1}))
                V.append(('sub', F, {'a': 0, 'b': (1 << (k - 1))}))
            for s in c02.boundary_sums(F, rng) + c02.cascade_sums(F, rng):
                for _ in range(2):
                    a, b = c02.split_sum(F, s, rng)
                    V.append(('fpadd', F, {'a': a, 'b': b}))
                if s % 2 == 0 and s // 2 < p:
                    V.append(('fpdbl', F, {'a': s // 2}))
            for a in sp:
                for b in sp[::4]:
                    V.append(('fpsub', F, {'a': a, 'b': b}))
                    V.append(('fpadd', F, {'a': a, 'b': b}))
                V.append(('fpdbl', F, {'a': a}))
                V.append(('fpsqr', F, {'a': a}))
            # reduction inputs with a prescribed pre-subtraction value v
            qtop = F.top(p, 64) << (F.bits - 64)
            targets = [0, 1, p - 1, p, p + 1, 2 * p - 1, qtop, qtop + 1, p - (1 << 64), p + (1 << 64), p + (1 << 200), p - (1 << 200), (qtop + (1 << (F.bits - 64))) % (2 * p)]
            for _ in range(12):
                targets.append(qtop + rng.randrange(1 << (F.bits - 64)))       # same top word as p
                targets.append(rng.randrange(2 * p))
            for v in targets:
                v %= 2 * p
                lo = max(0, ((v - p) * top) // p + 1)
                hi = min(top - 1, (v * top) // p)
                if lo > hi:
                    continue
                for m in {lo, hi, rng.randint(lo, hi), rng.randint(lo, hi)}:
                    T = v * top - m * p
                    if 0 <= T < p * top:
                        V.append(('mred', F, {'T': T}))
            # T = p * t : the reduction lands exactly on the modulus or zero
            for t in (0, 1, 2, top - 1, top >> 1, rng.getrandbits(F.bits)):
                if p * t < p * top:
                    V.append(('mred', F, {'T': p * t}))
            # inputs with all-ones middle words (meta-carry in intermediate rounds)
            for _ in range(60):
                T = rng.randrange(p * top)
                k = rng.randrange(1, 2 * F.bits // 64 - 1)
                T |= ((1 << (64 * rng.randrange(1, 4))) - 1) << (64 * k)
                if T < p * top:
                    V.append(('mred', F, {'T': T}))
            # exact carry coincidences of the word-serial reduction (lib/redcsolve.py), as raw reduction inputs and as products of two
            # field elements (for the fused multiply-and-reduce routines), for 64- and 32-bit words, every round, with/without pending meta-carry
            import redcsolve
            for w in (64, 32):
                nw = F.bits // w
                for row in range(nw - 1):
                    for t in redcsolve.coincidence_targets(w):
                        for m in (0, 1):
                            if row == 0 and m:
                                continue
                            label = 'w%d/round%d/P=2^w%+d/meta%d' % (w, row, t - (1 << w), m)
                            Tc = redcsolve.solve_T(p, F.bits, w, row, t, m, rng)
                            if Tc is not None:
                                V.append(('mred', F, {'T': Tc, 'coinc': label}))
                            ab = redcsolve.solve_product(p, F.bits, w, row, t, m, rng)
                            if ab is not None:
                                V.append(('fpmul', F, {'a': ab[0], 'b': ab[1], 'coinc': label}))
                                V.append(('fpmul', F, {'a': ab[1], 'b': ab[0], 'coinc': label}))
            # products with prescribed residue (as in C02)
            for t in [1, 2, p - 1, p - 2] + [qtop + rng.randrange(1 << (F.bits - 64)) for _ in range(8)] + [rng.randrange(1 << (F.bits - 64)) for _ in range(8)]:
                t %= p
                a = rng.randrange(1, p)
                b = t * F.Rm * pow(a, -1, p) % p
                V.append(('fpmul', F, {'a': a, 'b': b}))
        for _ in range(n_random):
            a, b = rng.choice(ints), rng.choice(ints)
            V.append(('add', F, {'a': a, 'b': b}))
            V.append(('sub', F, {'a': a, 'b': b}))
            V.append(('mul', F, {'a': a, 'b': b}))
            V.append(('sqr', F, {'a': a}))
            V.append(('shl1', F, {'a': a}))
            x, y = (rng.randrange(p), rng.randrange(p)) if rng.random() < 0.6 else (special_words(p), special_words(p))
            V.append(('fpadd', F, {'a': x, 'b': y}))
            V.append(('fpsub', F, {'a': x, 'b': y}))
            V.append(('fpdbl', F, {'a': x}))
            V.append(('fpmul', F, {'a': x, 'b': y}))
            V.append(('fpsqr', F, {'a': x}))
            V.append(('mred', F, {'T': rng.randrange(p * top)}))
            V.append(('mred', F, {'T': special_words(p) * special_words(p)}))
    # aliasing pattern per vector (only patterns the signatures allow)
    out = []
    for kind, F, prm in V:
        if kind in ('add', 'sub', 'shl1', 'fpadd', 'fpsub', 'fpdbl', 'fpsqr'):
            for al in (0, 1):
                out.append((kind, F, dict(prm, alias=al)))
        elif kind == 'fpmul':
            for al in (0, 1, 2):
                out.append((kind, F, dict(prm, alias=al)))
            out.append((kind, F, dict(prm, b=prm['a'], alias=3)))
        else:
            out.append((kind, F, dict(prm, alias=0)))
    return out


def line_for(kind, F, prm):
    n = 'raw%d' % F.bits
    T = F.tok
    inv = le((-pow(F.p, -1, 1 << F.bits)) % (1 << F.bits), F.nb)
    a = prm.get('a')
    al = prm['alias']
    if kind in ('add', 'sub'):
        return '%s.%s %s %s %d' % (n, kind, T(a), T(prm['b']), al)
    if kind == 'shl1':
        return '%s.shl1 %s %d' % (n, T(a), al)
    if kind == 'mul':
        return '%s.mul %s %s' % (n, T(a), T(prm['b']))
    if kind == 'sqr':
        return '%s.sqr %s' % (n, T(a))
    if kind in ('fpadd', 'fpsub'):
        return '%s.%s %s %s %s %d' % (n, kind, T(a), T(prm['b']), T(F.p), al)
    if kind == 'fpdbl':
        return '%s.fpdbl %s %s %d' % (n, T(a), T(F.p), al)
    if kind == 'mred':
        return '%s.mred %s %s %s' % (n, le(prm['T'], 2 * F.nb), T(F.p), inv)
    if kind == 'fpmul':
        return '%s.fpmul %s %s %s %s %d' % (n, T(a), T(prm['b']), T(F.p), inv, al)
    if kind == 'fpsqr':
        return '%s.fpsqr %s %s %s %d' % (n, T(a), T(F.p), inv, al)
    raise AssertionError(kind)


def expected(kind, F, prm):
    """(result integer, flag or None) and the branch class"""
    p = F.p
    top = 1 << F.bits
    a = prm.get('a')
    b = prm.get('b')
    if kind == 'add':
        return (a + b) % top, (a + b) >> F.bits, 'carry%d/chain%d' % ((a + b) >> F.bits, chain(a, b, False, n=F.bits // 64))
    if kind == 'sub':
        return (a - b) % top, int(a < b), 'borrow%d/chain%d' % (int(a < b), chain(a, b, True, n=F.bits // 64))
    if kind == 'shl1':
        return (2 * a) % top, a >> (F.bits - 1), 'out%d' % (a >> (F.bits - 1))
    if kind == 'mul':
        return a * b, None, 'ones' if (a in (top - 1,) or b in (top - 1,)) else 'gen'
    if kind == 'sqr':
        return a * a, None, 'ones' if a == top - 1 else 'gen'
    if kind == 'fpadd':
        return (a + b) % p, None, cls_vs_p(F, a + b)
    if kind == 'fpsub':
        return (a - b) % p, None, 'borrow' if a < b else 'noborrow'
    if kind == 'fpdbl':
        return (2 * a) % p, None, cls_vs_p(F, 2 * a)
    if kind == 'mred':
        T = prm['T']
        v = redc_v(F, T)
        mc = redc_metacarries(F, T)
        return v % p, None, 'v' + cls_vs_p(F, v) + '/meta' + (''.join(str(i) for i in mc) or '-')
    if kind == 'fpmul':
        v = redc_v(F, a * b)
        return v % p, None, 'v' + cls_vs_p(F, v)
    if kind == 'fpsqr':
        v = redc_v(F, a * a)
        return v % p, None, 'v' + cls_vs_p(F, v)
    raise AssertionError(kind)


def asm_line(kind, F, prm, fam):
    if F is not FQ:
        return None
    T = F.tok
    inv = le((-pow(F.p, -1, 1 << F.bits)) % (1 << F.bits), F.nb)
    if kind == 'mul':
        return 'asm.mul.%s %s %s' % (fam, T(prm['a']), T(prm['b']))
    if kind == 'sqr':
        return 'asm.sqr.%s %s' % (fam, T(prm['a']))
    if kind == 'mred':
        return 'asm.mred.%s %s %s %s' % (fam, le(prm['T'], 96), T(F.p), inv)
    return None


RES, AA, BB, PP = 0x1000, 0x2000, 0x3000, 0x4000


def a64_run(progs, machine, kind, F, prm, coverage):
    """execute the AArch64 routine for a 384-bit vector; returns (result int, flag) or None if no routine exists for this op"""
    if F is not FQ or kind in ('fpadd', 'fpsub', 'fpdbl'):
        return None
    p = F.p
    inv = (-pow(p, -1, 1 << 64)) % (1 << 64)
    al = prm['alias']
    a = prm.get('a')
    b = prm.get('b')
    M = machine
    M.write(PP, p.to_bytes(48, 'little'))
    if a is not None:
        M.write(AA, a.to_bytes(48, 'little'))
    if b is not None:
        M.write(BB, b.to_bytes(48, 'little'))
    res = RES
    aa, bb = AA, BB
    if al == 1:
        res = AA
    elif al == 2:
        res = BB
    elif al == 3:
        res = AA
        bb = AA
    name = {'add': 'bigint_384_add', 'sub': 'bigint_384_subtract', 'shl1': 'bigint_384_multiply2', 'mul': 'bigint_768_multiply', 'sqr': 'bigint_768_square',
            'mred': 'fpbase_384_montgomery_reduce', 'fpmul': 'fpbase_384_multiply', 'fpsqr': 'fpbase_384_square'}[kind]
    full = A64 + name
    if kind in ('add', 'sub'):
        args = [res, aa, bb]
    elif kind == 'shl1':
        args = [res, aa]
    elif kind == 'mul':
        args = [RES, AA, BB]
    elif kind == 'sqr':
        args = [RES, AA]
    elif kind == 'mred':
        M.write(BB, prm['T'].to_bytes(96, 'little'))
        args = [RES, BB, PP, inv]
    elif kind == 'fpmul':
        args = [res, aa, bb, PP, inv]
    else:
        args = [res, aa, PP, inv]
    r0, executed = M.call(progs[full], full, args)
    coverage.setdefault(full, set()).update(executed)
    n = 96 if kind in ('mul', 'sqr') else 48
    out = int.from_bytes(M.read(res if kind not in ('mul', 'sqr', 'mred') else RES, n), 'little')
    flag = r0 if kind in ('add', 'sub', 'shl1') else None
    return out, flag


def thumb_reduce_extern(m, r):
    """src/core/arch/armv6_m/fp.cpp: FpBase<384>::reduce(a, p) - the C++ glue the assembly calls for the final subtraction"""
    a = int.from_bytes(m.read(r[1], 48), 'little')
    p = int.from_bytes(m.read(r[2], 48), 'little')
    m.write(r[0], ((a - p) if a >= p else a).to_bytes(48, 'little'))


def thumb_run(progs, machine, kind, F, prm, coverage, mov_mode):
    """execute the ARMv6-M routine (source-level interpretation); returns (result, flag) or None"""
    if F is not FQ or kind in ('fpadd', 'fpsub', 'fpdbl'):
        return None
    p = F.p
    inv = (-pow(p, -1, 1 << 32)) % (1 << 32)
    al = prm['alias']
    a = prm.get('a')
    b = prm.get('b')
    M = machine
    M.write(PP, p.to_bytes(48, 'little'))
    if a is not None:
        M.write(AA, a.to_bytes(48, 'little'))
    if b is not None:
        M.write(BB, b.to_bytes(48, 'little'))
    res, aa, bb = RES, AA, BB
    if al == 1:
        res = AA
    elif al == 2:
        res = BB
    elif al == 3:
        res = AA
        bb = AA
    name = {'add': 'bigint_384_add', 'sub': 'bigint_384_subtract', 'shl1': 'bigint_384_multiply2', 'mul': 'bigint_768_multiply', 'sqr': 'bigint_768_square',
            'mred': 'fpbase_384_montgomery_reduce', 'fpmul': 'fpbase_384_multiply', 'fpsqr': 'fpbase_384_square'}[kind]
    full = V6M + name
    prog = progs['bigint' if kind in ('add', 'sub', 'shl1') else 'multiply']
    if kind in ('add', 'sub'):
        args = [res, aa, bb]
    elif kind == 'shl1':
        args = [res, aa]
    elif kind == 'mul':
        args = [RES, AA, BB]
    elif kind == 'sqr':
        args = [RES, AA]
    elif kind == 'mred':
        M.write(BB, prm['T'].to_bytes(96, 'little'))
        args = [RES, BB, PP, inv]
    elif kind == 'fpmul':
        args = [res, aa, bb, PP, inv]
    else:
        args = [res, aa, PP, inv]
    r0, executed, lowmov = M.call(prog, full, args, mov_mode=mov_mode)
    coverage.setdefault(full, set()).update(executed)
    n = 96 if kind in ('mul', 'sqr') else 48
    out = int.from_bytes(M.read(res if kind not in ('mul', 'sqr', 'mred') else RES, n), 'little')
    flag = r0 if kind in ('add', 'sub', 'shl1') else None
    return out, flag


def worker(sh):
    rng = sh.rng
    vecs = gen_vectors(random.Random(33) if sh.index == 0 else rng, sh.pick(40, 1500), directed=(sh.index == 0) or (not sh.quick and sh.index < 4))
    lines = [line_for(k, F, prm) for k, F, prm in vecs]
    answers = {}
    for be in ('bmi2', 'x86base', 'p64', 'p32'):
        answers[be] = sh.run(be, lines)
    # direct calls of both x86 routine families
    direct = {}
    for fam in ('base', 'bmi2'):
        dl = [(i, asm_line(k, F, prm, fam)) for i, (k, F, prm) in enumerate(vecs)]
        dl = [(i, l) for i, l in dl if l]
        res = sh.run('bmi2', [l for _, l in dl])
        direct[fam] = {i: r for (i, _), r in zip(dl, res)}
    # AArch64 under the interpreter
    progs = sh.payload['a64']
    machine = a64.Machine()
    for base in (RES, AA, BB, PP):
        machine.map(base, 128)
    cov = {}
    tprogs = sh.payload['v6m']
    tmachine = thumb.Machine()
    tmachine.externs[V6M + 'fpbase_384_reduce'] = thumb_reduce_extern
    for base in (RES, AA, BB, PP):
        tmachine.map(base, 128)
    tcov = {}
    thumb_budget = sh.pick(60, 1500)
    a64_budget = sh.pick(250, 6000)
    for i, ((kind, F, prm), line) in enumerate(zip(vecs, lines)):
        exp_val, exp_flag, cls = expected(kind, F, prm)
        nb = (2 * F.nb) if kind in ('mul', 'sqr') else F.nb
        exp_tok = le(exp_val, nb)
        opn = '%s.%s' % ('raw%d' % F.bits, kind)
        alias = prm['alias']
        results = {}
        for be in ('bmi2', 'x86base', 'p64', 'p32'):
            out = answers[be][i]
            if out is None:
                continue
            results[be] = (out[1], int(out[2]) if len(out) > 2 else None)
        for fam in ('base', 'bmi2'):
            out = direct[fam].get(i)
            if out is not None and out[1] != 'UNSUPPORTED':
                results['asm-direct-' + fam] = (out[1], None)
        if a64_budget > 0 or sh.index == 0:
            try:
                r = a64_run(progs, machine, kind, F, prm, cov)
            except (a64.CalleeSaved, MemoryError) as e:
                sh.violation('aarch64:%s:%s' % (kind, type(e).__name__), 'AArch64 routine misbehaved under the interpreter: %s on %s' % (e, line[:200]), {'line': line})
                r = None
            if r is not None:
                a64_budget -= 1
                results['aarch64-interp'] = (le(r[0], nb), r[1])
                sh.count('aarch64_routine_calls')
        # ARMv6-M sources, interpreted at source level under all three readings of the low-register MOV (see oracle/thumb.py)
        if thumb_budget > 0 and (kind in ('mul', 'sqr', 'mred', 'fpmul', 'fpsqr', 'add', 'sub', 'shl1')) and F is FQ and (sh.index == 0 or i % 7 == sh.index % 7):
            try:
                rs = [thumb_run(tprogs, tmachine, kind, F, prm, tcov, mm) for mm in (0, 1, 2)]
            except (thumb.CalleeSaved, MemoryError) as e:
                sh.violation('armv6m:%s:%s' % (kind, type(e).__name__), 'ARMv6-M routine misbehaved under the interpreter: %s on %s' % (e, line[:200]), {'line': line})
                rs = [None]
            if rs[0] is not None:
                thumb_budget -= 1
                if rs[0] != rs[1] or rs[0] != rs[2]:
                    sh.harness_errors.append('ARMv6-M result depends on the flag behaviour of low-register MOV (ambiguous without the assembler): %s' % line[:200])
                else:
                    results['armv6m-source-interp'] = (le(rs[0][0], nb), rs[0][1])
                    sh.count('armv6m_routine_calls', 3)
        for be, (tok, flag) in results.items():
            bad_val = tok != exp_tok
            bad_flag = exp_flag is not None and flag is not None and int(bool(flag)) != int(bool(exp_flag)) if kind != 'shl1' else (flag is not None and flag != exp_flag)
            if bad_val or bad_flag:
                sh.violation('backend:%s:%s:%s' % (be, opn, 'alias%d' % alias if alias else 'value'),
                             'back end %s: %s gives %s flag=%s, integer arithmetic gives %s flag=%s (class %s)' % (be, line[:300], tok[:100], flag, exp_tok[:100], exp_flag, cls),
                             {'backend': be, 'line': line, 'expected': exp_tok, 'expected_flag': exp_flag})
        toks = {v[0] for v in results.values()}
        if len(toks) > 1:
            sh.violation('disagree:%s' % opn, 'back ends disagree on %s: %s' % (line[:200], {k: v[0][:40] for k, v in results.items()}), {'line': line})
        sh.event(opn, '%s/alias%d' % (cls, alias), trivial=False, n=len(results))
        if prm.get('coinc'):
            sh.event(opn + '.carry-coincidence', prm['coinc'], n=len(results))
        for be in results:
            sh.count('events_' + be)
        if sh.index == 0 and i % 400 == 0:
            sh.sample({'vector': line[:150], 'class': cls, 'backends': sorted(results)}, limit=4)
    sh.extra['a64_coverage'] = {k: len(v) for k, v in cov.items()}
    sh.extra['a64_executed_addresses'] = {k: sorted(v) for k, v in cov.items()}
    sh.extra['v6m_executed'] = {k: sorted(v) for k, v in tcov.items()}


def run(ctx):
    O.selftest(random.Random(ctx.seed))
    a64.selftest()
    work = os.path.join(harness.VERIF, 'work', 'c03-%d' % os.getpid())
    os.makedirs(work, exist_ok=True)
    try:
        try:
            progs = a64.assemble(os.path.join(build.REPO, 'src/core/arch/aarch64'), work)
        except a64.Unsupported as e:
            raise harness.HarnessError('AArch64 sources not covered by the interpreter: %s' % e)
    finally:
        shutil.rmtree(work, ignore_errors=True)
    try:
        v6m = {'bigint': thumb.Program(os.path.join(build.REPO, 'src/core/arch/armv6_m/bigint.s')), 'multiply': thumb.Program(os.path.join(build.REPO, 'src/core/arch/armv6_m/multiply.s'))}
        thumb.selftest()
    except thumb.Unsupported as e:
        raise harness.HarnessError('ARMv6-M sources not covered by the source-level interpreter: %s' % e)
    exes = session.build_exes({'bmi2': ('prod', 'opdrv.cpp', []), 'x86base': ('prod', 'opdrv.cpp', ['--x86base']), 'p64': ('p64', 'opdrv.cpp', []), 'p32': ('p32', 'opdrv.cpp', [])})
    rc, out, err = harness.run_driver(exes['bmi2'][0], 'asm.cpu\n')
    if 'asm.cpu 1' not in out:
        raise harness.HarnessError('this host lacks BMI2/ADX: the BMI2 routine family cannot be executed (inconclusive)')
    results = session.run_shards(ctx, worker, 16, exes, {'a64': progs, 'v6m': v6m})
    # instruction coverage of the AArch64 routines (union over shards)
    cov = {}
    for r in results:
        for k, v in r['extra'].get('a64_executed_addresses', {}).items():
            cov.setdefault(k, set()).update(v)
    a64cov = {}
    for name, prog in progs.items():
        if name.endswith(('_final_subtract', '_final_copy')):
            continue
        start = prog.labels[name]
        later = sorted(a for n2, a in prog.labels.items() if a > start and not n2.endswith(('_final_subtract', '_final_copy')))
        end = later[0] if later else max(prog.code) + 4
        total = [a for a in prog.code if start <= a < end]
        done = [a for a in total if a in cov.get(name, set())]
        a64cov[name.replace(A64, '')] = '%d/%d instructions executed' % (len(done), len(total))
        if len(done) != len(total):
            ctx.required_classes.add('aarch64-instruction-coverage:%s' % name.replace(A64, ''))
    # ARMv6-M: every instruction between a routine's label and its return must have been executed
    tcov = {}
    for r in results:
        for k, v in r['extra'].get('v6m_executed', {}).items():
            tcov.setdefault(k, set()).update(v)
    v6cov = {}
    for pname, prog in v6m.items():
        labs = sorted(prog.labels.items(), key=lambda kv: kv[1])
        for li, (name, start) in enumerate(labs):
            end = labs[li + 1][1] if li + 1 < len(labs) else len(prog.ins)
            done = len([a for a in range(start, end) if a in tcov.get(name, set())])
            v6cov[name.replace(V6M, '')] = '%d/%d instructions executed' % (done, end - start)
            if done != end - start:
                ctx.required_classes.add('armv6m-instruction-coverage:%s' % name.replace(V6M, ''))
    ctx.extra['armv6m_instruction_coverage'] = v6cov
    ctx.extra.pop('v6m_executed', None)
    ctx.extra.pop('a64_executed_addresses', None)
    ctx.extra.pop('a64_coverage', None)
    ctx.extra['aarch64_instruction_coverage'] = a64cov
    # higher layers: the tower and group-law workloads on every executable back end must be byte-identical
    import importlib
    # ... including other code generations of the portable source: clang -O0 (every source-level load and store happens, in order: what
    # latent undefined behaviour - a broken __restrict promise, a read of a dead temporary - needs in order to show) and g++ -O2
    hl = ['prod', 'x86base', 'p64', 'p32', 'p64-O0', 'gcc-p64'] + ([] if ctx.quick else ['p32-O0', 'gcc-p64-O0'])
    hexes = session.build_exes({c: (c if c != 'x86base' else 'prod', 'opdrv.cpp', ['--x86base'] if c == 'x86base' else []) for c in hl})
    hl2 = ['prod', 'x86base', 'p64', 'p32', 'p64-O0', 'gcc-p64']
    layers = [(m, 'opdrv.cpp', hl, hexes, [0, 5, 10]) for m in ('c04', 'c05', 'c06')] + [(m, 'opdrv.cpp', hl, hexes, [0, 9]) for m in ('c01', 'c07', 'c08', 'c09', 'c10')]
    wexes = session.build_exes({c: (c if c != 'x86base' else 'prod', 'wkd_drv.cpp', ['--x86base'] if c == 'x86base' else []) for c in hl2})
    sexes = session.build_exes({c: (c if c != 'x86base' else 'prod', 'scheme_drv.cpp', ['--x86base'] if c == 'x86base' else []) for c in hl2})
    layers += [(m, 'wkd_drv.cpp', hl2, wexes, [0, 9, 13]) for m in ('c11', 'c13', 'c14')] + [('c16', 'scheme_drv.cpp', hl2, sexes, [0, 5])]
    # the layers run side by side, one process each (every process forks its own shard pool)
    import multiprocessing as mp

    def layer_proc(name, cfgl, ex, only, conn):
        try:
            mod = importlib.import_module(name)
            sub = harness.Ctx(name.upper(), ctx.tier, ctx.seed)
            session.run_shards(sub, mod.worker, 16, ex, {'cfgs': cfgl}, only=only)
            conn.send({'violations': [v for v in sub.violations if ':diff:' in v['key'] or ':san:' in v['key']], 'lines': sub.extra.get('differential_lines_compared', 1), 'error': None})
        except Exception as e:
            conn.send({'violations': [], 'lines': 0, 'error': '%s: %s' % (name, str(e)[-600:])})
        conn.close()
    procs = []
    for name, drv, cfgl, ex, only in layers:
        pc, cc = mp.Pipe(False)
        sel = only if ctx.quick else (None if name in ('c04', 'c05', 'c06') else [0, 3, 6, 9, 12, 15])
        pr = mp.get_context('fork').Process(target=layer_proc, args=(name, cfgl, ex, sel, cc))
        pr.start()
        procs.append((name, cfgl, pr, pc))
    for name, cfgl, pr, pc in procs:
        if not pc.poll(1800 if ctx.quick else 7200):
            pr.kill()
            raise harness.HarnessError('higher-layer differential of %s did not finish in time (inconclusive)' % name)
        res = pc.recv()
        pr.join(30)
        if res['error']:
            raise harness.HarnessError('higher-layer differential: %s' % res['error'])
        for v in res['violations']:
            ctx.violation('higher-layer:%s' % v['key'].split(':', 1)[1], v['what'], v['replay'])
        ctx.event('higher-layer-differential:%s' % name.upper(), '/'.join(cfgl), n=max(1, res['lines']))
    ctx.extra['configurations_executed'] = ['x86-64 BMI2/ADX asm (dispatch + direct)', 'x86-64 baseline asm (dispatch pointers swapped + direct)', 'portable C++ 64-bit words', 'portable C++ 32-bit words', 'portable C++ 64-bit words at clang -O0 and g++ -O2 (higher layers; thorough: 32-bit words -O0, g++ -O0)',
                                            'AArch64 asm under oracle/a64.py', 'ARMv6-M asm under the source-level interpreter oracle/thumb.py (macro expansion + Thumb-1 semantics, three readings of low-register MOV)']
    ctx.extra['configurations_not_executed'] = []
    ctx.extra['armv6m_caveat'] = 'the ARMv6-M files cannot be assembled here (pre-UAL syntax), so the source text is interpreted, not machine code; src/core/arch/armv6_m/fp.cpp (C++ glue for the final subtraction) is modelled by its one-line definition'
    ctx.rule = ('one event = one raw multi-precision / modular routine call on one back end, judged against Python integers (result bytes and carry/borrow/shift-out) and required byte-identical on all back ends; '
                'vectors: limb patterns (all-ones, single words, 2^k-1), carry/borrow chains through every limb, sums on/around q with equal top word, reduction inputs T = v*2^384 - m*q with prescribed '
                'pre-subtraction value v (every arm of the compare-and-subtract tails, v = q exactly, meta-carry in intermediate rounds), products with prescribed residue; each with a distinct and an '
                'aliased output where the signature allows; class = (routine, branch class, alias pattern). The AArch64 routines must execute every instruction at least once.')
    ctx.assumptions = ['Python integer arithmetic', 'oracle/a64.py implements the 15 instruction forms that occur (unit-tested on hand-computed flag cases); not silicon',
                       'oracle/thumb.py interprets the ARMv6-M *source text* (GNU-as macro expansion, Thumb-1 semantics of the 17 mnemonics that occur, flags set by low-register data processing); results must not depend on the one encoding that is ambiguous without the assembler']
    need = ['raw384.mred|vcmp=/', 'raw384.mred|vcmp</top64=', 'raw384.mred|vcmp>/top64=', 'raw384.fpadd|cmp=/top64=', 'raw384.add|carry1/chain6', 'raw384.sub|borrow1/chain6', 'raw256.mred|', 'raw384.fpmul|',
            'higher-layer-differential:C04|', 'higher-layer-differential:C06|', 'higher-layer-differential:C01|', 'higher-layer-differential:C11|', 'higher-layer-differential:C16|', 'higher-layer-differential:C09|',
            'raw384.mred.carry-coincidence|w64/round0/P=2^w+0/meta0', 'raw384.mred.carry-coincidence|w64/round4/P=2^w+0/meta1', 'raw384.mred.carry-coincidence|w64/round3/P=2^w-1/meta1',
            'raw384.mred.carry-coincidence|w32/round9/P=2^w+0/meta1', 'raw256.mred.carry-coincidence|w64/round2/P=2^w-1/meta1', 'raw384.fpmul.carry-coincidence|w64/round4/P=2^w+0/meta1',
            'raw384.fpmul.carry-coincidence|w32/round10/P=2^w+0/meta1', 'raw256.fpmul.carry-coincidence|w64/round1/P=2^w+1/meta1']
    for r in need:
        if not any(k.startswith(r) for k in ctx.classes):
            ctx.required_classes.add(r)
    if not any('/meta' in k and not k.endswith('/meta-/alias0') for k in ctx.classes):
        ctx.required_classes.add('raw384.mred|meta-carry-round')
    for be in ('bmi2', 'x86base', 'p64', 'p32', 'asm-direct-base', 'asm-direct-bmi2', 'aarch64-interp', 'armv6m-source-interp'):
        if not ctx.extra.get('events_' + be):
            ctx.required_classes.add('backend-executed:' + be)
    return None
