"""C12 - WKD-IBE: keys open only matching ciphertexts; hidden slots cannot be filled."""
import random

import session
import wkd
import c11
from wkd import R, alist, fixed_list, free_slots, pstr, pattern_vector

NZ = [1, 2, R - 1, R + 1, (1 << 256) - 1, 5] + wkd.ALGEBRAIC[:6]      # all non-zero mod r


def differ(l, a, b):
    return pattern_vector(a, l) != pattern_vector(b, l)


def mutate_list(pat, l, rng):
    """a ciphertext attribute list that differs (mod r, absent = 0) from the key pattern; returns (entries, kind)"""
    base = dict(fixed_list(pat))
    kinds = ['add']
    if base:
        kinds += ['change', 'drop', 'change', 'multi']
    for _ in range(50):
        kind = rng.choice(kinds)
        d = dict(base)
        if kind == 'change':
            i = rng.choice(list(d))
            d[i] = wkd.nudge(d[i], rng, NZ)
        elif kind == 'drop':
            i = rng.choice(list(d))
            del d[i]
        elif kind == 'add':
            cand = [i for i in range(l) if i not in d]
            if not cand:
                continue
            i = rng.choice(cand)
            d[i] = rng.choice(NZ + [rng.getrandbits(256)])
            kind = 'add@' + ('free' if pat[i] == 'F' else 'hidden')
        else:
            for i in range(l):
                if rng.random() < 0.4:
                    d[i] = rng.getrandbits(256)
        ent = sorted(d.items())
        if differ(l, tuple(pat), ent):
            return ent, kind
    return None, None


def worker(sh):
    rng = sh.rng
    sc = wkd.Script(rng)
    l = [3, 3, 3, 3, 1, 2, 4, 5, 33, 8, 8, 65, 257, 20, 6, 3][sh.index]
    sig = sh.index % 2 == 1
    sc.setup(0, l, sig)
    keys = []
    # a spread of keys: all-free, fully fixed, with hidden slots, delegated
    for h in range(sh.pick(5, 30)):
        ent = c11.random_entries(None, rng, l, True)
        if h == 0:
            ent = []
        if h == 1:
            ent = [(i, (rng.choice(NZ) if rng.random() < 0.7 else (wkd.big_id(rng) % R or 1) + rng.choice([0, R]) * (rng.random() < 0.5))) for i in range(l)]
        op = rng.choice(['keygen', 'keygen', 'ndkeygen'])
        kid, pat = sc.keyop(op, 0, l, ent, False)
        keys.append((kid, pat, op))
        if op == 'keygen' and rng.random() < 0.6:
            ent2 = c11.random_entries(pat, rng, l, False)
            op2 = rng.choice(['qualify', 'ndqualify'])
            k2, pat2 = sc.keyop(op2, 0, l, ent2, False, parent=kid, parent_pattern=pat)
            keys.append((k2, pat2, op2))
    # l = 3: every key pattern x every single-slot difference (exhaustive over the pattern/slot/kind space, values sampled)
    if l == 3 and sh.index < 4:
        import itertools
        pats = list(itertools.product('FHX', repeat=3))
        for pi, pt in enumerate(pats):
            if pi % 4 != sh.index:
                continue
            ent = [(i, (rng.choice(NZ) if c == 'X' else None)) for i, c in enumerate(pt) if c != 'F']
            op = 'keygen' if pi % 2 == 0 else 'ndkeygen'
            kid, pat = sc.keyop(op, 0, 3, ent, False)
            base = dict(fixed_list(pat))
            sc.dec(kid, 0, sorted(base.items()), 1, 0, 'positive/exact')
            for i in range(3):
                d = dict(base)
                if i in d:
                    d[i] = wkd.nudge(d[i], rng, NZ)
                    if differ(3, tuple(pat), sorted(d.items())):
                        sc.dec(kid, 0, sorted(d.items()), 0, 0, 'list:change/exhaustive-l3')
                    d2 = dict(base)
                    if d2[i] % R:
                        del d2[i]
                        sc.dec(kid, 0, sorted(d2.items()), 0, 0, 'list:drop/exhaustive-l3')
                else:
                    d[i] = rng.choice(NZ)
                    sc.dec(kid, 0, sorted(d.items()), 0, 0, 'list:add@%s/exhaustive-l3' % ('free' if pat[i] == 'F' else 'hidden'))
        sh.count('exhaustive_l3_patterns', len([1 for pi in range(len(pats)) if pi % 4 == sh.index]))
    for kid, pat, op in keys:
        fl = fixed_list(pat)
        # positive controls: same pattern, equal-mod-r representatives, zero-valued extra slots
        sc.dec(kid, 0, fl, 1, 0, 'positive/exact')
        if fl:
            # the omit-from-keys flag has no meaning in a list that describes a ciphertext: the value counts all the same
            sc.dec(kid, 0, fl, 1, rng.choice([0, 10]), 'positive/exact', flag_some=True)
        eq = [(i, v + R if v + R < (1 << 256) else v) for i, v in fl]
        extra = [i for i in range(l) if i not in dict(fl)]
        if extra and rng.random() < 0.7:
            eq = sorted(eq + [(rng.choice(extra), rng.choice([0, R]))])
        sc.dec(kid, 0, eq, 1, 0, 'positive/equal-mod-r')
        # negatives: differing lists
        for _ in range(sh.pick(3, 8)):
            ent, kind = mutate_list(pat, l, rng)
            if ent is not None:
                sc.dec(kid, 0, ent, 0, 0, 'list:' + kind, flag_some=rng.random() < 0.4)
        # negatives: one ciphertext component modified
        for mod in (1, 2, 3, 4, 5, 6):
            if rng.random() < 0.6:
                sc.dec(kid, 0, fl, 0, mod, 'ct-component:%d' % mod)
    # documented adjustment that HIDES a slot it had fixed (free in the parent): the adjusted key must stop opening ciphertexts with
    # that slot set, whatever id bits the hidden entry carries (a caller that copied the attribute and toggled the flag sends the
    # old value), and the slot must then resist the filling attempts below like any other hidden slot
    for kid, pat, op in list(keys):
        free = free_slots(pat)
        if not free or rng.random() < (0.3 if l > 3 else 0.0):
            continue
        i = rng.choice(free)
        v = rng.choice(NZ)
        fl = fixed_list(pat)
        frm = sorted(fl + [(i, v)])
        to = sorted(fl + [(i, None)])
        k2 = sc.newkey()
        sc.add('ndqualify %d 0 %d %d %s %d' % (k2, kid, max(0, l - len(frm)), alist(frm), sc.seed()), 'raw')
        carried = rng.choice([v, v, v, 0, (v + R) % (1 << 256), rng.getrandbits(256)])
        sc.add('adjust %d %d %s %s' % (k2, kid, alist(frm), alist(to, False, {i: carried})), 'raw')
        tag = 'same-id' if carried == v else 'other-id'
        sc.dec(k2, 0, frm, 0, 0, 'adjust-hide:slot-still-set/' + tag)
        sc.dec(k2, 0, fl, 1, 0, 'positive/adjust-hide/' + tag)
        keys.append((k2, wkd.qualify_pattern(pat, to, False), 'adjust'))
        # and the reverse toggle: hidden in `from`, fixed in `to`
        k3 = sc.newkey()
        carried = rng.choice([v, v, 0, rng.getrandbits(256)])
        sc.add('ndqualify %d 0 %d %d %s %d' % (k3, kid, max(0, l - len(to)), alist(to, False, {i: carried}), sc.seed()), 'raw')
        sc.add('adjust %d %d %s %s' % (k3, kid, alist(to, False, {i: carried}), alist(frm)), 'raw')
        sc.dec(k3, 0, frm, 1, 0, 'positive/adjust-unhide/' + ('same-id' if carried == v else 'other-id'))
        sc.dec(k3, 0, fl, 0, 0, 'adjust-unhide:slot-dropped')
    # documented adjustment that hides every remaining free slot through the LIST-LEVEL flag while the listed slots stay where they
    # are (same ids, or one id changed): the adjusted key must resist the filling attempts below like any key made with that flag
    for kid, pat, op in list(keys):
        free = free_slots(pat)
        if len(free) < 2 or op == 'adjust' or rng.random() < (0.4 if l > 3 else 0.0):
            continue
        i = rng.choice(free)
        v = rng.choice(NZ)
        fl = fixed_list(pat)
        frm = sorted(fl + [(i, v)])
        to = frm if rng.random() < 0.5 else sorted(fl + [(i, wkd.nudge(v, rng, NZ))])
        k2 = sc.newkey()
        sc.add('ndqualify %d 0 %d %d %s %d' % (k2, kid, max(0, l - len(frm)), alist(frm), sc.seed()), 'raw')
        sc.add('adjust %d %d %s %s' % (k2, kid, alist(frm), alist(to, True)), 'raw')
        sc.dec(k2, 0, [(j, x) for j, x in to], 1, 0, 'positive/adjust-omit-all/' + ('same-ids' if to == frm else 'id-changed'))
        keys.append((k2, wkd.qualify_pattern(pat, to, True), 'adjust'))
    # attempts to give a hidden slot a value
    for kid, pat, op in keys:
        hidden = [i for i, s in enumerate(pat) if s == 'H']
        if not hidden:
            continue
        for attempt in ('qualify', 'ndqualify', 'adjust'):
            if attempt == 'qualify' and op != 'keygen':
                continue
            i = rng.choice(hidden)
            v = rng.choice(NZ)
            base = c11.random_entries(pat, rng, l, False)
            ent = sorted([(j, x) for j, x in base if j != i] + [(i, v)])
            go_alloc = max(0, l - len(ent))
            k2 = sc.newkey()
            if attempt == 'adjust':
                frm = [(j, x) for j, x in base if j != i]
                sc.add('ndqualify %d 0 %d %d %s %d' % (k2, kid, max(0, l - len(frm)), alist(frm), sc.seed()), 'raw')
                sc.add('adjust %d %d %s %s' % (k2, kid, alist(frm), alist(ent)), 'raw')
            else:
                sc.add('%s %d 0 %d %d %s %d' % (attempt, k2, kid, go_alloc, alist(ent), sc.seed()), 'raw')
            # the ciphertext the attacker wants to open: parent's fixed slots + the newly listed values + hidden slot set
            target = dict(fixed_list(pat))
            for j, x in ent:
                if x is not None:
                    target[j] = x
            sc.dec(k2, 0, sorted(target.items()), 0, 0, 'hidden-fill:' + attempt)
            # and the same without the other new values (only the hidden slot added)
            t2 = dict(fixed_list(pat))
            t2[i] = v
            sc.dec(k2, 0, sorted(t2.items()), 0, 0, 'hidden-fill-only:' + attempt)
    outs = session.run_all(sh, sh.payload['cfgs'], sc.lines)
    sh.count('scheme_ops_with_crafted_random_streams', getattr(sc, 'nstream', 0))
    for line, (kind, kw), out in zip(sc.lines, sc.exp, outs):
        if out is None:
            continue
        if kind == 'reobj':
            wkd.judge_reobj(sh, line, out)
            continue
        kv = wkd.parse_kv(out)
        try:
            if kind == 'dec':
                why = kw['why']
                got = int(kv['dec'])
                if got != kw['expect']:
                    if kw['expect'] == 0:
                        sh.violation('decrypt:opens:%s' % why.split(':')[0] + (':' + why.split(':')[1].split('@')[0] if ':' in why else ''),
                                     'key decrypted a ciphertext it must not open (%s): %s -> %s' % (why, line[:400], ' '.join(out[1:])), {'line': line})
                    else:
                        sh.violation('decrypt:fails:%s' % why, 'key failed to decrypt a matching ciphertext (%s): %s' % (why, line[:400]), {'line': line})
                if kw['mod'] == 0 and kv['decmaster'] != '1':
                    sh.violation('decrypt-master', 'master key failed to decrypt: %s' % line[:300], {'line': line})
                if kv['ctmember'] != '1':
                    sh.violation('ciphertext:membership', 'ciphertext components outside the subgroups', {'line': line})
                sh.event('decrypt', why)
                if sh.index == 0:
                    sh.sample({'why': why, 'list': str([(i, hex(v)) for i, v in kw['entries']])[:200], 'decrypts': bool(got)}, limit=4)
            elif kind == 'keyop':
                c11.judge_keyop(sh, line, kw, kv, 'setup for C12')
            elif kind == 'raw':
                if int(kv.get('overflow', '0')):
                    sh.violation('hidden-fill:overrun', 'slot array overrun while trying to fill a hidden slot: %s' % line[:300], {'line': line})
        except KeyError as e:
            sh.violation('malformed:%s' % kind, 'driver answer lacks %s: %s' % (e, out), {'line': line})


def run(ctx):
    cfgs = ['prod', 'san', 'p32'] if ctx.quick else ['prod', 'san', 'p64', 'p32', 'p32-san', 'p64-O0', 'gcc-p64']
    exes = session.build_exes({c: (c, 'wkd_drv.cpp', []) for c in cfgs})
    session.run_shards(ctx, worker, 16, exes, {'cfgs': cfgs})
    ctx.rule = ('events: decrypt(key with pattern P, fresh ciphertext for list L [optionally one component modified]) == message?  The generator guarantees a real difference: '
                'patterns and lists are compared as vectors mod r with absent = 0, so L differs from P in at least one slot (change / drop / add at a free or hidden slot / multi); '
                'positive controls use equal-mod-r representatives and zero-valued extra slots. Hidden-slot attacks: qualifykey / nondelegable_qualifykey / adjust_nondelegable are '
                'called with a list that gives a hidden slot a non-zero value and the resulting key must not open the ciphertext with that slot set. class = reason')
    ctx.extra['configs'] = cfgs
    ctx.assumptions = ['library pairing as instrument inside decrypt itself; message equality via Fq12::equal', 'coincidental equality of random GT elements has probability ~2^-255']
    need = ['decrypt|list:change/exhaustive-l3', 'decrypt|list:drop/exhaustive-l3', 'decrypt|list:add@free/exhaustive-l3', 'decrypt|list:add@hidden/exhaustive-l3', 'decrypt|positive/exact', 'decrypt|positive/equal-mod-r', 'decrypt|list:change', 'decrypt|list:drop', 'decrypt|list:add@free', 'decrypt|list:add@hidden',
            'decrypt|hidden-fill:qualify', 'decrypt|hidden-fill:ndqualify', 'decrypt|positive/exact/flagged-entries', 'decrypt|hidden-fill:adjust', 'decrypt|adjust-hide:slot-still-set/same-id', 'decrypt|positive/adjust-unhide/same-id', 'decrypt|ct-component:1', 'decrypt|ct-component:3', 'decrypt|ct-component:6']
    for r in need:
        if not any(k.startswith(r) for k in ctx.classes):
            ctx.required_classes.add(r)
    return None
