"""C06 - scalar multiplication returns [k]P for every scalar and every algorithm; recodings/decompositions are exact."""
import random

import session
import codec as C
import points
from oracle import bls as O

R, XA = O.R, O.XA
LAM = (XA * XA - 1) % R


class Gen:
    def __init__(self):
        self.lines = []
        self.meta = []

    def add(self, line, *meta):
        self.lines.append(line)
        self.meta.append(meta)


class GenTable:
    """[k]G through a table of 2^i G (reference additions only)"""

    def __init__(self, gc):
        self.gc = gc
        self.t = [gc.gen]
        for _ in range(255):
            self.t.append(gc.E.dbl(self.t[-1]))

    def mul(self, k):
        k %= R
        E = self.gc.E
        acc = None
        i = 0
        while k:
            if k & 1:
                acc = E.add(acc, self.t[i])
            k >>= 1
            i += 1
        return acc


def scalars(bits, rng, n_random):
    top = 1 << bits
    s = {0, 1, 2, 3, top - 1}
    for i in range(1, 34):
        s.add(top - i)
    for j in list(range(0, bits, 7)) + [bits - 1, bits - 2, 63, 64, 65, 127, 128, 129, 191, 192, 254, 255]:
        if j < bits:
            for d in (-1, 0, 1):
                s.add((1 << j) + d)
    alt = int('55' * (bits // 8), 16)
    s.update([alt, alt << 1, int('0f' * (bits // 8), 16), int('f0' * (bits // 8), 16), int('ff00' * (bits // 16), 16)])
    for w in (2, 3, 4, 5, 6):
        # digits at the recoding's sign boundary: residue 2^w and 2^w +- 1 repeated
        unit = (1 << w) + 1
        v = 0
        for i in range(0, bits, w + 1):
            v |= unit << i
        s.add(v)
        s.add(v ^ ((1 << bits) - 1))
    if bits >= 256:
        s.update([R - 1, R, R + 1, R - 2, 2 * R, 2 * R + 1, 2 * R - 1, (top // R) * R - 1, (top // R) * R + 1, (top // R) * R,
                  LAM, LAM + 1, LAM - 1, R - LAM - 1, R - LAM, R // 2, R // 2 + 1, (R + 1) // 2])
        for i in range(1, 4):
            for m in (1, 2, XA - 1, rng.randrange(XA)):
                s.update([m * XA ** i - 1, m * XA ** i, m * XA ** i + 1])
        d = XA - 1
        s.add(d + d * XA + d * XA ** 2 + (rng.randrange(XA)) * XA ** 3)
        s.add(d * XA ** 3 + d * XA ** 2)
        s.add(R + d + d * XA + d * XA ** 2)
    if bits >= 256:
        # exponents written down digit by digit in base |x| (the decomposition's own basis) with digits that are structured in their
        # 32-bit halves: zero low half, zero high half, 2^32, 2^32-1, zero digits in any position
        def dig():
            h = rng.getrandbits(32)
            return rng.choice([0, 0, (h % 0xd2010000) << 32, h, 1 << 32, (1 << 32) - 1, XA - 1, rng.randrange(XA), 0xd2010000 << 32])
        for _ in range(40):
            k = sum(dig() * XA ** i for i in range(4))
            if k >= R:
                k %= R
            s.add(k)
            if k + R < top and rng.random() < 0.3:
                s.add(k + R)
    if bits >= 256:
        # a multiple of the group order plus / minus an offset of every magnitude: the bands between the fixed points of the reduction
        # (conditional subtractions of r, 2r) and the constants of the decompositions (x^2 ~ 2^127.4, lambda) are found by size, not by value
        for base in (R, 2 * R):
            for j in list(range(8, 256, 8)) + [63, 65, 126, 127, 129, 130]:
                off = rng.getrandbits(j) | (1 << (j - 1))
                for v in (base + off, base - off):
                    if 0 <= v < top:
                        s.add(v)
    out = sorted(v % top for v in s if v >= 0)
    for _ in range(n_random):
        out.append(rng.getrandbits(bits))
        out.append(rng.getrandbits(rng.randrange(1, bits + 1)))
    return out


def kclass(k, bits):
    top = 1 << bits
    if k == 0:
        return 'k=0'
    if top - k <= 33:
        return 'k>=2^%d-33%s' % (bits, '/odd' if k & 1 else '/even')
    if bits >= 256:
        if k >= 2 * R:
            return 'k>=2r'
        if k >= R:
            return 'k=r' if k == R else 'r<k<2r'
        if k == R - 1:
            return 'k=r-1'
    if k < 16:
        return 'small'
    if bin(k).count('1') <= 2 or bin(k + 1).count('1') <= 1:
        return 'power-of-two-ish'
    return 'generic'


WNAF_INST = {64: (2, 4, 5), 128: (2, 3, 4, 6), 256: (2, 3, 4, 5, 6), 512: (2, 4, 6)}
RC_W = (2, 3, 4, 5, 6)


def gen_recode(g, rng, nrand):
    for bits in (64, 128, 256, 512):
        ks = scalars(bits, rng, nrand)
        for w in RC_W:
            for k in ks:
                g.add('rc.wnaf %d %d %s' % (bits, w, C.le(k, bits // 8)), 'wnaf', bits, w, k)
    for k in scalars(256, rng, nrand * 4):
        g.add('rc.pox.decompose %s' % C.le(k, 32), 'pox', k)


def gen_mul(g, gc, pool, tab, rng, directed, nrand):
    n, cn = gc.name, gc.cname
    E = gc.E
    ks256 = scalars(256, rng, nrand) if directed else [rng.getrandbits(256) for _ in range(nrand)] + scalars(256, rng, 0)[::7]
    bases = []
    for d in (1, 2, R - 1):
        bases.append(('sub', d, pool.dl[d]))
    d, P = pool.sub(rng)
    bases.append(('sub', d, P))
    bases.append(('O', 0, None))
    curve_pts = [('curve', None, P) for P in pool.curve[:1]] + [('special', None, P) for P in pool.special[:1]]

    def rnd_base(allow_curve):
        if allow_curve and rng.random() < 0.3:
            return rng.choice(curve_pts)
        return rng.choice(bases)

    for k in ks256:
        tag, d, P = rnd_base(False)
        rep, kind = gc.rep(P, rng)
        which = rng.randrange(6)
        if which == 0:
            g.add('c.%s_multiply %s %s' % (cn, rep, C.le(k, 32)), gc, 'mul', 'c.%s_multiply' % cn, tag, d, P, k, 256, kind)
        elif which == 1:
            g.add('c.%s_multiply_affine %s %s' % (cn, gc.aff(P, rng, True), C.le(k, 32)), gc, 'mul', 'c.%s_multiply_affine' % cn, tag, d, P, k, 256, 'aff')
        elif which == 2:
            g.add('%s.mul %s %s' % (n, rep, C.le(k, 32)), gc, 'mul', '%s.mul' % n, tag, d, P, k, 256, kind)
        elif which == 3:
            tag, d, P = rnd_base(True)
            rep, kind = gc.rep(P, rng)
            g.add('%s.dadd %s %s' % (n, rep, C.le(k, 32)), gc, 'mul', '%s.dadd' % n, tag, d, P, k, 256, kind)
        elif which == 4:
            tag, d, P = rnd_base(True)
            g.add('%s.daddaff %s %s' % (n, gc.aff(P, rng, True), C.le(k, 32)), gc, 'mul', '%s.daddaff' % n, tag, d, P, k, 256, 'aff')
        else:
            tag, d, P = rnd_base(True)
            rep, kind = gc.rep(P, rng)
            g.add('%s.wnafscalar %s %s' % (n, rep, C.le(k, 32)), gc, 'mul', '%s.wnafscalar' % n, tag, d, P, k, 256, kind)
    # windowed NAF for every instantiated (bits, window), affine and projective bases, arbitrary curve points too
    for bits, ws in WNAF_INST.items():
        ks = scalars(bits, rng, max(1, nrand // 8))
        if not directed:
            ks = ks[::9] + [rng.getrandbits(bits) for _ in range(max(1, nrand // 8))]
        for w in ws:
            for k in ks:
                if directed and rng.random() < 0.5 and (1 << bits) - k > 40 and k > 40:
                    continue
                tag, d, P = rnd_base(True)
                if bits == 512 and gc.which == 1 and rng.random() < 0.7:
                    continue
                aff = rng.random() < 0.5
                if aff:
                    g.add('%s.wnaf %d %d 1 %s %s' % (n, bits, w, gc.aff(P, rng, True), C.le(k, bits // 8)), gc, 'mul', '%s.wnaf<%d,%d>' % (n, bits, w), tag, d, P, k, bits, 'aff')
                else:
                    rep, kind = gc.rep(P, rng)
                    g.add('%s.wnaf %d %d 0 %s %s' % (n, bits, w, rep, C.le(k, bits // 8)), gc, 'mul', '%s.wnaf<%d,%d>' % (n, bits, w), tag, d, P, k, bits, kind)
    # precomputed table reused for two scalars
    for w in (2, 3, 4, 5, 6):
        for _ in range(max(1, nrand // 6)):
            tag, d, P = rnd_base(True)
            rep, kind = gc.rep(P, rng)
            k1 = rng.choice(ks256)
            k2 = rng.choice(ks256)
            g.add('%s.wnaftable %d %s %s %s' % (n, w, rep, C.le(k1, 32), C.le(k2, 32)), gc, 'table', '%s.wnaftable<%d>' % (n, w), tag, d, P, k1, k2, kind)
    # cofactor-width entry points
    cb = gc.cofbits
    for k in scalars(cb, rng, max(1, nrand // 4))[:: (1 if directed else 6)] + [gc.cof]:
        tag, d, P = rnd_base(True)
        rep, kind = gc.rep(P, rng)
        which = rng.randrange(3)
        if which == 0:
            g.add('%s.mulcof %s %s' % (n, rep, C.le(k, cb // 8)), gc, 'mul', '%s.mulcof%d' % (n, cb), tag, d, P, k, cb, kind)
        elif which == 1:
            g.add('%s.mulcofaff %s %s' % (n, gc.aff(P, rng, True), C.le(k, cb // 8)), gc, 'mul', '%s.mulcofaff%d' % (n, cb), tag, d, P, k, cb, 'aff')
        else:
            g.add('%s.daddcof %s %s' % (n, rep, C.le(k, cb // 8)), gc, 'mul', '%s.daddcof%d' % (n, cb), tag, d, P, k, cb, kind)
    # explicit decomposition entry points
    for _ in range(max(2, nrand // 3)):
        tag, d, P = rng.choice(bases)
        rep, kind = gc.rep(P, rng)
        if gc.which == 1:
            c0 = rng.choice([0, 1, rng.getrandbits(128), rng.getrandbits(256), (1 << 256) - 1, (1 << 256) - 3])
            c1 = rng.choice([0, 1, rng.getrandbits(128), rng.getrandbits(256), (1 << 256) - 1])
            n0, n1 = rng.randrange(2), rng.randrange(2)
            g.add('G1.mulendo4 %s %s %d %s %d' % (rep, C.le(c0, 32), n0, C.le(c1, 32), n1), gc, 'endo4', 'G1.mulendo4', tag, d, P, c0, n0, c1, n1, kind)
            g.add('G1.endo %s' % rep, gc, 'endo', 'G1.endo', tag, d, P, kind)
        else:
            cs = [rng.choice([0, 1, XA - 1, XA, (1 << 64) - 1, (1 << 64) - 3, rng.getrandbits(64)]) for _ in range(4)]
            g.add('G2.mulpox %s %s' % (rep, ' '.join(C.le(c, 8) for c in cs)), gc, 'pox4', 'G2.mulpox', tag, d, P, cs, kind)


LAMBDA_SIGN = {}


def expect_mul(gc, tab, tag, d, P, k):
    """[k]P by the reference: generator table for known logs, double-and-add otherwise"""
    if P is None:
        return None
    if tag == 'sub':
        return tab.mul(k * d)
    return gc.E.mul(P, k)


def judge(sh, line, meta, out, tabs):
    op = line.split(' ')[0]

    def fail(msg, key):
        sh.violation(key, '%s: %s -> %s' % (msg, line[:700], ' '.join(out)[:500]), {'line': line, 'got': ' '.join(out)})
    if meta[0] == 'wnaf':
        _, bits, w, k = meta
        name = 'from_bigint<%d,%d>' % (bits, w)
        cls = kclass(k, bits)
        if out[1] in ('GUARD-CLOBBERED', 'SIZE-OUT-OF-RANGE') or (len(out) > 2 and out[2] == 'SIZE-OUT-OF-RANGE'):
            fail('recoding wrote outside its digit buffer', 'wnaf:%s:buffer-overrun' % name)
            sh.event('rc.wnaf<%d,%d>' % (bits, w), cls)
            return cls
        size = int(out[1])
        digs = [] if out[2] == '-' else [int(x) for x in out[2].split(',')]
        tot = sum(dg << i for i, dg in enumerate(digs))
        if size > bits + 1 or size != len(digs):
            fail('wnaf_size %d exceeds bits+1' % size, 'wnaf:%s:size' % name)
        if any(dg and (dg % 2 == 0 or abs(dg) >= (1 << w)) for dg in digs):
            fail('digit not odd or not below 2^w', 'wnaf:%s:digit-range' % name)
        if tot != k:
            if (1 << bits) - k <= (1 << w) and k & 1 and tot == k - (1 << bits):
                fail('recoding of odd scalar within 2^w of 2^bits drops the carry out of the top word: digits sum to k-2^%d' % bits, 'wnaf:%s:carry-lost' % name)
            else:
                fail('digits do not sum to the scalar (sum=%d)' % tot, 'wnaf:%s:sum' % name)
        sh.event('rc.wnaf<%d,%d>' % (bits, w), cls, trivial=(k == 0))
        return cls
    if meta[0] == 'pox':
        k = meta[1]
        cls = kclass(k, 256)
        if out[1] == 'GUARD-CLOBBERED':
            fail('decompose wrote outside PowersOfX', 'pox:decompose:overrun')
        else:
            cs = [C.unle(t) for t in out[1:5]]
            tot = sum(c * XA ** i for i, c in enumerate(cs))
            if tot not in (k, k - R):
                fail('digits recombine to %d, neither k nor k-r' % tot, 'pox:decompose:sum')
            if any(c >= XA for c in cs[:3]):
                fail('low digit not below |x|', 'pox:decompose:digit-range')
            if max(cs):
                cls += '/c3>=|x|' if cs[3] >= XA else ''
        sh.event('rc.pox.decompose', cls, trivial=(k == 0))
        return cls
    gc, kind, name, tag, d, P = meta[:6]
    tab = tabs[gc.which]
    E = gc.E
    try:
        if kind == 'mul':
            k, bits, rk = meta[6], meta[7], meta[8]
            cls = '%s/%s/%s' % (kclass(k, bits), tag, rk)
            r = gc.dec_p(out[1])
            exp = expect_mul(gc, tab, tag, d, P, k)
            if not E.eq(r, exp):
                key = 'mul:%s:%s' % (name, kclass(k, bits).split('/')[0])
                fail('result is not [k]P (k=%x)' % k, key)
            sh.event(name, cls, trivial=(P is None and k == 0))
        elif kind == 'table':
            k1, k2, rk = meta[6], meta[7], meta[8]
            cls = '%s,%s/%s' % (kclass(k1, 256), kclass(k2, 256), tag)
            for tok, k in ((out[1], k1), (out[2], k2)):
                r = gc.dec_p(tok)
                if not E.eq(r, expect_mul(gc, tab, tag, d, P, k)):
                    fail('table multiplication is not [k]P (k=%x)' % k, 'mul:%s:%s' % (name, kclass(k, 256).split('/')[0]))
            sh.event(name, cls)
        elif kind == 'endo4':
            c0, n0, c1, n1, rk = meta[6:11]
            cls = 'signs%d%d/%s' % (n0, n1, kclass(c0, 256))
            r = gc.dec_p(out[1])
            lam = LAMBDA_SIGN.get('lam')
            kk = ((-c0 if n0 else c0) + (-c1 if n1 else c1) * lam) % R
            if not E.eq(r, expect_mul(gc, tab, tag, d, P, kk)):
                fail('multiply_endomorphism(c0,c1) is not [+-c0 +- c1*lambda]P', 'mul:G1.mulendo4:%s' % kclass(c0, 256).split('/')[0])
            sh.event(name, cls)
        elif kind == 'endo':
            r = gc.dec_p(out[1])
            cls = tag
            e1 = expect_mul(gc, tab, tag, d, P, LAM)
            e2 = expect_mul(gc, tab, tag, d, P, R - LAM - 1)
            if P is not None:
                if E.eq(r, e1):
                    LAMBDA_SIGN.setdefault('lam', LAM)
                elif E.eq(r, e2):
                    LAMBDA_SIGN.setdefault('lam', R - LAM - 1)
                else:
                    fail('endomorphism(P) is not [lambda]P for either primitive cube root of unity', 'mul:G1.endo')
                if 'lam' in LAMBDA_SIGN and not E.eq(r, expect_mul(gc, tab, tag, d, P, LAMBDA_SIGN['lam'])):
                    fail('endomorphism eigenvalue is not the same for all points', 'mul:G1.endo:inconsistent')
            sh.event(name, cls, trivial=P is None)
        elif kind == 'pox4':
            cs, rk = meta[6], meta[7]
            cls = 'digits:' + ','.join('0' if c == 0 else ('>=|x|' if c >= XA else ('max' if c == XA - 1 else 'g')) for c in cs)
            if any(c >= (1 << 64) - 4 and c & 1 for c in cs):
                cls += '/wnaf64-boundary'
            r = gc.dec_p(out[1])
            kk = sum(c * XA ** i for i, c in enumerate(cs))
            if not E.eq(r, expect_mul(gc, tab, tag, d, P, kk)):
                fail('multiply_frobenius(digits) is not [sum c_i |x|^i]P', 'mul:G2.mulpox:%s' % ('wnaf64-boundary' if 'boundary' in cls else 'value'))
            sh.event(name, cls)
    except C.NonCanonical as e:
        sh.violation('canonical:%s' % op, '%s in result of %s' % (e, line[:300]), {'line': line})
        return 'noncanonical'
    return cls


def worker(sh):
    rng = sh.rng
    g = Gen()
    tabs = {}
    directed = sh.index < 4
    if sh.index == 0 or (not sh.quick and sh.index % 4 == 0):
        gen_recode(g, random.Random(5 + sh.index), sh.pick(20, 1500))
    for which in (1, 2):
        gc = points.GroupCtx(which)
        tabs[which] = GenTable(gc)
        pool = points.Pool(gc, rng, n_random=2, n_curve=1)
        # endomorphism eigenvalue is learnt from the first 'endo' events: put them first
        g0 = Gen()
        gen_mul(g0, gc, pool, tabs[which], rng, directed and (sh.index % 2 == which - 1), sh.pick(6, 600) if which == 1 else sh.pick(4, 300))
        if which == 1:
            rep, kind = gc.rep(gc.gen, rng, 'zr')
            g.add('G1.endo %s' % rep, gc, 'endo', 'G1.endo', 'sub', 1, gc.gen, kind)
        order = sorted(range(len(g0.lines)), key=lambda i: 0 if g0.meta[i][1] == 'endo' else 1)
        for i in order:
            g.add(g0.lines[i], *g0.meta[i])
    outs = session.run_all(sh, sh.payload['cfgs'], g.lines)
    for line, meta, out in zip(g.lines, g.meta, outs):
        if out is None:
            continue
        try:
            cls = judge(sh, line, meta, out, tabs)
        except (IndexError, ValueError, AssertionError) as e:
            sh.violation('malformed:%s' % line.split(' ')[0], 'unusable answer %r for %s (%r)' % (out, line[:200], e), {'line': line})
            continue
        if sh.index == 0:
            sh.sample({'op': line[:200], 'class': cls, 'answer': ' '.join(out)[:120]}, limit=5)


def run(ctx):
    O.selftest(random.Random(ctx.seed))
    cfgs = ['prod', 'san', 'p32'] if ctx.quick else ['prod', 'san', 'p64', 'p32', 'x86base', 'p64-O0', 'gcc-p64']
    specs = {c: (c if c != 'x86base' else 'prod', 'opdrv.cpp', ['--x86base'] if c == 'x86base' else []) for c in cfgs}
    exes = session.build_exes(specs)
    session.run_shards(ctx, worker, 16, exes, {'cfgs': cfgs})
    ctx.rule = ('events: (routine, k, base) -> result for every multiplication entry point (C API multiply/multiply_affine, endomorphism/Frobenius methods, '
                'multiply_wnaf for windows 2-6 and widths 64/128/256/512, table multiplication, double-and-add, cofactor-width overloads) and the recoding / '
                'decomposition outputs themselves; oracle: [k]P by reference additions (generator table for known logs, double-and-add for arbitrary curve points), '
                'sum d_i 2^i = k with odd digits below 2^w inside the buffer, sum c_i|x|^i in {k, k-r}; class = (routine, scalar class incl. the 33 values below 2^bits, '
                'k>=r, k>=2r, base provenance/representative)')
    ctx.extra['configs'] = cfgs
    ctx.assumptions = ['Python integer arithmetic', 'oracle/bls.py curve arithmetic (self-tested)']
    need = ['rc.wnaf<256,4>|k>=2^256-33/odd', 'rc.wnaf<64,2>|k>=2^64-33/odd', 'rc.wnaf<128,4>|k>=2^128-33/odd', 'rc.wnaf<512,6>|k>=2^512-33/odd',
            'rc.pox.decompose|k>=2r', 'rc.pox.decompose|r<k<2r', 'rc.pox.decompose|k=r',
            'c.g1_multiply|k>=2r', 'c.g2_multiply|k>=2r', 'c.g1_multiply_affine|', 'c.g2_multiply_affine|', 'G1.wnaf<256,4>|k>=2^256-33/odd',
            'G2.wnaf<256,4>|k>=2^256-33/odd', 'G1.mulcof128|k>=2^128-33/odd', 'G2.mulcof512|', 'G1.wnaftable<4>|', 'G2.wnaftable<2>|', 'G1.mulendo4|', 'G2.mulpox|',
            'G1.dadd|', 'G2.daddaff|', 'G1.wnaf<128,4>|', 'G2.wnaf<512,4>|']
    for r in need:
        if not any(k.startswith(r) for k in ctx.classes):
            ctx.required_classes.add(r)
    return None
