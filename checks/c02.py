"""C02 - Fq and Fr arithmetic is exact modular arithmetic with canonical results.

Events: one line per public Fq/Fr operation (raw limbs in, raw limbs out).
Oracle: Python integers mod p on the decoded values; every output limb vector must be < p.
Workload: operands are *solved for* so that every arm of the compare-and-subtract logic is taken.
"""
import session
from codec import le, unle
from oracle import bls as O


class FD:
    def __init__(self, name, p, bits):
        self.name = name
        self.p = p
        self.bits = bits
        self.nb = bits // 8
        self.Rm = pow(2, bits, p)
        self.Rinv = pow(self.Rm, -1, p)
        self.live = p.bit_length()
        self.mask = (1 << self.live) - 1

    def val(self, raw):
        return raw * self.Rinv % self.p

    def raw(self, v):
        return v * self.Rm % self.p

    def tok(self, raw):
        return le(raw, self.nb)

    def top(self, v, w):
        return v >> (self.bits - w)


FQ = FD('Fq', O.Q, 384)
FR = FD('Fr', O.R, 256)


def rel(a, b):
    return '<' if a < b else ('=' if a == b else '>')


def cls_vs_p(F, s):
    return 'cmp%s/top64%s/top32%s%s' % (rel(s, F.p), rel(F.top(s, 64), F.top(F.p, 64)), rel(F.top(s, 32), F.top(F.p, 32)),
                                       '/carry' if s >> F.bits else '')


def chain(a, b, sub, w=64, n=6):
    """longest run of consecutive words with carry/borrow out when adding/subtracting"""
    c = 0
    run = best = 0
    m = (1 << w) - 1
    for i in range(n):
        x = (a >> (w * i)) & m
        y = (b >> (w * i)) & m
        if sub:
            c = 1 if x - y - c < 0 else 0
        else:
            c = 1 if x + y + c > m else 0
        run = run + 1 if c else 0
        best = max(best, run)
    return best


def redc_v(F, T):
    """pre-subtraction value of Montgomery reduction (definition: (T + m p) / 2^bits, m = -T/p mod 2^bits)"""
    m = (-T * pow(F.p, -1, 1 << F.bits)) % (1 << F.bits)
    v = (T + m * F.p) >> F.bits
    assert (T + m * F.p) % (1 << F.bits) == 0
    return v


def specials(F):
    p = F.p
    s = {0, 1, 2, 3, p - 1, p - 2, (p - 1) // 2, (p + 1) // 2, F.Rm, p - F.Rm, F.Rm * F.Rm % p}
    for k in range(0, F.bits, 32):
        for d in (-1, 0, 1):
            v = (1 << k) + d
            if 0 <= v < p:
                s.add(v)
    nw = F.bits // 64
    for i in range(nw):
        v = ((1 << 64) - 1) << (64 * i)
        if v < p:
            s.add(v)
        v = p - (1 << (64 * i))
        if v >= 0:
            s.add(v)
        s.add((p >> (64 * i)) << (64 * i))          # low words zero
        s.add(p & ((1 << (64 * (i + 1))) - 1) if (p & ((1 << (64 * (i + 1))) - 1)) < p else 0)
    # alternating bits
    alt = int('55' * F.nb, 16) & F.mask
    for v in (alt, alt << 1):
        s.add(v % p)
    return sorted(x for x in s if 0 <= x < p)


def boundary_sums(F, rng):
    p = F.p
    out = [p - 1, p, p + 1, 2 * p - 2, 0, 1]
    for e in (0, 1, 31, 32, 33, 63, 64, 65, 100, 128, 200, F.bits - 65, F.bits - 64 - 1):
        for sgn in (1, -1):
            out.append(p + sgn * (1 << e))
            out.append(p + sgn * ((1 << e) + rng.randrange(1 << e)))
    # same top 64-bit word as p, lower part anything
    top = F.top(p, 64) << (F.bits - 64)
    for _ in range(8):
        out.append(top + rng.randrange(1 << (F.bits - 64)))
    top32 = F.top(p, 32) << (F.bits - 32)
    for _ in range(8):
        out.append(top32 + rng.randrange(1 << (F.bits - 32)))
    return [s for s in out if 0 <= s <= 2 * p - 2]


def cascade_sums(F, rng):
    """sums s = a + b (0 <= s <= 2p-2) laid out against the word-wise compare-with-p cascade of the modular add / double routines: the top j
    words equal p's, the deciding word differs from p's word there in every way that matters to a comparison (one above / below, 0, all-ones,
    sign bit set / clear / flipped - a signed compare goes wrong there), the words below are random, zero or all-ones; for 64- and 32-bit words"""
    p = F.p
    out = []
    for w in (64, 32):
        n = (F.bits + w - 1) // w
        pw = [(p >> (w * i)) & ((1 << w) - 1) for i in range(n)]
        for j in range(n):
            d = n - 1 - j                       # index of the deciding word
            cands = {pw[d] + 1, pw[d] - 1, 0, (1 << w) - 1, 1 << (w - 1), (1 << (w - 1)) - 1, pw[d] ^ (1 << (w - 1)), (pw[d] | (1 << (w - 1))), rng.getrandbits(w)}
            for dv in cands:
                if dv < 0 or dv >> w or dv == pw[d]:
                    continue
                low = rng.choice([0, (1 << (w * d)) - 1, rng.getrandbits(w * d) if d else 0, rng.getrandbits(w * d) if d else 0])
                s_ = sum(pw[i] << (w * i) for i in range(d + 1, n)) | (dv << (w * d)) | low
                if 0 <= s_ <= 2 * p - 2:
                    out.append(s_)
                    if s_ % 2:
                        out.append(s_ ^ 1)      # an even neighbour, for the doubling routine
    return out


def split_sum(F, s, rng):
    lo = max(0, s - (F.p - 1))
    hi = min(F.p - 1, s)
    a = rng.randint(lo, hi)
    return a, s - a


class Gen:
    def __init__(self, sh):
        self.sh = sh
        self.lines = []
        self.meta = []

    def add(self, line, *meta):
        self.lines.append(line)
        self.meta.append(meta)


def gen_directed(g, F, rng):
    n = F.name
    p = F.p
    T = F.tok
    sp = specials(F)
    # add / dbl boundaries
    for s in boundary_sums(F, rng) + cascade_sums(F, rng):
        for _ in range(2):
            a, b = split_sum(F, s, rng)
            g.add('%s.add %s %s' % (n, T(a), T(b)), 'add', F, a, b)
        if s % 2 == 0 and s // 2 < p:
            g.add('%s.dbl %s' % (n, T(s // 2)), 'dbl', F, s // 2)
    for a in sp:
        for b in sp[::3]:
            g.add('%s.add %s %s' % (n, T(a), T(b)), 'add', F, a, b)
            g.add('%s.sub %s %s' % (n, T(a), T(b)), 'sub', F, a, b)
        g.add('%s.dbl %s' % (n, T(a)), 'dbl', F, a)
        g.add('%s.neg %s' % (n, T(a)), 'neg', F, a)
        g.add('%s.sqr %s' % (n, T(a)), 'sqr', F, a)
        g.add('%s.inv %s' % (n, T(a)), 'inv', F, a)
        g.add('%s.get %s' % (n, T(a)), 'get', F, a)
        g.add('%s.set %s' % (n, T(a)), 'set', F, a)
        g.add('%s.leg %s' % (n, T(a)), 'leg', F, a)
        g.add('%s.iszero %s' % (n, T(a)), 'iszero', F, a)
        g.add('%s.isone %s' % (n, T(a)), 'isone', F, a)
        g.add('%s.copy %s' % (n, T(a)), 'copy', F, a)
        g.add('%s.mont %s' % (n, T(a)), 'mont', F, a)
    # subtraction borrow chains across every word boundary
    nw = F.bits // 64
    for k in range(1, nw):
        hi = rng.randrange(1, p >> (64 * k)) << (64 * k)
        for b in (1, rng.randrange(1, 1 << 64), (1 << (64 * k)) - 1):
            if hi < p and b < p:
                g.add('%s.sub %s %s' % (n, T(hi), T(b)), 'sub', F, hi, b)
                g.add('%s.sub %s %s' % (n, T(b), T(hi)), 'sub', F, b, hi)
    for k32 in range(1, F.bits // 32):
        hi = rng.randrange(1, max(2, p >> (32 * k32))) << (32 * k32)
        if hi < p:
            g.add('%s.sub %s %s' % (n, T(hi), T(1)), 'sub', F, hi, 1)
    # multiplication with prescribed Montgomery pre-subtraction residue t
    targets = [1, 2, 3, p - 1, p - 2, (1 << 64) - 1, 1 << 64, (1 << (F.bits - 64)) - 1]
    top = F.top(p, 64) << (F.bits - 64)
    for _ in range(10):
        t = top + rng.randrange(1 << (F.bits - 64))
        if t < p:
            targets.append(t)
        targets.append(rng.randrange(1 << (F.bits - 64)))     # v = t or t + p : top word equal when + p
        targets.append(p - 1 - rng.randrange(1 << 64))
        targets.append(rng.randrange(1 << 64))
    for t in targets:
        t %= p
        for _ in range(3):
            a = rng.randrange(1, p)
            b = t * F.Rm * pow(a, -1, p) % p
            g.add('%s.mul %s %s' % (n, T(a), T(b)), 'mul', F, a, b)
        # squares with prescribed residue when t*R is a quadratic residue
        tt = t * F.Rm % p
        if O.fp_legendre(tt, p) == 1:
            rt = sqrt_mod(tt, p, rng)
            if rt is not None:
                g.add('%s.sqr %s' % (n, T(rt)), 'sqr', F, rt)
                g.add('%s.sqr %s' % (n, T(p - rt)), 'sqr', F, p - rt)
    for a in sp[::2]:
        for b in sp[::5]:
            g.add('%s.mul %s %s' % (n, T(a), T(b)), 'mul', F, a, b)
    # set / conversion of arbitrary (also non-reduced) integers
    for v in (0, 1, p - 1, p, p + 1, (1 << F.bits) - 1, 1 << (F.bits - 1), F.mask, F.mask + 1):
        if v < (1 << F.bits):
            g.add('%s.set %s' % (n, T(v)), 'set', F, v)
    # exponents
    base = [0, 1, p - 1, 2, rng.randrange(p), rng.randrange(p)]
    exps = [0, 1, 2, 3, p - 1, p, p - 2, (p - 1) // 2, (1 << F.bits) - 1, 1 << (F.bits - 1), rng.getrandbits(F.bits)]
    for a in base:
        for e in exps:
            g.add('%s.exp %s %s' % (n, T(F.raw(a)), le(e, F.nb)), 'exp', F, F.raw(a), e, F.bits)
        for e in (0, 1, (1 << 64) - 1, rng.getrandbits(64)):
            g.add('%s.exp64 %s %s' % (n, T(F.raw(a)), le(e, 8)), 'exp', F, F.raw(a), e, 64)
        for e in ((1 << 512) - 1, rng.getrandbits(512), (p * p) % (1 << 512)):
            g.add('%s.exp512 %s %s' % (n, T(F.raw(a)), le(e, 64)), 'exp', F, F.raw(a), e, 512)
    # eq / cmp
    for a in sp[::2]:
        for b in sp[::4]:
            g.add('%s.eq %s %s' % (n, T(a), T(b)), 'eq', F, a, b)
            if F is FQ:
                g.add('Fq.cmp %s %s' % (T(a), T(b)), 'cmp', F, a, b)
    # square roots
    if F is FR:
        # Tonelli-Shanks: squares of every 2-adic order
        s2 = 32
        tt = (p - 1) >> s2
        nonres = 2
        while O.fp_legendre(nonres, p) != -1:
            nonres += 1
        c = pow(nonres, tt, p)                       # generator of the 2-Sylow subgroup
        for j in range(0, s2 + 1):
            z = pow(c, 1 << (s2 - j), p) if j else 1  # element of order 2^j
            for _ in range(2):
                h = pow(rng.randrange(1, p), 1 << s2, p)   # odd-order part
                w = z * h % p
                a = w * w % p
                g.add('Fr.sqrt %s' % T(F.raw(a)), 'sqrt', F, F.raw(a))
    for v in (0, 1, 4, 9, p - 1):
        g.add('%s.sqrt %s' % (n, T(F.raw(v))), 'sqrt', F, F.raw(v))
    # byte input / hash reduction: hostile strings
    hostile = [0, 1, p - 1, p, p + 1, F.mask, F.mask + 1, (1 << F.bits) - 1, (1 << F.bits) - 2, p | (1 << (F.bits - 1)),
               p | (1 << (F.bits - 2)), (p - 1) | (7 << (F.bits - 3)), 2 * p, 2 * p - 1 if 2 * p - 1 <= F.mask else p]
    for v in hostile:
        v &= (1 << F.bits) - 1
        g.add('%s.hashred %s' % (n, T(v)), 'hashred', F, v)
        if F is FQ:
            g.add('Fq.rd %s' % le(v, 48)[::-1][::1] if False else 'Fq.rd %s' % int(v).to_bytes(48, 'big').hex(), 'rd', F, v)
        else:
            g.add('c.zp_from_hash %s' % int(v).to_bytes(32, 'big').hex(), 'zp_from_hash', F, v)
            g.add('c.scalar_hash_reduce %s' % T(v), 'hashred', F, v)
    if F is FQ:
        for a in sp:
            g.add('Fq.wr %s' % T(a), 'wr', F, a)
    # samplers with scripted rejections
    for k in range(0, 9):
        stream = b''
        for i in range(k):
            bad = rng.randrange(p, F.mask + 1)        # masked value >= p  -> rejected
            bad |= rng.getrandbits(F.bits - F.live) << F.live
            stream += bad.to_bytes(F.nb, 'little')
        good = rng.randrange(p) | (rng.getrandbits(F.bits - F.live) << F.live)
        stream += good.to_bytes(F.nb, 'little')
        g.add('%s.random %s' % (n, stream.hex()), 'random', F, stream)
        if F is FR:
            g.add('c.zp_random %s' % stream.hex(), 'random', F, stream)
            g.add('c.random_zpstar %s' % stream.hex(), 'random', F, stream)
    for edge in (p, p - 1, 0, F.mask):
        stream = edge.to_bytes(F.nb, 'little') + rng.randrange(p).to_bytes(F.nb, 'little')
        g.add('%s.random %s' % (n, stream.hex()), 'random', F, stream)


def gen_coincidences(g, F, rng, budget=None):
    """products whose word-serial Montgomery reduction hits an exact carry coincidence (lib/redcsolve.py): P_i = T[i+n]+carry_i in
    {2^w-2, 2^w-1, 2^w, 2^w+1} with and without a pending meta-carry, for every round and for 64- and 32-bit words"""
    import redcsolve
    jobs = []
    for w in (64, 32):
        n = F.bits // w
        for row in range(n - 1):
            for t in redcsolve.coincidence_targets(w):
                for m in (0, 1):
                    if row == 0 and m:
                        continue        # no round precedes round 0
                    jobs.append((w, row, t, m))
    if budget is not None:
        jobs = rng.sample(jobs, min(budget, len(jobs)))
    for w, row, t, m in jobs:
        ab = redcsolve.solve_product(F.p, F.bits, w, row, t, m, rng)
        if ab is None:
            continue
        a, b = ab
        label = 'w%d/round%d/P=2^w%+d/meta%d' % (w, row, t - (1 << w), m)
        for x, y in ((a, b), (b, a)):
            g.add('%s.mul %s %s' % (F.name, F.tok(x), F.tok(y)), 'mul', F, x, y, label)


def sqrt_mod(a, p, rng):
    if p % 4 == 3:
        s = pow(a, (p + 1) // 4, p)
        return s if s * s % p == a % p else None
    # Tonelli-Shanks (reference implementation, used only to build inputs)
    if O.fp_legendre(a, p) != 1:
        return None
    s, t = 0, p - 1
    while t % 2 == 0:
        s += 1
        t //= 2
    z = 2
    while O.fp_legendre(z, p) != -1:
        z += 1
    c = pow(z, t, p)
    x = pow(a, (t + 1) // 2, p)
    b = pow(a, t, p)
    m = s
    while b != 1:
        i, bb = 0, b
        while bb != 1:
            bb = bb * bb % p
            i += 1
        f = pow(c, 1 << (m - i - 1), p)
        x = x * f % p
        c = f * f % p
        b = b * c % p
        m = i
    return x


def gen_random(g, F, rng, count):
    n = F.name
    p = F.p
    T = F.tok
    ops = ['add', 'sub', 'mul', 'mul', 'sqr', 'dbl', 'neg', 'inv', 'get', 'set', 'leg', 'sqrt', 'exp', 'eq', 'hashred', 'mont', 'random']
    if F is FQ:
        ops += ['cmp', 'rd', 'wr']
    else:
        ops += ['zp_from_hash']
    for _ in range(count):
        op = rng.choice(ops)
        a = rng.randrange(p)
        b = rng.randrange(p)
        if rng.random() < 0.1:
            a = rng.choice((0, 1, p - 1, F.Rm, a >> rng.randrange(F.bits)))
        elif rng.random() < 0.2:
            # internal representations made of extreme words (all ones, single bits, half words): maximal partial products and carries in
            # every multiplication variant (64- and 32-bit words, Karatsuba-style recombinations)
            def sw():
                v = 0
                nw = F.bits // 32
                for k in range(nw - 1):
                    v |= (rng.choice([0, 1, 0xffffffff, 0xfffffffe, 0x80000000, 0x7fffffff, 0xffff, 0x10000]) if rng.random() < 0.75 else rng.getrandbits(32)) << (32 * k)
                ptop = p >> (F.bits - 32)
                v |= rng.choice([0, 1, 0xffff, 0x10000, ptop - 1, rng.randrange(ptop)]) << (F.bits - 32)      # stays below p without reduction
                return v
            a, b = sw(), sw()
        if op in ('add', 'sub', 'mul'):
            g.add('%s.%s %s %s' % (n, op, T(a), T(b)), op, F, a, b)
        elif op in ('sqr', 'dbl', 'neg', 'inv', 'get', 'leg', 'mont', 'wr'):
            g.add('%s.%s %s' % (n, op, T(a)), op, F, a)
        elif op == 'set':
            v = rng.getrandbits(F.bits) if rng.random() < 0.3 else a
            g.add('%s.set %s' % (n, T(v)), 'set', F, v)
        elif op == 'sqrt':
            # Fr::square_root (Tonelli-Shanks) does not terminate on non-squares; the property only covers
            # "square root of a square", so Fr gets squares only.  Fq (one exponentiation) also gets non-squares.
            if F is FR or rng.random() < 0.8:
                a = F.raw(F.val(a) ** 2 % p)
            g.add('%s.sqrt %s' % (n, T(a)), 'sqrt', F, a)
        elif op == 'exp':
            e = rng.getrandbits(rng.choice((8, 64, F.bits)))
            g.add('%s.exp %s %s' % (n, T(a), le(e, F.nb)), 'exp', F, a, e, F.bits)
        elif op == 'eq':
            if rng.random() < 0.3:
                b = a
            g.add('%s.eq %s %s' % (n, T(a), T(b)), 'eq', F, a, b)
        elif op == 'cmp':
            if rng.random() < 0.1:
                b = a
            g.add('Fq.cmp %s %s' % (T(a), T(b)), 'cmp', F, a, b)
        elif op == 'hashred':
            v = rng.getrandbits(F.bits)
            g.add('%s.hashred %s' % (n, T(v)), 'hashred', F, v)
        elif op == 'rd':
            v = rng.getrandbits(384)
            g.add('Fq.rd %s' % v.to_bytes(48, 'big').hex(), 'rd', F, v)
        elif op == 'zp_from_hash':
            v = rng.getrandbits(256)
            g.add('c.zp_from_hash %s' % v.to_bytes(32, 'big').hex(), 'zp_from_hash', F, v)
        elif op == 'random':
            stream = rng.getrandbits(8 * F.nb * 12).to_bytes(F.nb * 12, 'little')
            g.add('%s.random %s' % (n, stream.hex()), 'random', F, stream)


def canon(sh, F, tok, line, what='result'):
    raw = unle(tok)
    if raw >= F.p:
        sh.violation('canonical:%s' % line.split(' ')[0], '%s of %s is not below the modulus: %x' % (what, line[:300], raw), {'line': line})
        return None
    return raw


def judge(sh, line, meta, out):
    kind, F = meta[0], meta[1]
    p = F.p
    op = line.split(' ')[0]
    V = F.val
    bad = None
    cls = None
    trivial = False

    def fail(msg, key=None):
        sh.violation(key or ('value:%s' % op), '%s: %s -> %s' % (msg, line[:400], ' '.join(out)[:300]), {'line': line, 'got': ' '.join(out)})

    if kind in ('add', 'sub', 'mul'):
        a, b = meta[2], meta[3]
        r = canon(sh, F, out[1], line)
        if kind == 'add':
            exp = (V(a) + V(b)) % p
            cls = cls_vs_p(F, a + b) + '/chain%d' % chain(a, b, False)
        elif kind == 'sub':
            exp = (V(a) - V(b)) % p
            d = a - b
            cls = ('borrow' if d < 0 else ('zero' if d == 0 else 'noborrow')) + '/bchain%d' % chain(a, b, True)
            if d < 0:
                cls += '/addback%d' % chain(d % (1 << F.bits), p, False)
        else:
            exp = V(a) * V(b) % p
            v = redc_v(F, a * b)
            cls = 'v' + cls_vs_p(F, v)
        trivial = (a in (0,) and b in (0,))
        if r is not None and V(r) != exp:
            fail('wrong %s' % kind)
    elif kind in ('sqr', 'dbl', 'neg', 'inv', 'copy', 'mont'):
        a = meta[2]
        r = canon(sh, F, out[1], line)
        if kind == 'sqr':
            exp = V(a) ** 2 % p
            cls = 'v' + cls_vs_p(F, redc_v(F, a * a))
        elif kind == 'dbl':
            exp = 2 * V(a) % p
            cls = cls_vs_p(F, 2 * a)
        elif kind == 'neg':
            exp = (-V(a)) % p
            cls = 'zero' if a == 0 else 'nonzero'
        elif kind == 'copy':
            exp = V(a)
            cls = 'copy'
        elif kind == 'mont':
            exp = a % p      # value whose Montgomery form is a*R: i.e. raw a reinterpreted as integer
            cls = 'mont'
            if r is not None and r != a * F.Rm % p:
                fail('into_montgomery_form wrong')
            r = None
        else:
            exp = pow(V(a), -1, p) if a else 0
            cls = 'zero' if a == 0 else ('one' if V(a) == 1 else 'generic')
        if r is not None and V(r) != exp:
            fail('wrong %s' % kind)
    elif kind == 'get':
        a = meta[2]
        r = canon(sh, F, out[1], line, 'integer')
        cls = 'get'
        if r is not None and r != V(a):
            fail('get() is not the represented value')
    elif kind == 'set':
        v = meta[2]
        r = canon(sh, F, out[1], line)
        cls = 'in-range' if v < p else 'above-modulus'
        if r is not None and V(r) != v % p:
            fail('set() does not represent the integer mod p')
    elif kind == 'leg':
        a = meta[2]
        got = int(out[1])
        exp = O.fp_legendre(V(a), p)
        cls = 'leg%d' % exp
        if got != exp:
            fail('legendre symbol wrong (expected %d)' % exp)
    elif kind in ('iszero', 'isone'):
        a = meta[2]
        got = int(out[1])
        exp = int(V(a) == (0 if kind == 'iszero' else 1))
        cls = '%s%d' % (kind, exp)
        if got != exp:
            fail('%s wrong' % kind)
    elif kind == 'exp':
        a, e = meta[2], meta[3]
        r = canon(sh, F, out[1], line)
        exp = pow(V(a), e, p)
        cls = 'w%d/' % meta[4] + ('e=0' if e == 0 else ('e>=p' if e >= p else 'e<p')) + ('/base0' if a == 0 else '')
        if r is not None and V(r) != exp:
            fail('exponentiate wrong')
    elif kind == 'eq':
        a, b = meta[2], meta[3]
        got = int(out[1])
        exp = int(V(a) == V(b))
        cls = 'eq%d' % exp
        if got != exp or (a == b) != bool(exp):
            fail('equal() disagrees with field equality')
    elif kind == 'cmp':
        a, b = meta[2], meta[3]
        got = int(out[1])
        va, vb = V(a), V(b)
        exp = (va > vb) - (va < vb)
        rawo = (a > b) - (a < b)
        cls = 'cmp%d' % exp + ('/raw-order-differs' if rawo != exp else '')
        if got != exp:
            if got == rawo:
                fail('Fq::compare orders the internal (Montgomery) limbs, not the field values: values %x vs %x expected %d' % (va, vb, exp),
                     'compare:Fq::compare:order-of-montgomery-form')
            else:
                fail('Fq::compare is neither value order nor limb order', 'compare:Fq::compare:inconsistent')
    elif kind == 'sqrt':
        a = meta[2]
        va = V(a)
        r = canon(sh, F, out[1], line)
        lg = O.fp_legendre(va, p)
        if lg == -1:
            cls = 'nonsquare(unjudged)'
            trivial = True
        else:
            if F is FR and va:
                t = (p - 1) >> 32
                x = pow(va, t, p)
                m = 0
                while x != 1:
                    x = x * x % p
                    m += 1
                cls = 'ts-order%d' % m
            else:
                cls = 'zero' if va == 0 else 'square'
            if r is not None and V(r) ** 2 % p != va:
                fail('square_root(a)^2 != a for a square a')
    elif kind == 'hashred':
        v = meta[2]
        r = canon(sh, F, out[1], line)
        m = v & F.mask
        exp = m - p if m >= p else m
        top = (v >> (F.bits - 1)) & 1
        cls = ('masked>=p' if m >= p else 'masked<p') + ('/flagbits' if v >> F.live else '')
        if r is not None and r != exp:
            fail('hash_reduce value wrong')
        if len(out) > 2 and int(out[2]) != top:
            fail('hash_reduce top bit wrong')
    elif kind == 'zp_from_hash':
        v = meta[2]
        r = canon(sh, F, out[1], line)
        exp = (v & F.mask) % p
        cls = ('masked>=p' if (v & F.mask) >= p else 'masked<p') + ('/topbit' if v >> 255 else '')
        if r is not None and r != exp:
            fail('zp_from_hash != (h mod 2^255) mod r')
    elif kind == 'rd':
        v = meta[2]
        r = canon(sh, F, out[1], line)
        m = v & F.mask
        cls = ('masked>=p' if m >= p else 'masked<p') + ('/flagbits' if v >> F.live else '')
        if r is not None and V(r) != m % p:
            fail('read_big_endian value wrong')
    elif kind == 'wr':
        a = meta[2]
        cls = 'wr'
        got = int(out[1], 16)
        if got != V(a):
            fail('write_big_endian is not the canonical big-endian integer')
    elif kind == 'random':
        stream = meta[2]
        r = canon(sh, F, out[1], line)
        pos = 0
        rej = 0
        exp = None
        while pos + F.nb <= len(stream):
            c = int.from_bytes(stream[pos:pos + F.nb], 'little') & F.mask
            pos += F.nb
            if c < p:
                exp = c
                break
            rej += 1
        consumed, exhausted, nreq = int(out[2]), int(out[3]), int(out[4])
        if exp is None:
            cls = 'stream-exhausted(range only)'
        else:
            cls = 'rejections%d' % min(rej, 9)
            if r is not None and (r != exp or consumed != pos or exhausted):
                fail('sampler does not return the first draw below the modulus (expected %x after %d rejections, consumed %d)' % (exp, rej, consumed))
            sizes = out[5].split(',')
            if any(int(s) != F.nb for s in sizes):
                fail('sampler requested unexpected sizes %s' % out[5])
    else:
        raise AssertionError(kind)
    sh.event(op, cls, trivial)
    return cls


def worker(sh):
    g = Gen(sh)
    rng = sh.rng
    if sh.index == 0:
        import random
        drng = random.Random(20260927)   # directed stratum is seed-independent
        gen_directed(g, FQ, drng)
        gen_directed(g, FR, drng)
        gen_coincidences(g, FQ, drng)
        gen_coincidences(g, FR, drng)
        sh.count('directed_events', len(g.lines))
    else:
        # further instances of the carry coincidences, seed-dependent
        gen_coincidences(g, FQ, rng, budget=sh.pick(4, 40))
        gen_coincidences(g, FR, rng, budget=sh.pick(4, 40))
    n = sh.pick(20000, 250000)
    gen_random(g, FQ, rng, n)
    gen_random(g, FR, rng, n)
    cfgs = sh.payload['cfgs']
    outs = session.run_all(sh, cfgs, g.lines)
    for line, meta, out in zip(g.lines, g.meta, outs):
        if out is None:
            continue
        try:
            cls = judge(sh, line, meta, out)
            if len(meta) > 4 and meta[0] == 'mul':
                sh.event('%s.mul.carry-coincidence' % meta[1].name, meta[4])
        except (IndexError, ValueError) as e:
            sh.violation('malformed:%s' % line.split(' ')[0], 'unparsable answer %r for %s (%s)' % (out, line[:200], e), {'line': line})
            continue
        if sh.index == 0:
            sh.sample({'op': line[:160], 'class': cls, 'answer': ' '.join(out)[:160]}, limit=4)


REQUIRED = [
    'Fq.add|cmp=/top64=/top32=/chain', 'Fq.add|cmp</top64=', 'Fq.add|cmp>/top64=', 'Fr.add|cmp=/top64=', 'Fr.add|cmp>/top64=', 'Fr.add|cmp</top64=',
    'Fq.mul|vcmp</top64=', 'Fq.mul|vcmp>/top64=', 'Fr.mul|vcmp>/top64=', 'Fr.mul|vcmp</top64=',
    'Fq.sub|borrow/bchain5', 'Fr.sub|borrow/bchain3', 'Fr.sqrt|ts-order31', 'Fr.sqrt|ts-order0', 'Fq.random|rejections8', 'Fr.random|rejections8',
    'Fq.mul.carry-coincidence|w64/round0/P=2^w+0/meta0', 'Fq.mul.carry-coincidence|w64/round4/P=2^w+0/meta1', 'Fq.mul.carry-coincidence|w64/round2/P=2^w-1/meta1',
    'Fr.mul.carry-coincidence|w64/round1/P=2^w-1/meta1', 'Fr.mul.carry-coincidence|w64/round2/P=2^w+0/meta1', 'Fr.mul.carry-coincidence|w32/round6/P=2^w+0/meta1', 'Fq.mul.carry-coincidence|w32/round10/P=2^w-1/meta1',
    'Fq.rd|masked>=p', 'Fq.hashred|masked>=p', 'c.zp_from_hash|masked>=p', 'Fq.inv|zero', 'Fr.inv|zero', 'Fq.neg|zero',
]


def run(ctx):
    import random
    O.selftest(random.Random(ctx.seed))
    cfgs = ['prod', 'san', 'p32', 'x86base'] if ctx.quick else ['prod', 'san', 'p64', 'p32', 'x86base', 'p32-san']
    specs = {c: (c if c != 'x86base' else 'prod', 'opdrv.cpp', ['--x86base'] if c == 'x86base' else []) for c in cfgs}
    exes = session.build_exes(specs)
    session.run_shards(ctx, worker, 16, exes, {'cfgs': cfgs})
    ctx.rule = ('one event = one Fq/Fr operation on raw limbs; judged against Python integer arithmetic on the decoded '
                'values plus limbs<p; class = (operation, branch class computed by the reference: relation of the pre-reduction '
                'value to the modulus incl. top-word equality, carry/borrow chain length, 2-adic order, sampler rejections...); '
                'zero-only events are trivial')
    ctx.extra['configs'] = cfgs
    ctx.assumptions = ['Python integer arithmetic', 'oracle/bls.py (self-tested at start)', 'driver opdrv.cpp copies operands verbatim']
    # prefix match for required classes
    missing = []
    for r in REQUIRED:
        if not any(k.startswith(r) for k in ctx.classes):
            missing.append(r)
    if missing:
        ctx.required_classes.update(missing)
    return None
