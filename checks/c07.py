"""C07 - target-group exponentiation and group operations are exact (incl. the random-exponent routine)."""
import random

import session
import codec as C
import gtlib
from oracle import bls as O
from c06 import scalars, kclass

R, XA = O.R, O.XA


class Gen:
    def __init__(self):
        self.lines = []
        self.meta = []

    def add(self, line, *meta):
        self.lines.append(line)
        self.meta.append(meta)


def sampler_replay(stream):
    """the specified sampler: four digits uniform below |x| by rejection (8 bytes each, little endian, c0 first),
    recombine, reject y >= r.  returns (y, digits, consumed, digit_rejections, outer_rejections) or None if the stream runs out"""
    pos = 0
    drej = orej = 0
    while True:
        cs = []
        for i in range(4):
            while True:
                if pos + 8 > len(stream):
                    return None
                c = int.from_bytes(stream[pos:pos + 8], 'little')
                pos += 8
                if c < XA:
                    break
                drej += 1
            cs.append(c)
        y = sum(c * XA ** i for i, c in enumerate(cs))
        if y < R:
            return y, cs, pos, drej, orej
        orej += 1


def boundary_stream(rng, delta):
    """first candidate is exactly r + delta (digits of r are (1, 0, |x|-1, |x|-1)); for delta >= 0 it must be rejected and the
    next candidate taken"""
    y = R + delta
    cs = []
    for i in range(4):
        cs.append(y % XA)
        y //= XA
    assert y == 0
    s = b''.join(c.to_bytes(8, 'little') for c in cs)
    return s + b''.join(rng.randrange(XA).to_bytes(8, 'little') for _ in range(3)) + rng.randrange(XA // 2).to_bytes(8, 'little')


def digit_edge_stream(rng, pos, first):
    """the first draw for digit `pos` is exactly `first` (|x|-1 is the largest admissible digit; |x|, |x|+1 and 2^64-1 must be
    redrawn); all other digits are small enough for the candidate to stay below r"""
    s = b''
    for i in range(4):
        if i == pos:
            s += first.to_bytes(8, 'little')
            if first >= XA:
                s += rng.randrange(XA // 2).to_bytes(8, 'little')
        else:
            s += rng.randrange(XA // 2 if i == 3 else XA).to_bytes(8, 'little')
    # spare draws (only consumed by an implementation that redraws more or less often than specified)
    return s + b''.join(rng.randrange(XA // 2).to_bytes(8, 'little') for _ in range(8))


def make_stream(rng, digit_rej, outer_rej):
    """byte stream that forces the requested numbers of rejections before an acceptable draw"""
    def digit(v, nrej):
        b = b''
        for _ in range(nrej):
            b += rng.randrange(XA, 1 << 64).to_bytes(8, 'little')
        return b + v.to_bytes(8, 'little')
    s = b''
    for _ in range(outer_rej):
        c1, c0 = rng.randrange(XA), rng.randrange(1, XA)
        for v in (c0, c1, XA - 1, XA - 1):
            s += digit(v, 0)
    for i in range(4):
        s += digit(rng.randrange(XA), digit_rej if i == rng.randrange(4) or digit_rej > 3 else 0)
    return s


def worker(sh):
    rng = sh.rng
    g = Gen()
    gtlib.selfcheck(rng)
    # GT elements with known logs: a = E0^t
    logs = [0, 1, 2, R - 1, rng.randrange(R), rng.randrange(R), rng.randrange(R)]
    elems = {t: gtlib.e0_pow(t) for t in logs}
    enc = {t: C.enc_flat(v) for t, v in elems.items()}
    ks = scalars(256, random.Random(11), 0)
    ksel = ks if (sh.index == 0 and not sh.quick) else rng.sample(ks, min(len(ks), sh.pick(25, 150)))
    ksel = list(ksel) + [rng.getrandbits(256) for _ in range(sh.pick(150, 2500))]
    if sh.index == 0:
        for k in (0, 1, 2, R - 1, R, R + 1, 2 * R, 2 * R + 1, (1 << 256) - 1, (1 << 256) - 3, (1 << 255), XA, XA ** 2, XA ** 3, XA ** 3 * (XA - 1)):
            for t in logs[:5]:
                g.add('gt.mul %s %s' % (enc[t], C.le(k, 32)), 'pow', 'gt_multiply', t, k)
            g.add('gt.nodiv %s %s' % (enc[logs[4]], C.le(k, 32)), 'pow', 'exponentiate_gt_nodiv', logs[4], k)
    for k in ksel:
        t = rng.choice(logs)
        which = rng.random()
        if which < 0.15:
            g.add('gt.mulip %s %s' % (enc[t], C.le(k, 32)), 'pow', 'gt_multiply(result==base)', t, k)
        elif which < 0.2:
            g.add('gt.nodivip %s %s' % (enc[t], C.le(k, 32)), 'pow', 'exponentiate_gt_nodiv(in place)', t, k)
        elif which < 0.6:
            g.add('gt.mul %s %s' % (enc[t], C.le(k, 32)), 'pow', 'gt_multiply', t, k)
        elif which < 0.8:
            g.add('gt.nodiv %s %s' % (enc[t], C.le(k, 32)), 'pow', 'exponentiate_gt_nodiv', t, k)
        else:
            g.add('gt.div %s %s' % (enc[t], C.le(k, 32)), 'pow', 'exponentiate_gt_div', t, k)
    # degenerate digit vectors: all zero (y = 0: the result must still be written, as the identity), single non-zero digit
    degenerate = [[0, 0, 0, 0], [1, 0, 0, 0], [0, 1, 0, 0], [0, 0, 1, 0], [0, 0, 0, 1], [XA - 1, 0, 0, 0], [0, 0, 0, XA // 2]] if sh.index < 8 else []
    for cs in degenerate + [None] * sh.pick(10, 200):
        if cs is None:
            cs = [rng.choice([0, 1, XA - 1, XA, (1 << 64) - 1, rng.getrandbits(64), rng.randrange(XA)]) for _ in range(4)]
        t = rng.choice(logs)
        g.add('gt.%s %s %s' % ('poxip' if rng.random() < 0.3 else 'pox', enc[t], ' '.join(C.le(c, 8) for c in cs)), 'pox', t, cs)
    for t in logs:
        for u in logs[:4]:
            g.add('gt.add %s %s' % (enc[t], enc[u]), 'add', t, u)
        g.add('gt.dbl %s' % enc[t], 'dbl', t)
        g.add('gt.neg %s' % enc[t], 'neg', t)
        g.add('gt.eq %s %s' % (enc[t], enc[rng.choice(logs)]), 'eq', t)
    # the random-exponent routine with scripted byte streams
    plans = [(0, 0), (1, 0), (3, 0), (9, 0), (0, 1), (0, 2), (2, 1)] if sh.index < 4 else []
    plans += [(rng.randrange(3), 0) for _ in range(sh.pick(6, 100))]
    for (dr, orj) in plans:
        stream = make_stream(rng, dr, orj)
        t = rng.choice(logs)
        g.add('gt.mulrand %s %s' % (enc[t], stream.hex()), 'rand', t, stream)
        g.add('gt.mulrandip %s %s' % (enc[t], stream.hex()), 'rand', t, stream)
        g.add('rc.pox.random %s' % stream.hex(), 'prand', stream)
        g.add('c.wkd_random_gt %s' % stream.hex(), 'wkdgt', stream)
    if sh.index < 8:
        # the accepted draw is y = 0 (four zero digits), directly, after a rejected digit, and after a rejected candidate y = r
        zero = bytes(32)
        for stream in (zero + bytes(64), rng.randrange(XA, 1 << 64).to_bytes(8, 'little') + zero + bytes(64), boundary_stream(rng, 0)[:32] + zero + bytes(64)):
            t = rng.choice(logs[1:])
            g.add('gt.mulrand %s %s' % (enc[t], stream.hex()), 'rand', t, stream)
            g.add('gt.mulrandip %s %s' % (enc[t], stream.hex()), 'rand', t, stream)
            g.add('rc.pox.random %s' % stream.hex(), 'prand', stream)
            g.add('c.wkd_random_gt %s' % stream.hex(), 'wkdgt', stream)
    if sh.index < 6:
        for delta in (0, -1, 1, 0):
            stream = boundary_stream(rng, delta)
            t = rng.choice(logs[1:])
            g.add('gt.mulrand %s %s' % (enc[t], stream.hex()), 'rand', t, stream)
            g.add('rc.pox.random %s' % stream.hex(), 'prand', stream)
            g.add('c.wkd_random_gt %s' % stream.hex(), 'wkdgt', stream)
    if sh.index < 8:
        # a digit draw exactly on the rejection boundary, for every digit position
        for pos in range(4):
            for first in (XA, XA - 1, XA + 1, (1 << 64) - 1)[sh.index % 2::2] if sh.quick else (XA, XA - 1, XA + 1, (1 << 64) - 1):
                if pos == 3 and first == XA - 1:
                    continue        # c3 = |x|-1 is the outer-rejection case, driven above
                stream = digit_edge_stream(rng, pos, first)
                t = rng.choice(logs[1:])
                g.add('gt.mulrand %s %s' % (enc[t], stream.hex()), 'rand', t, stream)
                g.add('rc.pox.random %s' % stream.hex(), 'prand', stream)
                g.add('c.wkd_random_gt %s' % stream.hex(), 'wkdgt', stream)
    for _ in range(sh.pick(4, 60)):
        stream = rng.getrandbits(8 * 8 * 40).to_bytes(8 * 40, 'little')
        g.add('gt.mulrand %s %s' % (enc[rng.choice(logs)], stream.hex()), 'rand', logs[0], stream)
        g.lines[-1] = 'gt.mulrand %s %s' % (enc[logs[4]], stream.hex())
        g.meta[-1] = ('rand', logs[4], stream)
    outs = session.run_all(sh, sh.payload['cfgs'], g.lines)
    for line, meta, out in zip(g.lines, g.meta, outs):
        if out is None:
            continue
        op = line.split(' ')[0]

        def fail(msg, key):
            sh.violation(key, '%s: %s -> %s' % (msg, line[-200:], ' '.join(out)[-200:]), {'line': line, 'got': ' '.join(out)})
        try:
            kind = meta[0]
            if kind == 'pow':
                name, t, k = meta[1:]
                r = C.dec_flat(out[1])
                cls = '%s/%s' % (kclass(k, 256).split('/')[0], 'a=1' if t == 0 else 'generic')
                if r != gtlib.e0_pow(t * (k % R)):
                    fail('result is not a^k (k=%x)' % k, 'pow:%s:%s' % (name, kclass(k, 256).split('/')[0]))
                sh.event(name, cls, trivial=(t == 0 and k == 0))
            elif kind == 'pox':
                t, cs = meta[1:]
                r = C.dec_flat(out[1])
                kk = sum(c * XA ** i for i, c in enumerate(cs))
                cls = 'digits:' + ','.join('0' if c == 0 else ('>=|x|' if c >= XA else 'g') for c in cs)
                if r != gtlib.e0_pow(t * kk):
                    fail('exponentiate_gt(digits) is not a^(sum c_i|x|^i)', 'pow:exponentiate_gt(PowersOfX)')
                sh.event('exponentiate_gt(PowersOfX)', cls)
            elif kind == 'add':
                t, u = meta[1:]
                if C.dec_flat(out[1]) != gtlib.e0_pow(t + u):
                    fail('gt_add is not the product', 'value:gt_add')
                sh.event('gt_add', 'a=1' if t == 0 or u == 0 else 'generic')
            elif kind == 'dbl':
                t = meta[1]
                if C.dec_flat(out[1]) != gtlib.e0_pow(2 * t):
                    fail('gt_double is not a^2', 'value:gt_double')
                sh.event('gt_double', 'a=1' if t == 0 else 'generic')
            elif kind == 'neg':
                t = meta[1]
                if C.dec_flat(out[1]) != gtlib.e0_pow(-t):
                    fail('gt_negate is not a^-1', 'value:gt_negate')
                sh.event('gt_negate', 'a=1' if t == 0 else 'generic')
            elif kind == 'eq':
                sh.event('gt_equal', 'x', trivial=True)
            elif kind in ('rand', 'prand', 'wkdgt'):
                stream = meta[-1]
                rep = sampler_replay(stream)
                if kind == 'rand':
                    res, y = C.dec_flat(out[1]), C.unle(out[2])
                    consumed, exhausted = int(out[3]), int(out[4])
                    base_t = meta[1]
                    sizes = out[6]
                elif kind == 'prand':
                    y = C.unle(out[1])
                    digs = [C.unle(x) for x in out[2:6]]
                    consumed, exhausted = int(out[6]), int(out[7])
                    sizes = out[9]
                else:
                    res = C.dec_flat(out[1])
                    consumed, exhausted = int(out[2]), int(out[3])
                    base_t, y = 1, None
                    sizes = out[5]
                name = {'rand': 'gt_multiply_random', 'prand': 'PowersOfX::random', 'wkdgt': 'wkdibe_random_gt'}[kind]
                if y is not None and y >= R:
                    fail('sampled exponent not below r', 'sampler:%s:range' % name)
                if rep is None or exhausted:
                    cls = 'stream-exhausted(range and consistency only)'
                    if kind == 'rand' and res != gtlib.e0_pow(base_t * y):
                        fail('result is not base^y for the returned y', 'sampler:%s:consistency' % name)
                else:
                    ey, ecs, epos, drej, orej = rep
                    cls = 'digit-rej%d/outer-rej%d' % (min(drej, 9), orej)
                    first = sum(int.from_bytes(stream[8 * i:8 * i + 8], 'little') * XA ** i for i in range(4)) if len(stream) >= 32 else None
                    if first is not None and abs(first - R) <= 1:
                        cls += '/first-candidate=r%+d' % (first - R)
                    if y is not None and (y != ey or consumed != epos):
                        fail('exponent is not what the specified rejection sampler yields on this byte stream (expected %x, consumed %d)' % (ey, epos), 'sampler:%s:replay' % name)
                    if y is None and consumed != epos:
                        fail('byte consumption differs from the specified sampler', 'sampler:%s:replay' % name)
                    if kind == 'prand' and digs != ecs:
                        fail('digits differ from the specified sampler', 'sampler:%s:digits' % name)
                    if kind != 'prand' and res != gtlib.e0_pow(base_t * ey):
                        fail('result is not base^y', 'sampler:%s:consistency' % name)
                    if any(int(s) != 8 for s in sizes.split(',')):
                        fail('unexpected request sizes', 'sampler:%s:sizes' % name)
                sh.event(name, cls)
                if sh.index == 0:
                    sh.sample({'op': name, 'class': cls, 'stream_bytes': len(stream)}, limit=4)
        except C.NonCanonical as ex:
            sh.violation('canonical:%s' % op, '%s in result of %s' % (ex, line[:100]), {'line': line})


def run(ctx):
    O.selftest(random.Random(ctx.seed))
    cfgs = ['prod', 'san', 'p32'] if ctx.quick else ['prod', 'san', 'p64', 'p32', 'x86base', 'p64-O0', 'gcc-p64']
    specs = {c: (c if c != 'x86base' else 'prod', 'opdrv.cpp', ['--x86base'] if c == 'x86base' else []) for c in cfgs}
    exes = session.build_exes(specs)
    session.run_shards(ctx, worker, 16, exes, {'cfgs': cfgs})
    ctx.rule = ('events: gt_multiply / exponentiate_gt_nodiv / _div / digits entry point / gt_add / gt_double / gt_negate on a = E0^t (t known to the model), and the '
                'random-exponent routines with the exact byte stream the callback delivered; oracle: a^(k mod r) from the model\'s own E0 table; the returned y must equal '
                'what the specified sampler (4 digits below |x| by rejection, recombine, reject >= r) yields on the recorded stream and result == base^y; '
                'class = (routine, scalar class, rejection counts)')
    ctx.extra['configs'] = cfgs
    ctx.assumptions = ['Python integer arithmetic', 'oracle/bls.py (E0 by the definitional pairing)', 'every GT element is a power of E0 (group of prime order r)']
    need = ['gt_multiply_random|digit-rej0/outer-rej1/first-candidate=r+0', 'gt_multiply_random|digit-rej0/outer-rej0/first-candidate=r-1', 'PowersOfX::random|digit-rej0/outer-rej1/first-candidate=r+0',
            'gt_multiply(result==base)|', 'exponentiate_gt_nodiv(in place)|', 'gt_multiply|k>=2r', 'gt_multiply|k=r', 'gt_multiply|k=0', 'gt_multiply|k>=2^256-33', 'exponentiate_gt_nodiv|', 'gt_multiply_random|digit-rej9', 'gt_multiply_random|digit-rej0/outer-rej1',
            'gt_multiply_random|digit-rej0/outer-rej2', 'PowersOfX::random|digit-rej0/outer-rej1', 'wkdibe_random_gt|', 'gt_double|generic', 'gt_negate|generic', 'exponentiate_gt(PowersOfX)|']
    for r in need:
        if not any(k.startswith(r) for k in ctx.classes):
            ctx.required_classes.add(r)
    return None
