"""C05 - G1 and G2 point arithmetic is the elliptic-curve group law (all representations, exceptional cases)."""
import random

import session
import codec as C
import points
from oracle import bls as O


class Gen:
    def __init__(self):
        self.lines = []
        self.meta = []

    def add(self, line, *meta):
        self.lines.append(line)
        self.meta.append(meta)


Q = O.Q


def relation(E, P, S):
    if P is None and S is None:
        return 'O+O'
    if P is None:
        return 'O+S'
    if S is None:
        return 'P+O'
    if E.eq(P, S):
        return 'P+P'
    if E.eq(P, E.neg(S)):
        return 'P+(-P)'
    return 'generic'


def emit_pair(g, gc, rng, P, S, tagP, tagS, kindP=None, kindS=None):
    """all operations on one ordered pair of points, in fresh representatives"""
    E = gc.E
    n, cn = gc.name, gc.cname
    ra, ka = gc.rep(P, rng, kindP if P is not None else None)
    rb, kb = gc.rep(S, rng, kindS if S is not None else None)
    api = rng.random() < 0.5
    rel = relation(E, P, S)
    if api:
        g.add('c.%s_add %s %s' % (cn, ra, rb), gc, 'add', P, S, '%s/%s+%s/%s,%s' % (rel, ka, kb, tagP, tagS))
        g.add('c.%s_equal %s %s' % (cn, ra, rb), gc, 'eq', P, S, '%s/%s,%s' % (rel, ka, kb))
    else:
        g.add('%s.add %s %s' % (n, ra, rb), gc, 'add', P, S, '%s/%s+%s/%s,%s' % (rel, ka, kb, tagP, tagS))
        g.add('%s.eq %s %s' % (n, ra, rb), gc, 'eq', P, S, '%s/%s,%s' % (rel, ka, kb))
    sa = gc.aff(S, rng, junk=rng.random() < 0.5)
    if api:
        g.add('c.%s_add_mixed %s %s' % (cn, ra, sa), gc, 'add', P, S, '%s/%s+aff/%s,%s' % (rel, ka, tagP, tagS))
    else:
        g.add('%s.addmixed %s %s' % (n, ra, sa), gc, 'add', P, S, '%s/%s+aff/%s,%s' % (rel, ka, tagP, tagS))
    pa = gc.aff(P, rng, junk=rng.random() < 0.5)
    g.add(('c.%saffine_equal %s %s' % (cn, pa, sa)) if api else ('%s.affeq %s %s' % (n, pa, sa)), gc, 'eq', P, S, 'affine/' + rel)


def emit_single(g, gc, rng, P, tag, kindP=None):
    n, cn = gc.name, gc.cname
    ra, ka = gc.rep(P, rng, kindP if P is not None else None)
    api = rng.random() < 0.5
    base = 'O' if P is None else tag
    g.add(('c.%s_double %s' % (cn, ra)) if api else ('%s.dbl %s' % (n, ra)), gc, 'dbl', P, '%s/%s' % (base, ka))
    g.add(('c.%s_negate %s' % (cn, ra)) if api else ('%s.neg %s' % (n, ra)), gc, 'neg', P, '%s/%s' % (base, ka))
    g.add(('c.%saffine_from_projective %s' % (cn, ra)) if api else ('%s.toaff %s' % (n, ra)), gc, 'toaff', P, '%s/%s' % (base, ka))
    pa = gc.aff(P, rng, junk=True)
    g.add(('c.%s_from_affine %s' % (cn, pa)) if api else ('%s.fromaff %s' % (n, pa)), gc, 'fromaff', P, base)
    g.add(('c.%saffine_negate %s' % (cn, pa)) if api else ('%s.affneg %s' % (n, pa)), gc, 'affneg', P, base)
    g.add('%s.iszero %s' % (n, ra), gc, 'iszero', P, '%s/%s' % (base, ka))
    g.add('%s.oncurve %s' % (n, gc.aff(P)), gc, 'oncurve', P, base)


def gen(g, gc, pool, rng, n, directed):
    E = gc.E
    if directed:
        cand = [('O', None)]
        ks = [1, 2, 3, O.R - 1]
        for k in ks:
            cand.append(('sub', pool.dl[k]))
        for k in pool.keys[-3:]:
            cand.append(('sub', pool.dl[k]))
        for P in pool.curve[:2]:
            cand += [('curve', P), ('curve', E.neg(P)), ('curve', E.dbl(P))]
        for P in pool.special:
            cand.append(('special', P))
        for tp, P in cand:
            emit_single(g, gc, rng, P, tp)
            for ts, S in cand:
                for _ in range(2):
                    emit_pair(g, gc, rng, P, S, tp, ts)
            # chains that return to a previous point: (P + S) - S and P + P through add
            emit_pair(g, gc, rng, P, P, tp, tp)
            emit_pair(g, gc, rng, P, E.neg(P), tp, tp)
        # operands RELATED by the curve's automorphism (x, y) -> (beta x, y): same y, different x (an "equal points" test that looks at one
        # coordinate only, or at y alone, goes wrong here), and its composition with negation
        beta = next(pow(g0, (Q - 1) // 3, Q) for g0 in range(2, 60) if pow(g0, (Q - 1) // 3, Q) != 1)
        for k in (1, 3, pool.keys[-1]):
            P0 = pool.dl[k]
            if P0 is None:
                continue
            x0, y0 = P0
            for bp in (beta, beta * beta % Q):
                Sx = (x0 * bp % Q) if gc.which == 1 else (x0[0] * bp % Q, x0[1] * bp % Q)
                S0 = (Sx, y0)
                assert E.on_curve(S0)
                for _ in range(2):
                    emit_pair(g, gc, rng, P0, S0, 'sub', 'same-y')
                    emit_pair(g, gc, rng, S0, P0, 'same-y', 'sub')
                    emit_pair(g, gc, rng, P0, E.neg(S0), 'sub', 'same-y-negated')
        # every structured representative (z = -1, 1+tu, u, the value whose limbs read 1, ...) through every operation and relation
        P = pool.dl[3]
        S = pool.dl[2]
        for zk in gc.zkinds():
            emit_single(g, gc, rng, P, 'sub', zk)
            for other, rel_s in ((S, 'sub'), (P, 'sub'), (E.neg(P), 'sub'), (None, 'O')):
                emit_pair(g, gc, rng, P, other, 'sub', rel_s, zk, rng.choice(['z1', 'zr', zk]))
                emit_pair(g, gc, rng, other, P, rel_s, 'sub', rng.choice(['z1', 'zr']), zk)
    for _ in range(n):
        tp, P = pool.any(rng)
        t = rng.random()
        if t < 0.15:
            S, ts = P, tp
        elif t < 0.3:
            S, ts = E.neg(P), tp
        elif t < 0.4:
            S, ts = None, 'O'
        elif t < 0.5:
            S, ts, P, tp = P, tp, None, 'O'
        else:
            ts, S = pool.any(rng)
        emit_pair(g, gc, rng, P, S, tp, ts)
        if rng.random() < 0.5:
            emit_single(g, gc, rng, P, tp)


def judge(sh, line, meta, out):
    gc, kind = meta[0], meta[1]
    E = gc.E
    op = line.split(' ')[0]

    def fail(msg, key=None):
        sh.violation(key or ('value:%s' % op), '%s: %s -> %s' % (msg, line[:900], ' '.join(out)[:600]), {'line': line, 'got': ' '.join(out)})
    cls = meta[-1]
    trivial = False
    try:
        if kind == 'add':
            P, S = meta[2], meta[3]
            r = gc.dec_p(out[1])
            exp = E.add(P, S)
            trivial = P is None and S is None
            if not E.eq(r, exp):
                fail('addition result is not P+S')
        elif kind == 'dbl':
            P = meta[2]
            r = gc.dec_p(out[1])
            if not E.eq(r, E.dbl(P)):
                fail('doubling wrong')
        elif kind == 'neg':
            P = meta[2]
            r = gc.dec_p(out[1])
            if not E.eq(r, E.neg(P)):
                fail('negation wrong')
        elif kind == 'eq':
            P, S = meta[2], meta[3]
            exp = int(E.eq(P, S))
            if int(out[1]) != exp:
                fail('equality is not representation-independent point equality (expected %d)' % exp)
        elif kind == 'toaff':
            P = meta[2]
            r = gc.dec_a(out[1])
            if not E.eq(r, P):
                fail('affine conversion wrong')
        elif kind == 'fromaff':
            P = meta[2]
            r = gc.dec_p(out[1])
            if not E.eq(r, P):
                fail('from_affine wrong')
        elif kind == 'affneg':
            P = meta[2]
            r = gc.dec_a(out[1])
            if not E.eq(r, E.neg(P)):
                fail('affine negation wrong')
        elif kind == 'iszero':
            P = meta[2]
            if int(out[1]) != int(P is None):
                fail('is_zero wrong')
        elif kind == 'oncurve':
            P = meta[2]
            if P is not None and int(out[1]) != 1:
                fail('is_on_curve false for a curve point')
            trivial = P is None
        else:
            raise AssertionError(kind)
    except C.NonCanonical as e:
        sh.violation('canonical:%s' % op, '%s in result of %s' % (e, line[:300]), {'line': line})
    sh.event('%s.%s' % (gc.name, kind), cls, trivial)
    return cls


def worker(sh):
    rng = sh.rng
    g = Gen()
    for which in (1, 2):
        gc = points.GroupCtx(which)
        pool = points.Pool(gc, rng, n_random=2, n_curve=2)
        pool.grow(rng, 40)
        n = sh.pick(1500, 40000) if which == 1 else sh.pick(700, 20000)
        gen(g, gc, pool, rng, n, directed=(sh.index < 2 and (sh.index + 1) == which) or (not sh.quick and sh.index < 6))
    outs = session.run_all(sh, sh.payload['cfgs'], g.lines)
    for line, meta, out in zip(g.lines, g.meta, outs):
        if out is None:
            continue
        try:
            cls = judge(sh, line, meta, out)
        except (IndexError, ValueError, AssertionError) as e:
            sh.violation('malformed:%s' % line.split(' ')[0], 'unusable answer %r for %s (%r)' % (out, line[:200], e), {'line': line})
            continue
        if sh.index == 0:
            sh.sample({'op': line[:220], 'class': cls, 'answer': ' '.join(out)[:120]}, limit=4)


def run(ctx):
    O.selftest(random.Random(ctx.seed))
    cfgs = ['prod', 'san', 'p32', 'p64-O0'] if ctx.quick else ['prod', 'san', 'p64', 'p32', 'x86base', 'p64-O0', 'p32-O0', 'gcc-p64', 'gcc-p64-O0']
    specs = {c: (c if c != 'x86base' else 'prod', 'opdrv.cpp', ['--x86base'] if c == 'x86base' else []) for c in cfgs}
    exes = session.build_exes(specs)
    session.run_shards(ctx, worker, 16, exes, {'cfgs': cfgs})
    ctx.rule = ('one event = one group operation (C API entry point or the C++ member, chosen at random) on points in freshly drawn representatives '
                '(z=1, z=-1, random z, identity as z=0 with zero or junk x,y; affine identity with junk coordinates); judged by the affine '
                'chord-and-tangent law of the reference model after decoding (z=0 => identity); class = (operation, exceptional relation '
                'O+O/O+S/P+O/P+P/P+(-P)/generic, representative kinds, provenance subgroup/full-curve/special)')
    ctx.extra['configs'] = cfgs
    ctx.assumptions = ['Python integer arithmetic', 'oracle/bls.py curve arithmetic (self-tested)', 'driver opdrv.cpp copies operands verbatim']
    need = []
    for G in ('G1', 'G2'):
        for relk in ('O+S', 'P+O', 'P+P', 'P+(-P)', 'generic'):
            for kind in ('z1', 'zr', 'zm'):
                if relk.startswith('P') or relk == 'generic':
                    need.append('%s.add|%s/%s+' % (G, relk, kind))
            need.append('%s.add|%s/' % (G, relk))
        need += ['%s.add|P+P/zr+aff' % G, '%s.add|P+(-P)/zr+aff' % G, '%s.eq|P+P/zr,zr' % G, '%s.dbl|O/infj' % G, '%s.toaff|O/infj' % G,
                 '%s.add|generic/zr+zr/curve' % G, '%s.add|P+P/z1+z1' % G]
    for r in need:
        if not any(k.startswith(r) for k in ctx.classes):
            ctx.required_classes.add(r)
    return None
